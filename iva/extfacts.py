"""E7 - facts about installed third-party libraries, read from the libraries
themselves (stubs, sources, or importing the *library*), never from iOpt at run time."""
from __future__ import annotations

import ast
import importlib
import importlib.util
import os
import warnings
from typing import Dict, List, Optional, Set, Tuple

from .index import Index, ModuleInfo

QUICK_LIBS = {'numpy', 'math', 'scipy', 'depq', 'copy', 'sys', 'datetime', 'typing', 'abc', 'enum', 'os',
              '__future__'}
HEAVY_LIBS = {'matplotlib', 'sklearn'}


def numpy_stub_names() -> Optional[Set[str]]:
    spec = importlib.util.find_spec('numpy')
    if spec is None or not spec.origin:
        return None
    pyi = os.path.join(os.path.dirname(spec.origin), '__init__.pyi')
    if not os.path.exists(pyi):
        return None
    try:
        tree = ast.parse(open(pyi, encoding='utf-8').read())
    except SyntaxError:
        return None
    names: Set[str] = set()
    for st in ast.walk(tree):
        if isinstance(st, (ast.FunctionDef, ast.AsyncFunctionDef, ast.ClassDef)):
            names.add(st.name)
        elif isinstance(st, ast.ImportFrom):
            for a in st.names:
                names.add(a.asname or a.name)
        elif isinstance(st, ast.Import):
            for a in st.names:
                names.add((a.asname or a.name).split('.')[0])
        elif isinstance(st, (ast.Assign, ast.AnnAssign)):
            for t in (st.targets if isinstance(st, ast.Assign) else [st.target]):
                if isinstance(t, ast.Name):
                    names.add(t.id)
    return names


def evaluated_chains(m: ModuleInfo) -> List[Tuple[str, ast.AST]]:
    """(dotted chain, node) for every attribute chain / imported name rooted at a non-repository import that
    the interpreter evaluates.  Annotations of function-local variables are never evaluated; parameter and
    return annotations are skipped under 'from __future__ import annotations'."""
    future = any(isinstance(st, ast.ImportFrom) and st.module == '__future__' and
                 any(a.name == 'annotations' for a in st.names) for st in m.tree.body)
    ext_roots: Dict[str, str] = {}
    for alias, imp in m.imports.items():
        if imp[0] == 'module':
            if not imp[1].startswith('iOpt'):
                ext_roots[alias] = imp[1]
        else:
            mod = imp[1]
            if not mod.startswith('iOpt') and mod != '__future__':
                ext_roots[alias] = f'{mod}.{imp[2]}' if mod else imp[2]
    out: List[Tuple[str, ast.AST]] = []
    skip: Set[int] = set()

    def mark(n):
        for x in ast.walk(n):
            skip.add(id(x))

    def scan_annotations(fn_depth: int, node: ast.AST):
        for ch in ast.iter_child_nodes(node):
            if isinstance(ch, (ast.FunctionDef, ast.AsyncFunctionDef)):
                if future:
                    for a in list(ch.args.posonlyargs) + list(ch.args.args) + list(ch.args.kwonlyargs):
                        if a.annotation is not None:
                            mark(a.annotation)
                    if ch.returns is not None:
                        mark(ch.returns)
                scan_annotations(fn_depth + 1, ch)
            elif isinstance(ch, ast.AnnAssign):
                if fn_depth > 0 and isinstance(ch.target, ast.Name):
                    mark(ch.annotation)          # local variable annotation: never evaluated
                elif future:
                    mark(ch.annotation)
                scan_annotations(fn_depth, ch)
            else:
                scan_annotations(fn_depth, ch)
    scan_annotations(0, m.tree)

    def chain_of(n) -> Optional[str]:
        parts = []
        while isinstance(n, ast.Attribute):
            parts.append(n.attr)
            n = n.value
        if isinstance(n, ast.Name) and n.id in ext_roots:
            return '.'.join([ext_roots[n.id]] + parts[::-1])
        return None

    seen_inner: Set[int] = set()
    for n in ast.walk(m.tree):
        if id(n) in skip or id(n) in seen_inner:
            continue
        if isinstance(n, ast.Attribute):
            c = chain_of(n)
            if c is not None:
                out.append((c, n))
                x = n.value
                while isinstance(x, ast.Attribute):
                    seen_inner.add(id(x))
                    x = x.value
                seen_inner.add(id(x))
        elif isinstance(n, ast.Name) and isinstance(n.ctx, ast.Load) and n.id in ext_roots:
            out.append((ext_roots[n.id], n))
    # the imports themselves
    for st in ast.walk(m.tree):
        if isinstance(st, ast.ImportFrom) and st.module and not st.module.startswith('iOpt') and \
                st.module != '__future__' and not st.level:
            for a in st.names:
                out.append((f'{st.module}.{a.name}', st))
    return out


_mod_cache: Dict[str, object] = {}


def resolve_chain(chain: str) -> Tuple[bool, str]:
    """Does the dotted chain resolve in the installed libraries?  (ok, how)"""
    parts = chain.split('.')
    # longest importable module prefix
    obj = None
    used = 0
    for i in range(len(parts), 0, -1):
        modname = '.'.join(parts[:i])
        if modname in _mod_cache:
            obj = _mod_cache[modname]
            used = i
            break
        try:
            with warnings.catch_warnings():
                warnings.simplefilter('ignore')
                spec = importlib.util.find_spec(modname)
        except (ImportError, ValueError, AttributeError):
            spec = None
        if spec is not None:
            try:
                with warnings.catch_warnings():
                    warnings.simplefilter('ignore')
                    obj = importlib.import_module(modname)
            except Exception as e:         # library import failure is a fact about the environment
                return False, f'import of {modname} failed: {type(e).__name__}: {e}'
            _mod_cache[modname] = obj
            used = i
            break
    if obj is None:
        return False, f'no installed module provides {parts[0]}'
    for j in range(used, len(parts)):
        try:
            with warnings.catch_warnings():
                warnings.simplefilter('ignore')
                obj = getattr(obj, parts[j])
        except AttributeError:
            return False, f'{".".join(parts[:j])} has no attribute {parts[j]}'
        except Exception as e:
            return False, f'{".".join(parts[:j + 1])}: {type(e).__name__}: {e}'
    return True, 'resolved'


def neldermead_honours_bounds() -> Tuple[bool, str]:
    """scipy's Nelder-Mead accepts bounds and clips every point sent to the objective (read from its source)."""
    spec = importlib.util.find_spec('scipy.optimize._optimize')
    if spec is None or not spec.origin or not os.path.exists(spec.origin):
        return False, 'scipy.optimize._optimize source not found'
    try:
        tree = ast.parse(open(spec.origin, encoding='utf-8').read())
    except SyntaxError as e:
        return False, f'cannot parse scipy source: {e}'
    for n in ast.walk(tree):
        if isinstance(n, ast.FunctionDef) and n.name == '_minimize_neldermead':
            params = [a.arg for a in n.args.args + n.args.kwonlyargs]
            if 'bounds' not in params:
                return False, '_minimize_neldermead has no bounds parameter'
            clips = [c for c in ast.walk(n) if isinstance(c, ast.Call) and
                     ((isinstance(c.func, ast.Attribute) and c.func.attr == 'clip') or
                      (isinstance(c.func, ast.Name) and 'clip' in c.func.id))]
            wraps = [c for c in ast.walk(n) if isinstance(c, ast.Call) and isinstance(c.func, ast.Name) and
                     c.func.id in ('_wrap_scalar_function_maxfun_validation', '_clip_x_for_func',
                                   '_wrap_scalar_function')]
            if clips:
                return True, f'bounds parameter present; {len(clips)} clip call(s), {len(wraps)} wrapper call(s)'
            return False, '_minimize_neldermead takes bounds but no clipping found'
    return False, '_minimize_neldermead not found'
