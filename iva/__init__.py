"""iva - iOpt verification by static analysis.

Everything in this package inspects /repo's *source* (ast) and the installed
libraries' stubs/sources.  No function of iOpt is ever called.
"""
