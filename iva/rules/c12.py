"""C12 - solver instances are isolated from one another (DESIGN.md section 3, C12)."""
from __future__ import annotations

import ast

from ..index import AnalysisError, FuncInfo
from ..pta import Obj
from ..paths import key_of
from ..report import Ctx
from . import common as C

LEVEL_TEXT = ('Static decision by an Andersen-style points-to analysis of the whole library: no mutation site may '
              'reach a process-wide singleton (an object allocated in a parameter default, a module body or a class '
              'body); no global/module/class attribute is written after import; every component a Solver holds is '
              'allocated per Solver and held by no process-wide object; the shared inputs (problem, parameters) are never written by the library; Solve '
              'returns the solver\'s own Solution; a change of process-wide interpreter / numpy / warnings state is '
              'undone on every exit of the routine that made it; in the shipped callbacks no index loop over argument data is '
              'bounded by a size kept in the listener object from another call (a listener shared by two solvers).')
EXPLANATION = ('Two solver instances can only interfere through an object both can reach. Objects allocated inside '
               'functions are per call; the only objects shared by construction are the singletons enumerated by the '
               'allocation-site abstraction. The check proves that every one of the mutation sites of the library '
               'has no such singleton in its target set, lists every mutable default with the reason it is harmless, '
               'and checks the freshness of the solver\'s object graph. This covers all interleavings at once.')
TRUSTED = ['CPython ast', 'iva engine (points-to relation, allocation-site abstraction)',
           'logging.Logger objects are process-wide by design and hold no solver state']

DATA_KINDS = ('inst', 'ext_inst', 'list', 'tuple', 'dict', 'set', 'ndarray', 'ext', 'param', 'field')
MUTABLE_KINDS = ('inst', 'list', 'dict', 'set', 'ndarray', 'ext')
EXTERNAL_STATE_OK = {
    'matplotlib.pyplot.rcParams': 'matplotlib drawing configuration: not solver state (painters only)',
}


def r12_1(ctx: Ctx):
    rid = 'R12.1'
    ctx.rule(rid, 'mutable-default hazard: no mutation site anywhere in the library has a default-argument '
                  'singleton in its target set')
    roles = C.roles_of(ctx)
    pta = ctx.pta
    muts = roles.mutations()
    hit = {}
    for m in muts:
        if m.init_self:
            continue            # the constructor initialising the default object itself
        for o in m.bases:
            if o.scope == 'default' and o.kind in MUTABLE_KINDS:
                hit.setdefault(o, []).append(m)
    # enumerate every mutable default in the library
    n = 0
    for f in ctx.ix.real_functions():
        for pname, dexpr in f.defaults().items():
            objs = [o for o in pta.default_objs(f, pname) if o.kind in MUTABLE_KINDS]
            if not objs:
                continue
            n += 1
            # everything reachable from the default object is shared, too
            shared = [o for o in pta.reach_objs(objs) if o.scope == 'default' and o.kind in MUTABLE_KINDS]
            bad = [(o, hit[o]) for o in shared if o in hit]
            loc = f.loc(dexpr)
            if bad:
                o, ms = bad[0]
                sites = sorted({f'{m.loc()} ({m.func.short}: {m.text()[:60]})' for m in ms})[:4]
                ctx.fail(rid, f'{f.short}({pname}=...)', loc,
                         f'the default value of parameter {pname} of {f.short} is one object shared by every call '
                         f'that relies on it, and the library mutates it at {sites}: instances interfere',
                         key=f'{rid}::{f.module.relpath}::{f.short}::{pname}')
            else:
                ctx.ok(rid, f'{f.short}({pname}=...)',
                       f'mutable default of {pname} is never the target of any of the {len(muts)} mutation sites '
                       f'(copied or read-only)', loc)
    ctx.floor(rid, 'mutable default arguments in the library', n, 4)
    ctx.floor(rid, 'mutation sites in the library', len(muts), 300)


def r12_2(ctx: Ctx, only_modules=None, rid: str = 'R12.2', consequence: str = ''):
    """only_modules: restrict to mutation sites inside modules whose name starts with one of the prefixes (used by
    the evolvent checks: process-wide state written by evolvent code makes queries depend on other instances)."""
    if only_modules is None:
        ctx.rule(rid, 'no global statement, no store to a module or class attribute after import, no mutation of an '
                      'object allocated in a module or class body')
    roles = C.roles_of(ctx)
    pta = ctx.pta
    if only_modules is not None:
        n_local = 0
        for (f, st, name) in pta.global_writes:
            if f.module.name.startswith(tuple(only_modules)):
                ctx.fail(rid, f.short, f.loc(st), f'module-level variable {name} is rebound inside {f.short}: '
                                                  f'{consequence}', key=ctx.key_for(rid, f, st))
        for m in roles.mutations():
            if m.func.kind in ('module', 'classbody') or m.init_self or \
                    not m.func.module.name.startswith(tuple(only_modules)):
                continue
            n_local += 1
            for o in m.bases:
                if (o.kind == 'cls' and m.kind in ('attr', 'aug', 'del')) or o.kind == 'module' or \
                        (o.scope in ('module', 'class', 'memo') and o.kind in MUTABLE_KINDS):
                    ctx.fail(rid, m.func.short, m.loc(),
                             f'{m.text()[:70]} writes process-wide state ({o.describe()}): {consequence}',
                             key=ctx.key_for(rid, m.func, m.node))
        return n_local
    for (f, st, name) in pta.global_writes:
        ctx.fail(rid, f.short, f.loc(st), f'module-level variable {name} is rebound inside {f.short} (global statement)',
                 key=ctx.key_for(rid, f, st))
    n = 0
    for m in roles.mutations():
        if m.func.kind in ('module', 'classbody') or m.init_self:
            continue            # import-time construction of the module's own tables / object under construction
        n += 1
        for o in m.bases:
            if o.kind in ('module',):
                ctx.fail(rid, m.func.short, m.loc(), f'attribute of module {o.site} is written at run time: {m.text()}',
                         key=ctx.key_for(rid, m.func, m.node))
            elif o.kind == 'cls' and m.kind in ('attr', 'aug', 'del'):
                ctx.fail(rid, m.func.short, m.loc(),
                         f'class attribute {o.cls.name}.{m.field} is written at run time (shared by all instances): '
                         f'{m.text()}', key=ctx.key_for(rid, m.func, m.node))
            elif o.kind == 'extmod':
                if any(o.site.startswith(k) for k in EXTERNAL_STATE_OK):
                    continue
                ctx.fail(rid, m.func.short, m.loc(), f'state of external module {o.site} is written: {m.text()}',
                         key=ctx.key_for(rid, m.func, m.node))
            elif o.scope in ('module', 'class') and o.kind in MUTABLE_KINDS:
                ctx.fail(rid, m.func.short, m.loc(),
                         f'{m.text()} mutates {o.describe()}: a process-wide object shared by all instances',
                         key=ctx.key_for(rid, m.func, m.node))
            elif o.kind == 'field' and o.extra and o.extra[0] == 'of':
                root = o
                while root.kind == 'field' and root.extra and root.extra[0] == 'of':
                    root = root.extra[1]
                if root.kind == 'extmod' and not any(root.site.startswith(k) or o.site.startswith(k)
                                                     for k in EXTERNAL_STATE_OK):
                    ctx.fail(rid, m.func.short, m.loc(), f'state of external module {root.site} is written: {m.text()}',
                             key=ctx.key_for(rid, m.func, m.node))
    ctx.ok(rid, 'iOpt/*', f'{n} run-time mutation sites: none targets a module, class or external-module object',
           'iOpt/')
    ctx.floor(rid, 'run-time mutation sites', n, 300)
    # positive control: the rule must see the module tables it protects
    tables = [o for o in pta._objs.values() if o.scope == 'module' and o.kind in ('ndarray', 'list')]
    ctx.floor(rid, 'module-level table objects known to the analysis', len(tables), 8)


def r12_3(ctx: Ctx):
    rid = 'R12.3'
    ctx.rule(rid, 'every component of a Solver is allocated per Solver; the shared inputs are never written by the '
                  'library')
    roles = C.roles_of(ctx)
    pta = ctx.pta
    solver = ctx.ix.cls('Solver')
    so = pta.inst_ext(solver)
    init = solver.lookup('__init__')
    shared_inputs = set(init.param_names[1:])
    comps = {}
    for k in list(pta.pts):
        if k[0] == 'F' and k[1] is so and isinstance(k[2], str):
            comps[k[2]] = pta.pts[k]
    n = 0
    own = set()
    singles = [o for o in pta._objs.values() if (o.is_singleton_scope and o.kind in MUTABLE_KINDS) or o.kind == 'cls']
    held_by_singletons = set(pta.reach_objs(singles)) - set(singles)
    for fld, objs in sorted(comps.items()):
        data = [o for o in objs if o.kind in DATA_KINDS]
        if not data:
            continue
        # is this attribute simply a stored constructor parameter?
        is_input = False
        for st in ast.walk(init.node):
            if isinstance(st, ast.Assign) and len(st.targets) == 1 and isinstance(st.targets[0], ast.Attribute) \
                    and st.targets[0].attr == fld.replace('_Solver', '') and isinstance(st.value, ast.Name) \
                    and st.value.id in shared_inputs:
                is_input = True
        if is_input:
            continue
        n += 1
        bad = [o for o in data if not (o.scope == 'func' and o.kind not in ('param', 'field', 'ext_inst'))]
        ctx.check(not bad, rid, f'Solver.{fld}', init.loc(), f'Solver.{fld} is allocated per Solver',
                  f'Solver.{fld} can hold an object that is not allocated per Solver: '
                  f'{[b.describe() for b in bad[:2]]}', key=f'{rid}::Solver.{fld}')
        held = [o for o in data if o in held_by_singletons and o.kind in MUTABLE_KINDS]
        ctx.check(not held, rid, f'Solver.{fld}', init.loc(),
                  f'Solver.{fld} is not held by any process-wide object',
                  f'the object stored in Solver.{fld} is also held by a process-wide object (module / class / '
                  f'default-argument scope): every Solver that obtains it from there shares it with the others: '
                  f'{[h.describe() for h in held[:2]]}', key=f'{rid}::Solver.{fld}::held-by-singleton')
        own |= set(data)
    ctx.floor(rid, 'components held by a Solver', n, 6)
    # the object graph below the components must not contain singletons either (one level of fields)
    deep = pta.reach_objs(own)
    sing = [o for o in deep if o.is_singleton_scope and o.kind in MUTABLE_KINDS]
    # singletons reachable through the shared inputs are the caller's business
    inputs = set()
    for p in shared_inputs:
        inputs |= set(pta.local(init, p))
    add = solver.lookup('AddListener')
    if add is not None:
        for p in add.param_names[1:]:
            inputs |= set(pta.local(add, p))       # listeners are supplied by the caller, too
    via_inputs = pta.reach_objs(inputs)
    sing = [o for o in sing if o not in via_inputs]
    ctx.check(not sing, rid, 'Solver object graph', init.loc(),
              'no process-wide singleton is reachable from the per-solver components (other than through the shared '
              'inputs)', f'a process-wide singleton is reachable from the solver state: '
                         f'{[s.describe() for s in sing[:2]]}', key=f'{rid}::graph::{sing[0].site if sing else ""}')
    r12_3_inputs_readonly(ctx)


def r12_3_inputs_readonly(ctx: Ctx):
    """The shared inputs (problem, parameters) are never written by the library."""
    rid = 'R12.3'
    roles = C.roles_of(ctx)
    pta = ctx.pta
    params_cls = ctx.ix.cls('SolverParameters')
    problem_cls = ctx.ix.cls('Problem')
    nm = 0
    for m in roles.mutations():
        if m.init_self or m.kind not in ('attr', 'aug', 'del'):
            continue
        mod = m.func.module.name
        if not mod.startswith(('iOpt.method', 'iOpt.solver', 'iOpt.output_system', 'iOpt.solution', 'iOpt.evolvent')):
            continue
        nm += 1
        for o in m.bases:
            if o.cls is None or o.kind not in ('inst', 'ext_inst'):
                continue
            if o.cls.is_subclass_of(params_cls):
                ctx.fail(rid, m.func.short, m.loc(), f'the shared SolverParameters object is written: {m.text()} '
                                                     f'(the default parameters object is shared by every Solver)',
                         key=ctx.key_for(rid, m.func, m.node))
            elif o.cls.is_subclass_of(problem_cls):
                ctx.fail(rid, m.func.short, m.loc(), f'the caller\'s Problem object is written by the library: '
                                                     f'{m.text()}', key=ctx.key_for(rid, m.func, m.node))
    ctx.ok(rid, 'library', f'{nm} attribute stores in the solver/output code: none writes the problem or the '
                           f'parameters', 'iOpt/')
    r12_3_bounds_copied(ctx)


def r12_3_bounds_copied(ctx: Ctx):
    rid = 'R12.3'
    pta = ctx.pta
    # bounds arrays of the problem are copied by the evolvent
    ev = ctx.ix.cls('Evolvent')
    eo = [o for o in pta._objs.values() if o.cls is ev and o.kind in ('inst', 'ext_inst')]
    from . import evo
    e_ = evo.evo_of(ctx)
    for fld in ('lowerBoundOfFloatVariables', 'upperBoundOfFloatVariables'):
        objs = set()
        for o in eo:
            objs |= pta.read_field(o, e_.backing_field(fld))
        data = [o for o in objs if o.kind in DATA_KINDS]
        bad = [o for o in data if not (o.scope == 'func' and o.kind == 'ndarray')]
        ctx.check(bool(data) and not bad, rid, f'Evolvent.{fld}', ev.lookup('__init__').loc(),
                  'the evolvent keeps its own copy of the bounds',
                  f'the evolvent keeps the caller\'s bounds object itself: {[b.describe() for b in bad[:2]]}',
                  key=f'{rid}::Evolvent.{fld}')


def r12_4(ctx: Ctx):
    rid = 'R12.4'
    ctx.rule(rid, 'Solve returns the solver\'s own Solution, whose result list is per instance')
    pta = ctx.pta
    roles = C.roles_of(ctx)
    f = roles.api('Solve')
    sol = ctx.ix.cls('Solution')
    objs = [o for o in pta.ret(f) if o.kind in DATA_KINDS]
    ctx.floor(rid, 'objects returned by Solver.Solve', len(objs), 1)
    bad = [o for o in objs if not (o.cls is not None and o.cls.is_subclass_of(sol) and o.scope == 'func'
                                   and o.kind == 'inst')]
    ctx.check(not bad, rid, 'Solver.Solve', f.loc(), 'Solve returns a Solution allocated for this solver',
              f'Solve can return an object that is not this solver\'s own Solution: {[b.describe() for b in bad[:2]]}',
              key=f'{rid}::Solve-returns')
    for o in objs:
        lists = pta.read_field(o, 'bestTrials')
        badl = [l for l in lists if l.is_singleton_scope]
        ctx.check(not badl, rid, 'Solution.bestTrials', sol.lookup('__init__').loc(),
                  'the result list of the returned Solution is per instance',
                  f'the result list of the returned Solution is a process-wide singleton: '
                  f'{[b.describe() for b in badl[:1]]}', key=f'{rid}::bestTrials-singleton')


# library functions that change state of the interpreter / of numpy / of the warnings machinery for the whole process
PROCESS_STATE_SETTERS = {
    'numpy.seterr', 'numpy.seterrcall', 'numpy.set_printoptions', 'numpy.setbufsize', 'numpy.random.seed',
    'numpy.random.set_state', 'random.seed', 'random.setstate', 'warnings.simplefilter', 'warnings.filterwarnings',
    'warnings.resetwarnings', 'sys.setrecursionlimit', 'sys.setswitchinterval', 'locale.setlocale', 'os.chdir',
    'os.putenv', 'os.umask', 'decimal.setcontext', 'signal.signal', 'logging.disable', 'gc.disable', 'gc.enable',
    'gc.set_threshold', 'sys.settrace', 'sys.setprofile', 'threading.settrace', 'faulthandler.enable',
}


PROCESS_STATE_GETTERS = {'numpy.geterr', 'numpy.geterrcall', 'numpy.get_printoptions', 'random.getstate',
                         'numpy.random.get_state', 'sys.getrecursionlimit', 'locale.getlocale', 'os.getcwd',
                         'decimal.getcontext', 'sys.getswitchinterval', 'gc.get_threshold'}


def r12_5(ctx: Ctx, rid: str = 'R12.5', only_modules=None):
    """Process-wide state outside Python objects: the floating-point error mode of numpy, the warnings filters, the
    seeds of the global generators...  A solver that changes one of them changes the arithmetic every other solver
    in the process sees.  The only accepted use is a change that is undone on *every* exit of the function that
    made it - normal return, early return and exception alike (try/finally, or a context manager instead)."""
    ctx.rule(rid, 'pairing: a library routine that changes process-wide interpreter / numpy / warnings state restores '
                  'the saved state on every exit (returns and exceptions); expected number of such routines: 0')
    pta = ctx.pta
    sites = {}
    n_calls = 0
    for f in ctx.ix.funcs.values():
        if not f.module.name.startswith('iOpt.') or \
                (only_modules is not None and not f.module.name.startswith(tuple(only_modules))):
            continue
        for nd in ast.walk(f.node):
            if isinstance(nd, ast.Call):
                n_calls += 1
                if pta.ext_callees(f, nd) & PROCESS_STATE_SETTERS:
                    sites.setdefault(f, []).append(nd)
    ctx.analysed['R12.5_call_sites_scanned'] = n_calls
    for f, nodes in sorted(sites.items(), key=lambda kv: kv[0].qualname):
        if f.kind != 'function':
            ctx.fail(rid, f.short, f.loc(nodes[0]),
                     f'{ast.unparse(nodes[0])[:60]} at import time changes process-wide state for every user of the '
                     f'process', key=ctx.key_for(rid, f, nodes[0]))
            continue
        ex = ctx.explorer(raw=True, inline=lambda g, st: False, unroll=1, max_paths=20000,
                          may_raise=lambda ev: not (set(c for c in ev.d['callees'] if isinstance(c, str))
                                                    & PROCESS_STATE_SETTERS))
        bad = None
        for p in ex.explore(f):
            saved = []          # results of setter calls on this path
            dirty = None
            for e in p.events:
                if e.kind == 'call' and dirty is None and e.d.get('result') is not None and \
                        (set(c for c in e.d['callees'] if isinstance(c, str)) & PROCESS_STATE_GETTERS):
                    saved.append(e.d['result'])      # the state read while it is still the caller's
                    continue
                if e.kind != 'call' or not (set(c for c in e.d['callees'] if isinstance(c, str))
                                            & PROCESS_STATE_SETTERS):
                    continue
                vals = list(e.d['args']) + list((e.d.get('kwargs') or {}).values())
                restoring = any(C.mentions(v, key_of(s_)) or key_of(v) == key_of(s_) for v in vals for s_ in saved)
                if restoring:
                    dirty = None
                else:
                    dirty = e
                    if e.d.get('result') is not None:
                        saved.append(e.d['result'])
            if dirty is not None:
                bad = (p, dirty)
                break
        ctx.check(bad is None, rid, f.short, f.loc(nodes[0]),
                  'the change of process-wide state is undone on every exit',
                  f'{f.short} changes process-wide state ({ast.unparse(nodes[0])[:50]}) and leaves through a path that '
                  f'does not restore it ({"an exception" if bad and bad[0].outcome == "raise" else "a return"} after '
                  f'{bad[1].loc() if bad else ""}): from then on every other solver in the process computes under the '
                  f'changed setting', key=ctx.key_for(rid, f, nodes[0]))
    if not sites:
        ctx.ok(rid, 'iOpt/*', f'{n_calls} call sites scanned: none changes process-wide interpreter/numpy/warnings state',
               'iOpt/')
    ctx.floor(rid, 'call sites scanned for process-wide state setters', n_calls, 1000 if only_modules is None else 100)


def r12_6(ctx: Ctx):
    """A listener object shared by two solvers: per-run state of the listener used as an index bound for the other
    solver's data (iva/rules/c13.py: rule_index_bound_provenance)."""
    from . import c13
    c13.rule_index_bound_provenance(ctx, 'R12.6')


def check(ctx: Ctx):
    for rid, fn in (('R12.1', r12_1), ('R12.2', r12_2), ('R12.3', r12_3), ('R12.4', r12_4), ('R12.5', r12_5)):
        if C.want(ctx, rid):
            fn(ctx)
    if C.want(ctx, 'R12.6'):
        r12_6(ctx)
    st = ctx.pta.stats()
    ctx.analysed['mutation_sites_distinct'] = len(C.roles_of(ctx).mutations())
    ctx.assume('external libraries do not retain and later mutate objects passed to them (matplotlib, sklearn, scipy)')
    ctx.assume('dynamic features (exec/eval/setattr with computed names) are absent: ' +
               ('none found' if not ctx.pta.dynamic else '; '.join(ctx.pta.dynamic)))
    if ctx.pta.dynamic:
        for d in ctx.pta.dynamic:
            ctx.fail('R12.2', 'dynamic code', d.split(':')[0], f'dynamic construct defeats the analysis: {d}',
                     key=f'R12.2::dynamic::{d}')
