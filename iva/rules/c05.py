"""C05 - all evaluations and the result stay inside the box; refinement never worsens (DESIGN.md section 3, C05)."""
from __future__ import annotations

import ast

from ..algebra import NONE, RF, Lit
from ..extfacts import neldermead_honours_bounds
from ..index import AnalysisError, FuncInfo
from ..paths import TupleVal, atomv, key_of
from ..report import Ctx
from ..roles import RoleMissing
from . import common as C
from . import evo
from .common import attr, sub, var

LEVEL_TEXT = ('Static decision of the structural necessary conditions: every point evaluated by the global search '
              'is an evolvent image that nobody writes before the evaluation; the evolvent image lies in the cube by '
              'an inductive bound template (step halves before each accumulation, orientation entries confined to '
              '{-1,0,1}) and is mapped by the exact affine cube->box map of the problem\'s own bounds; the local '
              'optimiser is called with bounds built from the problem\'s bounds and a method that clips to them; '
              'start point, objective and stored value of the refinement are wired to the same problem and trial; no '
              'input of the optimiser call reads state left behind by an earlier refinement and a start-overriding '
              'option is computed from x0; the probe returns the value of the holder the objective returned; only an optimiser that starts from the '
              'best trial and returns its best evaluated point is adopted.')
EXPLANATION = ('Provenance of evaluated points is read off path summaries; the cube bound is an inductive invariant '
               'checked on the syntax of the level loop plus a closure (type-like) check of every store into the '
               'orientation arrays; the affine map is compared algebraically; the optimiser call is checked on its '
               'keyword binding, and scipy\'s Nelder-Mead is confirmed (from its installed source) to take bounds '
               'and clip. "Never worse" rests on Nelder-Mead returning its best vertex, the start point being one '
               '(trusted).')
TRUSTED = ['CPython ast', 'iva engine', 'scipy.optimize Nelder-Mead clips to bounds and returns its best vertex '
                                        '(bounds/clipping read from the installed source)']

BOUNDED_METHODS = {'Nelder-Mead', 'L-BFGS-B', 'TNC', 'SLSQP', 'Powell', 'trust-constr'}


def r05_1(ctx: Ctx):
    rid = 'R05.1'
    ctx.rule(rid, 'provenance: the item handed to the evaluation routine is the item built by the selection (or '
                  'seeding) routine from Evolvent.GetImage, and nothing writes its point in between')
    roles = C.roles_of(ctx)
    try:
        drv, er, sel = roles.iter_driver, roles.eval_routine, roles.selection
    except RoleMissing as e:
        ctx.fail(rid, f'role {e.role}', 'iOpt/', str(e), key=f'{rid}::role::{e.role}')
        return
    ex = ctx.explorer()
    n = 0
    for p in C.normal_paths(ex.explore(drv)):
        for e in C.call_events(p, callee=er):
            n += 1
            item = e.d['args'][0] if e.d['args'] else None
            sc = [s for s in C.call_events(p, callee=sel) if p.events.index(s) < p.events.index(e)]
            ok = bool(sc) and item is not None and \
                key_of(item) == key_of(atomv(('sub', key_of(sc[-1].d['result']), RF.const(0).key(), 0)))
            ctx.check(ok, rid, drv.short, drv.loc(e.node), 'the evaluated item is the new item of the selection routine',
                      f'the item evaluated ({C.fmt(item)}) is not the new item returned by the selection routine',
                      key=f'{rid}::{drv.short}::provenance')
            if not ok:
                continue
            between = p.events[p.events.index(sc[-1]) + 1:p.events.index(e)]
            bad = []
            for b in between:
                if b.kind == 'store' and b.d['tkind'] in ('attr', 'sub') and \
                        (b.d['field'] in ('point', 'floatVariables') or
                         (b.d['base'] is not None and C.mentions(b.d['base'], key_of(item)) and b.d['tkind'] == 'sub')):
                    bad.append(b)
                if b.kind == 'call' and not b.d.get('inlined'):
                    for c in b.d['callees']:
                        if isinstance(c, FuncInfo) and ({'point', 'floatVariables'} & ex.writes_of(c)):
                            bad.append(b)
            ctx.check(not bad, rid, drv.short, drv.loc(e.node), 'the point is not written between construction and '
                                                                'evaluation',
                      f'the point of the new item can be rewritten before it is evaluated: '
                      f'{[repr(b)[:60] for b in bad[:2]]}', key=f'{rid}::{drv.short}::written-before-eval')
    ctx.floor(rid, 'regular evaluations on paths of the iteration driver', n, 1)
    # construction of the items themselves: R02.1 (seed) and R02.8 (new item)
    from . import c02
    c02.r02_1(ctx, coordinate_fixed=False)
    c02.r02_8_selection(ctx)
    # the evaluation routine does not touch the point before calling the objective
    tw = roles.task_wrapper
    ex2 = ctx.explorer(inline=lambda f, st: roles.in_tw(f))
    pcs = roles.problem_calcs
    for p in C.normal_paths(ex2.explore(er)):
        calls = C.call_events(p, among=pcs)
        if not calls:
            continue
        pre = p.events[:p.events.index(calls[0])]
        bad = [b for b in pre if b.kind == 'store' and b.d['tkind'] in ('attr', 'sub') and
               (b.d['field'] in ('point', 'floatVariables'))]
        ctx.check(not bad, rid, er.short, er.loc(), 'the evaluation routine does not rewrite the point',
                  'the evaluation routine rewrites the point before calling the objective',
                  key=f'{rid}::{er.short}::rewrites-point')


def r05_4_5(ctx: Ctx):
    rid = 'R05.4'
    ctx.rule(rid, 'bounded refinement: every call of an external optimiser passes bounds= built as '
                  'Bounds(problem.lower, problem.upper), with a method that honours bounds')
    ctx.rule('R05.5', 'refinement wiring: x0 is the best trial\'s point; the callable evaluates the same problem on '
                      'a fresh point/holder and returns its .value')
    roles = C.roles_of(ctx)
    try:
        rf = roles.refine_driver
    except RoleMissing as e:
        ctx.fail(rid, f'role {e.role}', 'iOpt/', str(e), key=f'{rid}::role::{e.role}')
        return
    ok_lib, how = neldermead_honours_bounds()
    ctx.check(ok_lib, rid, 'scipy.optimize Nelder-Mead', 'site-packages/scipy/optimize/_optimize.py',
              f'installed Nelder-Mead takes bounds and clips ({how})',
              f'the installed scipy Nelder-Mead does not honour bounds: {how}', key=f'{rid}::scipy-neldermead')
    ex = ctx.explorer()
    selfv = var(rf.param_names[0])
    prob = attr(attr(selfv, 'task'), 'problem')
    n = 0
    # every external optimiser call in the library
    opt_sites = []
    for (caller, nid), names in ctx.pta.ext_calls.items():
        if any(d.startswith('scipy.optimize.') and d.split('.')[-1] in
               ('minimize', 'minimize_scalar', 'differential_evolution', 'basinhopping', 'dual_annealing', 'shgo',
                'brute', 'fmin', 'fmin_powell', 'fmin_bfgs', 'fmin_cg', 'least_squares') for d in names):
            opt_sites.append((caller, nid))
    ctx.rule('R05.7', 'never worse: the refinement adopts the result of an optimiser only if that optimiser starts from '
                      'the best trial and returns its best evaluated point (scipy.optimize.minimize with a simplex / '
                      'descent method, wired by R05.5); optimisers that never evaluate the start point '
                      '(minimize_scalar, global methods) carry no such guarantee')
    for caller, nid in opt_sites:
        f = ctx.ix.funcs.get(caller)
        names = ctx.pta.ext_calls.get((caller, nid), set())
        if f is not None and (f is rf or roles.lift(f) is rf) and \
                not any(d == 'scipy.optimize.minimize' for d in names):
            node = ctx.pta.call_nodes.get((caller, nid))
            ctx.fail('R05.7', f.short, f.loc(node) if node is not None else f.loc(),
                     f'the refinement adopts the result of {sorted(names)[0]}, which does not evaluate the best '
                     f'global-phase trial and need not return a point at least as good: the refined value can be worse '
                     f'than the best trial of the global phase', key=f'R05.7::{f.short}::{sorted(names)[0]}')
    for caller, nid in opt_sites:
        f = ctx.ix.funcs.get(caller)
        if f is not rf and not (f is not None and roles.lift(f) is rf):
            ctx.fail(rid, f.short if f else caller, f.loc(ctx.pta.call_nodes[(caller, nid)]) if f else '',
                     'an external optimiser is called outside the local refinement routine: its evaluations are not '
                     'checked against the box', key=f'{rid}::{caller}::other-optimiser')
    for p in C.normal_paths(ex.explore(rf)):
        for e in p.events:
            if e.kind == 'call' and e.d['name'] in ('minimize',) and \
                    any(isinstance(c, str) and c.startswith('scipy.optimize.') for c in e.d['callees']):
                n += 1
                kw = e.d['kwargs']
                args = e.d['args']
                loc = rf.loc(e.node)
                b = kw.get('bounds')
                okb = False
                why = 'no bounds= argument: the optimiser evaluates and returns points outside the box'
                if b is not None:
                    be = C.call_event_of_result(p, b)
                    if be is not None and be.d['name'] == 'Bounds':
                        ba = list(be.d['args'])
                        lb = ba[0] if ba else be.d['kwargs'].get('lb')
                        ub = ba[1] if len(ba) > 1 else be.d['kwargs'].get('ub')
                        # unconverted copies of the problem's arrays bound the same box
                        lb, ub = C.through_value_copies(p, lb), C.through_value_copies(p, ub)
                        okl = lb is not None and C.same_mod_ver(lb, attr(prob, 'lowerBoundOfFloatVariables'))
                        oku = ub is not None and C.same_mod_ver(ub, attr(prob, 'upperBoundOfFloatVariables'))
                        okb = okl and oku
                        why = f'bounds are Bounds({C.fmt(lb)}, {C.fmt(ub)}), not Bounds(problem.lower, problem.upper)'
                    else:
                        why = f'bounds= is {C.fmt(b)}, not a Bounds(problem.lower, problem.upper) object'
                ctx.check(okb, rid, rf.short, loc, 'minimize(..., bounds=Bounds(problem.lower, problem.upper))',
                          f'the local optimiser is not confined to the box: {why}', key=f'{rid}::{rf.short}::bounds')
                m = kw.get('method', args[2] if len(args) > 2 else None)
                ma = m.single_atom() if isinstance(m, RF) else None
                mname = ma[1] if isinstance(ma, tuple) and ma[0] == 'str' else None
                ctx.check(mname in BOUNDED_METHODS, rid, rf.short, loc, f'method {mname} honours bounds',
                          f'optimiser method {mname!r} is not known to honour bounds', key=f'{rid}::{rf.short}::method')
                # R05.5: x0 and the callable
                x0 = C.through_value_copies(p, kw.get('x0', args[1] if len(args) > 1 else None))
                res = None
                for pp in C.normal_paths(ex.explore(roles.results_getter)):
                    res = pp.value
                expx0 = None
                if res is not None:
                    r2 = C.subst_val(res, {key_of(var(roles.results_getter.param_names[0])): key_of(selfv)})
                    expx0 = attr(attr(sub(attr(r2, 'bestTrials'), RF.const(0)), 'point'), 'floatVariables')
                cands = [expx0] if expx0 is not None else []
                for ge in C.call_events(p, callee=roles.results_getter):
                    if not ge.d.get('inlined') and ge.d.get('result') is not None:
                        cands.append(attr(attr(sub(attr(ge.d['result'], 'bestTrials'), RF.const(0)), 'point'),
                                          'floatVariables'))
                okx = x0 is not None and any(C.same_mod_ver(x0, c_) for c_ in cands)
                ctx.check(okx, 'R05.5', rf.short, loc, 'x0 is the point of the best global-phase trial',
                          f'the refinement starts from {C.fmt(x0)}, not from the best trial\'s point (the result can '
                          f'then be worse than the global-phase best)', key=f'R05.5::{rf.short}::x0')
                fun = kw.get('fun', args[0] if args else None)
                cbs = [c for c in e.d['callees'] if isinstance(c, FuncInfo)]
                okf = len(cbs) == 1
                ctx.check(okf, 'R05.5', rf.short, loc, 'the objective handed to the optimiser is one library routine',
                          'the callable handed to the optimiser is not a single resolvable library routine',
                          key=f'R05.5::{rf.short}::callable')
                if okf:
                    check_callable(ctx, cbs[0])
                check_start_only_from_best(ctx, rf, p, e, x0, selfv)
    ctx.floor(rid, 'optimiser call sites in the local refinement', n, 1)


START_OVERRIDES = {'initial_simplex': 'Nelder-Mead ignores x0 when options[\'initial_simplex\'] is given'}


def _display_keys(rf: FuncInfo, disp_key):
    """Constant keys of the dict display a ('display', lineno, values) atom was built from."""
    if not (isinstance(disp_key, tuple) and disp_key and disp_key[0] == 'display'):
        return None
    out = {}
    for nd in ast.walk(rf.node):
        if isinstance(nd, ast.Dict) and nd.lineno == disp_key[1] and len(nd.values) == len(disp_key[2]):
            for k, v in zip(nd.keys, disp_key[2]):
                if isinstance(k, ast.Constant) and isinstance(k.value, str):
                    out[k.value] = v
            return out
    return None


def check_start_only_from_best(ctx: Ctx, rf: FuncInfo, p, call_ev, x0, selfv):
    """R05.6: what the optimiser starts from is a function of the *current* best trial and of the configuration
    only.  (a) No input of the optimiser call reads routine-owned instance state as it was on entry (state carried
    over from an earlier refinement: a saved simplex, a cached start point).  (b) An option that overrides the start
    must be computed from x0 in the same call."""
    rid = 'R05.6'
    ctx.rule(rid, 'the refinement starts from the current best trial only: no input of the optimiser call reads '
                  'instance state left behind by an earlier refinement, and a start-overriding option '
                  '(initial_simplex) is computed from x0 in the same call')
    ci = p.events.index(call_ev)
    before = p.events[:ci]
    # attributes of self that the refinement routine itself writes (on any path): its carried state
    own_written = set()
    ex = ctx.explorer()
    for q in C.normal_paths(ex.explore(rf)):
        for s in q.stores():
            if s.d['tkind'] == 'attr' and s.d['base'] is not None and key_of(s.d['base']) == key_of(selfv):
                own_written.add(s.d['field'])
    inputs = []       # (label, value)
    for i, a in enumerate(call_ev.d['args']):
        inputs.append((f'argument {i}', a))
    for k, v in call_ev.d['kwargs'].items():
        inputs.append((f'{k}=', v))
    containers = {key_of(v): lbl for lbl, v in inputs if isinstance(key_of(v), tuple) and key_of(v)[:1] == ('display',)}
    overrides = []    # (option name, value)
    for lbl, v in list(inputs):
        dk = _display_keys(rf, key_of(v))
        for k2, v2 in (dk or {}).items():
            if k2 in START_OVERRIDES:
                overrides.append((k2, v2))
    for s in before:
        if s.kind == 'store' and s.d['tkind'] == 'sub' and s.d['base'] is not None and key_of(s.d['base']) in containers:
            inputs.append((f'{containers[key_of(s.d["base"])]}[{s.d["field"]!r}]', s.d['value']))
            fk = s.d['field']
            fa = fk.single_atom() if isinstance(fk, RF) else fk
            name = fa[1] if isinstance(fa, tuple) and fa[:1] == ('str',) else fa
            if name in START_OVERRIDES:
                overrides.append((name, s.d['value']))
    carried = []
    for lbl, v in inputs:
        for a in C.atoms_deep(v):
            if a[0] == 'attr' and len(a) == 4 and a[1] == key_of(selfv) and a[3] == 0 and a[2] in own_written:
                carried.append((lbl, a[2]))
    ctx.check(not carried, rid, rf.short, rf.loc(call_ev.node),
              'no input of the optimiser call reads state carried over from an earlier refinement',
              f'the optimiser call depends on instance state the refinement routine itself left behind in an earlier '
              f'call ({sorted(set(carried))[:3]}): after the global search has moved the best trial the refinement '
              f'no longer starts from it and its result can be worse than the best global-phase trial',
              key=f'{rid}::{rf.short}::carried-state::{sorted(set(c[1] for c in carried))[0] if carried else ""}')
    for name, v in overrides:
        x0_atoms = C.atoms_deep(x0) if x0 is not None else set()
        derived = x0 is not None and (C.mentions(v, C.strip_versions(key_of(x0))) or C.mentions(v, key_of(x0)) or
                                      any(C.strip_versions(a) == C.strip_versions(key_of(x0)) for a in C.atoms_deep(v)))
        ctx.check(derived, rid, rf.short, rf.loc(call_ev.node),
                  f'option {name} is computed from x0',
                  f'option {name!r} overrides the start of the local search ({START_OVERRIDES[name]}) and is not '
                  f'computed from the best trial\'s point: the refinement can return a value worse than the best '
                  f'global-phase trial', key=f'{rid}::{rf.short}::start-override::{name}')


def check_callable(ctx: Ctx, fn: FuncInfo):
    rid = 'R05.5'
    roles = C.roles_of(ctx)
    pcs = roles.problem_calcs
    ex = ctx.explorer()
    selfv = var(fn.param_names[0])
    y = var(fn.param_names[1])
    prob = attr(attr(selfv, 'task'), 'problem')
    n = 0
    for p in C.normal_paths(ex.explore(fn)):
        calls = C.call_events(p, among=pcs)
        n += 1
        if not ctx.check(len(calls) == 1, rid, fn.short, fn.loc(), 'exactly one objective evaluation per call',
                         f'the optimiser callable evaluates the objective {len(calls)} times per call',
                         key=f'{rid}::{fn.short}::one-eval'):
            continue
        c = calls[0]
        ok_prob = c.d.get('recv') is not None and C.same_mod_ver(c.d['recv'], prob)
        ctx.check(ok_prob, rid, fn.short, fn.loc(c.node), 'the callable evaluates the solver\'s own problem',
                  f'the callable evaluates {C.fmt(c.d.get("recv"))}.Calculate, not the solver\'s problem',
                  key=f'{rid}::{fn.short}::same-problem')
        a = c.d['args']
        a0 = C.arg(c, 0, 'point')
        a1 = C.arg(c, 1, 'functionValue')
        a = [x for x in (a0, a1) if x is not None]
        pt = C.new_event_of(p, a0) if a0 is not None else None
        pc = C.arg(pt, 0, 'floatVariables') if pt is not None else None
        ok_pt = pt is not None and pt.d['cls'].name == 'Point' and pc is not None and key_of(pc) == key_of(y)
        ctx.check(ok_pt, rid, fn.short, fn.loc(c.node), 'the objective is evaluated at the optimiser\'s own argument',
                  'the callable does not evaluate the objective at the point the optimiser passed in',
                  key=f'{rid}::{fn.short}::at-argument')
        hd = C.new_event_of(p, a[1]) if len(a) > 1 else None
        ctx.check(hd is not None and hd.d['cls'].name == 'FunctionValue', rid, fn.short, fn.loc(c.node),
                  'a fresh holder is used for every probe', 'the callable reuses a holder that belongs to a trial',
                  key=f'{rid}::{fn.short}::fresh-holder')
        ret = p.value
        ra = ret.single_atom() if isinstance(ret, RF) else None
        # the value is read from the holder the objective *returned* (the library's convention in the global phase,
        # R04.4): a problem may return another holder than the one it was handed
        ok_ret = isinstance(ra, tuple) and ra[0] == 'attr' and ra[2] == 'value' and ra[1] == key_of(c.d['result'])
        dropped = isinstance(ra, tuple) and ra[0] == 'attr' and ra[2] == 'value' and len(a) > 1 and \
            ra[1] == key_of(a[1]) and not ok_ret
        ctx.check(ok_ret, rid, fn.short, fn.loc(), 'the callable returns the .value of the holder the objective '
                                                   'returned',
                  (f'the callable discards the holder returned by the objective and reads the one it passed in '
                   f'({C.fmt(ret)}): for a problem that returns a new holder the optimiser sees a constant and the '
                   f'refined value is not the objective at the refined point') if dropped else
                  f'the callable returns {C.fmt(ret)}, not the value the objective stored',
                  key=f'{rid}::{fn.short}::returns-value')
    ctx.floor(rid, 'paths of the optimiser callable', n, 1)


def check(ctx: Ctx):
    if C.want(ctx, 'R05.1'):
        r05_1(ctx)
    if C.want(ctx, 'R05.2'):
        ctx.rule('R05.2', 'cube bound: inductive template |y_i| + r <= 1/2 (r0 = 1/2, r *= c <= 1/2 before '
                          'y_i += r*u_i) and closure of the orientation entries in {-1, 0, 1}')
        evo.rule_cube_bound(ctx, 'R05.2')
    if C.want(ctx, 'R05.3'):
        ctx.rule('R05.3', 'affine map: cube -> box is y*(U-L) + (U+L)/2 per coordinate with the instance\'s bounds, '
                          'which the solver binds to the problem\'s lower/upper in this order')
        roles = C.roles_of(ctx)
        api = [roles.api(n) for n in ('Solve', 'DoGlobalIteration', 'DoLocalRefinement', 'GetResults')]
        scope = ctx.pta.reachable(api + [ctx.ix.func('Solver.__init__')])
        # attributes cached by the evolvent's constructor are acceptable here as long as nothing the Solver can
        # reach rewrites the bounds they were computed from (SetBounds is not reachable from the Solver)
        evo.rule_affine(ctx, 'R05.3', which=('P2D',), scope=scope)
        evo.rule_bounds_binding(ctx, 'R05.3')
    if C.want(ctx, 'R05.4') or C.want(ctx, 'R05.5'):
        r05_4_5(ctx)
    from . import c04
    if C.want(ctx, 'R05.5'):
        c04.r04_6(ctx)
    ctx.assume('scipy\'s Nelder-Mead returns its best vertex and its initial simplex contains x0')
    ctx.assume('floating-point rounding of the affine map is outside the rule (the property allows it)')
