"""C11 - determinism and independence from how iterations are batched (DESIGN.md section 3, C11)."""
from __future__ import annotations

import ast
from typing import Dict, List, Set

from ..algebra import FALSE, NONE, RF, TRUE, Lit
from ..index import AnalysisError, FuncInfo
from ..paths import TupleVal, atomv, key_of
from ..report import Ctx
from ..roles import RoleMissing
from . import common as C
from . import effects as E
from .common import attr, var

LEVEL_TEXT = ('Static decision of the structural necessary conditions: no nondeterminism source reaches the trial '
              'sequence (the only one on the search path, the wall clock, flows into solvingTime only); the body of '
              'the iteration loop carries no local state from one trip to the next, so k trips in one call equal k '
              'calls of one trip; DoGlobalIteration never consults the stop routine; the solve driver changes search '
              'state only through the iteration call; the stop routine writes nothing '
              'but its own flag, which nobody reads; the first-iteration flag has one writer; accuracy and counters '
              'are monotone and the parameters read-only, so a finished solver stays finished and - with the '
              'pre-tested loop - a second Solve performs no trial; nothing the library writes outlives a Solver in a process-wide object.')
EXPLANATION = ('Reachability of nondeterministic external calls over the call graph, a taint check of their results '
               'on the solve driver\'s paths, an upward-exposed-use analysis of the iteration loop body, typestate of '
               'the flag on path summaries, and effect sets of the stop routine; monotonicity rules are shared with '
               'C03 and C12 and re-run here.')
TRUSTED = ['CPython ast', 'iva engine', 'floating-point arithmetic is deterministic on one machine',
           'logging / print calls do not change program state; __repr__ of logged objects is pure']


def search_functions(ctx: Ctx) -> Set[str]:
    """Functions on the search path: reachable from the Solver API, not through listeners, not below the
    objective (C15 covers the shipped objectives)."""
    roles = C.roles_of(ctx)
    pcs = {roles.fq(p) for p in roles.problem_calcs}
    lst = roles.listener_methods()
    roots = [roles.api(n) for n in ('Solve', 'DoGlobalIteration', 'DoLocalRefinement', 'GetResults')]
    roots += [ctx.ix.func('Solver.__init__')]
    return ctx.pta.reachable(roots, stop=lambda q: q in pcs or q in lst) - pcs - lst


def r11_1(ctx: Ctx):
    rid = 'R11.1'
    ctx.rule(rid, 'nondeterminism sources reachable from the Solver API (outside listeners and objectives): only the '
                  'wall clock, whose value flows only into solvingTime')
    roles = C.roles_of(ctx)
    funcs = search_functions(ctx)
    ctx.floor(rid, 'functions on the search path', len(funcs), 40)
    sites = E.nondet_sites(ctx, funcs)
    sd = roles.solve_driver
    sd_helpers = set(roles.helpers_of(sd))
    clock = []
    def timing_utility(f) -> bool:
        # a small utility class of the driver's module used by the solve driver only (a stopwatch context manager):
        # every method of the class is called from the solve driver, its helpers or the class itself
        if f.cls is None or f.cls.module is not sd.module or f.cls is sd.cls:
            return False
        own = set(f.cls.methods.values())
        return all(c is sd or c in sd_helpers or c in own
                   for m_ in own for c in roles.callers_of(m_))
    CLOCKS = ('datetime.', 'time.perf_counter', 'time.time', 'time.monotonic', 'time.process_time')

    def sealed_timer(f) -> bool:
        # a stopwatch class: every value derived from its clock reads ends in attributes that no routine of the search
        # path outside the class reads, and no caller uses what its methods return
        if f.cls is None or f.cls in (sd.cls,) or not f.cls.module.name.startswith('iOpt.'):
            return False
        # a utility class only: not one of the classes that carry the search itself
        core = {ctx.ix.find_cls(n_) for n_ in ('Method', 'Process', 'Solver', 'SearchData', 'SearchDataItem',
                                               'CharacteristicsQueue', 'Evolvent', 'OptimizationTask', 'Problem',
                                               'Solution', 'SolverParameters', 'Listener')}
        core.discard(None)
        if any(f.cls is c_ or f.cls.is_subclass_of(c_) for c_ in core):
            return False
        own = [m_ for m_ in f.cls.methods.values() if m_.kind == 'function']
        tainted_attrs, tainted_ret = set(), set()
        for _ in range(3):
            for m_ in own:
                loc = set()
                def tainted(e):
                    for x in ast.walk(e):
                        if isinstance(x, ast.Call):
                            if any(isinstance(c_, str) and c_.startswith(CLOCKS) for c_ in ctx.pta.ext_callees(m_, x)):
                                return True
                            if isinstance(x.func, ast.Attribute) and x.func.attr in tainted_ret:
                                return True
                        if isinstance(x, ast.Name) and x.id in loc:
                            return True
                        if isinstance(x, ast.Attribute) and isinstance(x.ctx, ast.Load) and x.attr in tainted_attrs:
                            return True
                    return False
                for _i in range(3):
                    for st in ast.walk(m_.node):
                        if isinstance(st, (ast.Assign, ast.AugAssign)) and tainted(st.value):
                            for t in (st.targets if isinstance(st, ast.Assign) else [st.target]):
                                if isinstance(t, ast.Name):
                                    loc.add(t.id)
                                elif isinstance(t, ast.Attribute):
                                    tainted_attrs.add(t.attr)
                        if isinstance(st, ast.Return) and st.value is not None and tainted(st.value):
                            tainted_ret.add(m_.name)
        if '__exit__' in tainted_ret or '__enter__' in tainted_ret:
            return False            # the with statement itself consumes these results
        for g in funcs:
            gf = ctx.ix.funcs.get(g) if isinstance(g, str) else g
            if gf is None or gf.cls is f.cls or gf.kind != 'function':
                continue
            for x in ast.walk(gf.node):
                if isinstance(x, ast.Attribute) and isinstance(x.ctx, ast.Load) and x.attr in tainted_attrs and \
                        not isinstance(getattr(x, '_parent_aug', None), ast.AugAssign):
                    return False
                if isinstance(x, ast.Call) and isinstance(x.func, ast.Attribute) and x.func.attr in tainted_ret and \
                        any(m_ in ctx.pta.internal_callees(gf, x) for m_ in own):
                    # the result must be discarded: the call is an expression statement
                    if not any(isinstance(st, ast.Expr) and st.value is x for st in ast.walk(gf.node)):
                        return False
        return True
    for f, node, d in sites:
        if d.startswith('datetime.') and (f is sd or f in sd_helpers or timing_utility(f)):
            clock.append((f, node, d))
            continue
        if d.startswith(CLOCKS) and sealed_timer(f):
            ctx.ok(rid, f.short, f'{d}: the value stays inside the stopwatch class {f.cls.name} (attributes nobody on the '
                                 f'search path reads)', f.loc(node))
            continue
        ctx.fail(rid, f.short, f.loc(node), f'{d} is used on the search path: the trial sequence is not a function of '
                                            f'the problem and r alone', key=f'{rid}::{f.module.relpath}::{f.short}::{d}')
    if not clock:
        # the timing may sit in a small helper object of the driver's module (a stopwatch context manager)
        near = [q for q in roles.reach(sd) if q in ctx.ix.funcs and ctx.ix.funcs[q].module is sd.module]
        clock = [x for x in E.nondet_sites(ctx, near) if x[2].startswith('datetime.')]
    ctx.floor(rid, 'wall-clock reads in the solve driver (positive control)', len(clock), 1)
    # taint: the clock values reach only solvingTime
    ex = ctx.explorer(unroll=1)
    n = 0
    for p in ex.explore(sd):
        tainted_atoms = set()
        for e in p.events:
            if e.kind == 'call' and e.d['name'] in ('now', 'today', 'utcnow') and \
                    any(isinstance(c, str) and c.startswith('datetime.') for c in e.d['callees']):
                tainted_atoms.add(key_of(e.d['result']))
        if not tainted_atoms:
            continue
        n += 1

        def is_t(v) -> bool:
            return v is not None and any(C.mentions(v, a) for a in tainted_atoms)
        for e in p.events:
            if e.kind == 'store':
                if is_t(e.d['value']):
                    if e.d['tkind'] == 'name':
                        continue
                    ok = e.d['tkind'] == 'attr' and e.d['field'] == 'solvingTime'
                    ctx.check(ok, rid, sd.short, sd.loc(e.node), 'the clock value is stored in solvingTime only',
                              f'a wall-clock value is stored into {e.d["tdesc"]}: it can influence the search',
                              key=f'{rid}::{sd.short}::clock-store::{e.d["field"]}')
            elif e.kind == 'call':
                if e.d.get('inlined'):
                    continue          # looked through: what the callee does with the value is examined on its events
                vals = list(e.d['args']) + list(e.d['kwargs'].values())
                if any(is_t(v) for v in vals) or is_t(e.d.get('recv')):
                    if isinstance(e.node, ast.Call) and C.is_diagnostic_call(ctx, e.func, e.node):
                        continue          # logged / printed: leaves the program state
                    if e.d.get('ext') and e.d['name'] in ('total_seconds', 'print', 'format', 'str'):
                        # result derived from the clock stays tainted
                        if e.d.get('result') is not None:
                            tainted_atoms.add(key_of(e.d['result']))
                        continue
                    ctx.fail(rid, sd.short, sd.loc(e.node), f'a wall-clock value is passed to {e.d["name"]}()',
                             key=f'{rid}::{sd.short}::clock-arg::{e.d["name"]}')
            elif e.kind == 'guard':
                l = e.d['lit']
                v = l.rf if l.kind == 'cmp' else atomv(l.key) if isinstance(l.key, tuple) else None
                if v is not None and is_t(v):
                    ctx.fail(rid, sd.short, sd.loc(e.node), 'a branch depends on the wall clock',
                             key=f'{rid}::{sd.short}::clock-branch')
    if n == 0 and any(f is not sd and f not in sd_helpers for f, _, _ in clock):
        who = sorted({f.short for f, _, _ in clock})
        raise AnalysisError(f'{rid}: the wall clock is read inside {who} (a timing helper object of the solve driver), '
                            f'not on the paths of {sd.short} itself; where its value flows is not decided for this form')
    ctx.floor(rid, 'paths of the solve driver reading the clock', n, 1)


def r11_2(ctx: Ctx):
    rid = 'R11.2'
    ctx.rule(rid, 'the iteration loop body carries no local from one trip to the next (except the append-only '
                  'notification list); the batch size feeds only the loop bound; the driver never calls the stop '
                  'routine')
    roles = C.roles_of(ctx)
    try:
        drv, sr = roles.iter_driver, roles.stop_routine
    except RoleMissing as e:
        ctx.fail(rid, f'role {e.role}', 'iOpt/', str(e), key=f'{rid}::role::{e.role}')
        return
    from .c13 import _loop_over_listeners
    C.refuse_peeled_loop(rid, drv)
    C.refuse_comprehension_loop(ctx, rid, drv)
    loops = [n for n in ast.walk(drv.node) if isinstance(n, ast.For) and not _loop_over_listeners(ctx, drv, n)]
    ctx.floor(rid, 'iteration loops in the driver', len(loops), 1)
    # names that only feed a diagnostic statement (logging call / print whose value is not used)
    diag = set()
    for st in ast.walk(drv.node):
        if isinstance(st, ast.Expr) and isinstance(st.value, ast.Call) and C.is_diagnostic_call(ctx, drv, st.value):
            for a in list(st.value.args) + [k.value for k in st.value.keywords]:
                if not any(isinstance(x, ast.Call) and ctx.pta.internal_callees(drv, x) for x in ast.walk(a)):
                    diag.update(id(x) for x in ast.walk(a))
    for lp in loops:
        # upward-exposed uses of names that the body also assigns = loop-carried locals
        assigned: Set[str] = set()
        for n in ast.walk(lp):
            if isinstance(n, ast.Name) and isinstance(n.ctx, ast.Store):
                assigned.add(n.id)
        carried = upward_exposed(lp.body) & assigned
        for t in ast.walk(lp.target):
            if isinstance(t, ast.Name):
                carried.discard(t.id)
        ctx.check(not carried, rid, drv.short, drv.loc(lp), 'no local variable is carried across trips',
                  f'local variable(s) {sorted(carried)} are read in a trip before being assigned in it: state is '
                  f'carried across iterations inside one call and lost between calls, so batching changes the result',
                  key=f'{rid}::{drv.short}::loop-carried::{",".join(sorted(carried))}')
        # the loop bound
        it = lp.iter
        # a local that merely names the batch size (iterations = number) is the batch size
        renames = {}
        for st in drv.node.body:
            if isinstance(st, ast.Assign) and len(st.targets) == 1 and isinstance(st.targets[0], ast.Name) and \
                    isinstance(st.value, ast.Name) and st.value.id in drv.param_names:
                others = [n_ for n_ in ast.walk(drv.node) if isinstance(n_, ast.Name) and n_.id == st.targets[0].id
                          and isinstance(n_.ctx, ast.Store)]
                if len(others) == 1:
                    renames[st.targets[0].id] = st.value.id
        if isinstance(it, ast.Call) and len(it.args) == 1 and isinstance(it.args[0], ast.Name) and \
                it.args[0].id in renames:
            import copy as _copy
            it = _copy.deepcopy(it)
            it.args[0] = ast.Name(id=renames[lp.iter.args[0].id], ctx=ast.Load())
        okb = isinstance(it, ast.Call) and isinstance(it.func, ast.Name) and it.func.id == 'range' and \
            len(it.args) == 1 and isinstance(it.args[0], ast.Name) and it.args[0].id in drv.param_names
        ctx.check(okb, rid, drv.short, drv.loc(lp), 'the loop performs exactly `number` trips',
                  f'the iteration loop iterates {ast.unparse(it)}, not exactly range(number)',
                  key=f'{rid}::{drv.short}::range-number')
        if okb:
            pn = it.args[0].id
            names = {pn} | {a_ for a_, src in renames.items() if src == pn}
            alias_rhs = {id(st.value) for st in drv.node.body if isinstance(st, ast.Assign) and len(st.targets) == 1
                         and isinstance(st.targets[0], ast.Name) and st.targets[0].id in renames}
            uses = [n for n in ast.walk(drv.node) if isinstance(n, ast.Name) and n.id in names and
                    isinstance(n.ctx, ast.Load) and n is not it.args[0] and n is not lp.iter.args[0]
                    and id(n) not in alias_rhs and id(n) not in diag]
            ctx.check(not uses, rid, drv.short, drv.loc(), 'the batch size is used only as the loop bound',
                      f'the batch size {pn} is also used at line(s) {sorted({u.lineno for u in uses})}: the work done '
                      f'per trip depends on how iterations are batched', key=f'{rid}::{drv.short}::number-used')
        # no early exit
        early = [x for b in lp.body for x in ast.walk(b) if isinstance(x, (ast.Break, ast.Return))]
        ctx.check(not early, rid, drv.short, drv.loc(lp), 'no trip is skipped (no break/return in the loop)',
                  'the iteration loop can end early (break/return): fewer than `number` iterations are performed',
                  key=f'{rid}::{drv.short}::early-exit')
    # nothing outside the loop touches the search state: work done once per *call* makes the result depend on
    # how the iterations are batched
    from .c13 import solver_state
    state = solver_state(ctx)
    lst = roles.listener_methods()
    def walk_outside(node):
        # everything of the driver that is not inside an iteration loop or a notification loop (whatever try/with
        # blocks wrap the loops)
        for ch in ast.iter_child_nodes(node):
            if any(ch is lp_ for lp_ in loops) or (isinstance(ch, ast.For) and _loop_over_listeners(ctx, drv, ch)):
                continue
            yield ch
            yield from walk_outside(ch)
    n_out = 0
    for _once in (0,):
        for n in walk_outside(drv.node):
            if isinstance(n, ast.Call):
                for c in ctx.pta.internal_callees(drv, n):
                    if roles.fq(c) in lst:
                        continue
                    n_out += 1
                    r_ = ctx.pta.reachable([c], stop=lambda q: q in lst)
                    hits = []
                    for m in E.mutations_in(ctx, r_):
                        if m.init_self:
                            continue
                        if any(o in state for o in m.bases):
                            hits.append(m)
                    ctx.check(not hits, rid, drv.short, drv.loc(n),
                              f'{c.short}() called once per call does not change the search state',
                              f'{c.short}() is called once per DoGlobalIteration call (outside the iteration loop) '
                              f'and changes the search state ({hits[0].text()[:60] if hits else ""} in '
                              f'{hits[0].func.short if hits else ""}): k iterations in one call differ from k '
                              f'calls of one iteration', key=f'{rid}::{drv.short}::per-call::{c.short}')
            if isinstance(n, (ast.Assign, ast.AugAssign)):
                tg = n.targets if isinstance(n, ast.Assign) else [n.target]
                for t in tg:
                    if isinstance(t, (ast.Attribute, ast.Subscript)):
                        root = t
                        while isinstance(root, (ast.Attribute, ast.Subscript)):
                            root = root.value
                        if isinstance(root, ast.Name) and root.id == drv.param_names[0]:
                            ctx.fail(rid, drv.short, drv.loc(n), f'{ast.unparse(n)[:60]} is executed once per call, '
                                                                 f'outside the iteration loop', key=ctx.key_for(rid, drv, n))
    reach = roles.reach(drv)
    ctx.check(roles.fq(sr) not in reach, rid, drv.short, drv.loc(), 'DoGlobalIteration never consults the stop routine',
              'DoGlobalIteration consults the stop criterion: iterations requested explicitly are not all performed',
              key=f'{rid}::{drv.short}::calls-stop')
    # the locals of the driver do not survive the call (no attribute keeps the list)
    ex = ctx.explorer(unroll=1)
    for p in C.normal_paths(ex.explore(drv)):
        for e in p.stores():
            if e.d['tkind'] == 'attr' and isinstance(e.d['value'], TupleVal):
                ctx.fail(rid, drv.short, drv.loc(e.node), f'the per-call list is kept in {e.d["tdesc"]}',
                         key=f'{rid}::{drv.short}::list-kept')


def upward_exposed(stmts: List[ast.stmt]) -> Set[str]:
    """Names possibly read before being (definitely) written in the statement list."""
    exposed: Set[str] = set()

    def uses(e) -> Set[str]:
        return {n.id for n in ast.walk(e) if isinstance(n, ast.Name) and isinstance(n.ctx, ast.Load)}

    def block(ss, defined: Set[str]) -> Set[str]:
        d = set(defined)
        for st in ss:
            d = stmt(st, d)
        return d

    def stmt(st, d: Set[str]) -> Set[str]:
        if isinstance(st, (ast.Assign, ast.AnnAssign)):
            if st.value is not None:
                exposed.update(uses(st.value) - d)
            tgs = st.targets if isinstance(st, ast.Assign) else [st.target]
            nd = set(d)
            for t in tgs:
                for n in ast.walk(t):
                    if isinstance(n, ast.Name) and isinstance(n.ctx, ast.Store):
                        nd.add(n.id)
                    elif isinstance(n, ast.Name):
                        if n.id not in d:
                            exposed.add(n.id)
            return nd
        if isinstance(st, ast.AugAssign):
            exposed.update(uses(st.value) - d)
            for n in ast.walk(st.target):
                if isinstance(n, ast.Name) and n.id not in d:
                    exposed.add(n.id)
            return d
        if isinstance(st, ast.If):
            exposed.update(uses(st.test) - d)
            a = block(st.body, d)
            b = block(st.orelse, d)
            return a & b
        if isinstance(st, (ast.For, ast.While)):
            if isinstance(st, ast.For):
                exposed.update(uses(st.iter) - d)
                nd = set(d)
                for n in ast.walk(st.target):
                    if isinstance(n, ast.Name):
                        nd.add(n.id)
                block(st.body, nd)
            else:
                exposed.update(uses(st.test) - d)
                block(st.body, d)
            block(st.orelse, d)
            return d
        if isinstance(st, ast.Try):
            a = block(st.body, d)
            for h in st.handlers:
                block(h.body, d)
            block(st.orelse, a)
            block(st.finalbody, d)
            return d
        if isinstance(st, ast.With):
            nd = set(d)
            for it in st.items:
                exposed.update(uses(it.context_expr) - d)
                if it.optional_vars is not None:
                    for n in ast.walk(it.optional_vars):
                        if isinstance(n, ast.Name):
                            nd.add(n.id)
            return block(st.body, nd)
        for ch in ast.iter_child_nodes(st):
            if isinstance(ch, ast.expr):
                exposed.update(uses(ch) - d)
        return d
    block(stmts, set())
    return exposed


def r11_3(ctx: Ctx):
    rid = 'R11.3'
    ctx.rule(rid, 'the stop routine is observationally pure: it writes only its own flag, and nothing on the search '
                  'path reads that flag')
    roles = C.roles_of(ctx)
    try:
        sr = roles.stop_routine
    except RoleMissing as e:
        ctx.fail(rid, f'role {e.role}', 'iOpt/', str(e), key=f'{rid}::role::{e.role}')
        return
    reach = ctx.pta.reachable([sr])
    flags = set()
    n = 0
    for m in E.mutations_in(ctx, reach):
        n += 1
        if m.kind == 'attr' and m.func is sr and isinstance(m.base_expr, ast.Name) and \
                m.base_expr.id == sr.param_names[0]:
            flags.add(m.field)
            continue
        ctx.fail(rid, m.func.short, m.loc(), f'the stop test has a side effect: {m.text()} - calling it (Solve does, '
                                             f'once per trip and once per listener) changes the search state',
                 key=ctx.key_for(rid, m.func, m.node))
    ctx.check(len(flags) <= 1, rid, sr.short, sr.loc(), f'the stop routine writes only its flag {sorted(flags)}',
              f'the stop routine writes several attributes {sorted(flags)}', key=f'{rid}::{sr.short}::flags')
    funcs = search_functions(ctx)
    for q in sorted(funcs):
        f = ctx.ix.funcs.get(q)
        if f is None or f.kind != 'function' or f is sr:
            continue
        for node in ast.walk(f.node):
            if isinstance(node, ast.Attribute) and isinstance(node.ctx, ast.Load) and node.attr in flags:
                objs = ctx.pta.expr_pts(f, node.value)
                if any(o.cls is not None and o.cls.is_subclass_of(roles.method_cls) for o in objs):
                    ctx.fail(rid, f.short, f.loc(node), f'{f.short} reads the stop flag .{node.attr}: the outcome of an '
                                                        f'earlier stop test influences the search',
                             key=f'{rid}::{f.short}::reads-flag')
    ctx.ok(rid, sr.short, f'{n} write sites reachable from the stop routine: only the flag; the flag is read nowhere '
                          f'on the search path', sr.loc())


def r11_4(ctx: Ctx):
    rid = 'R11.4'
    ctx.rule(rid, 'first-iteration typestate: the flag starts True, is cleared exactly once, right after the seeding '
                  'routine inside the guarded branch, and has no other writer')
    roles = C.roles_of(ctx)
    try:
        drv, sdg = roles.iter_driver, roles.seeding
    except RoleMissing as e:
        ctx.fail(rid, f'role {e.role}', 'iOpt/', str(e), key=f'{rid}::role::{e.role}')
        return
    # the flag = the attribute tested in the branch that calls the seeding routine
    ex = ctx.explorer()
    flag = None
    selfv = var(drv.param_names[0])
    n = 0
    for p in C.normal_paths(ex.explore(drv)):
        evs = p.events
        seeds = [e for e in evs if e.kind == 'call' and sdg in e.d['callees']]
        for s in seeds:
            n += 1
            i = evs.index(s)
            guards = [e for e in evs[:i] if e.kind == 'guard' and C.at_level(e, drv)]
            tl = [g.d['lit'] for g in guards if g.d['lit'].kind == 'truth' and g.d['lit'].pol and
                  isinstance(g.d['lit'].key, tuple) and g.d['lit'].key[0] == 'attr' and g.d['lit'].key[1] == key_of(selfv)]
            if not tl:
                # guard of the form <counter> == 0 (the counter starts at 0, the seeding routine makes it positive
                # and nothing ever resets it): an equally good first-iteration typestate
                sg = _state_guard(ctx, guards, key_of(selfv))
                if sg is not None:
                    _check_state_guard(ctx, rid, drv, sdg, s, evs, i, sg)
                    continue
                cg = _counter_guard(ctx, guards)
                if cg is not None:
                    _check_counter_guard(ctx, rid, drv, sdg, s, evs, i, cg)
                    continue
            if not ctx.check(bool(tl), rid, drv.short, drv.loc(s.node), 'the seeding call is guarded by a flag of the '
                                                                        'driver object',
                             'the seeding routine is called without a first-iteration guard',
                             key=f'{rid}::{drv.short}::guarded'):
                continue
            flag = tl[-1].key[2]
            after = [e for e in evs[i + 1:] if e.kind == 'store' and e.d['tkind'] == 'attr' and e.d['field'] == flag]
            nxt_trip = [j for j, e in enumerate(evs[i + 1:]) if e.kind in ('iter', 'loopexit') and e.depth == 0
                        and e.func is drv and not _is_listener_loop(ctx, drv, e)]
            ok = bool(after) and key_of(after[0].d['value']) == FALSE and \
                (not nxt_trip or evs[i + 1:].index(after[0]) < nxt_trip[0])
            ctx.check(ok, rid, drv.short, drv.loc(after[0].node) if after else drv.loc(s.node),
                      'the flag is cleared in the same trip, after the seeding routine',
                      'the first-iteration flag is not cleared right after the seeding routine: the search is seeded '
                      'again on the next trip/call', key=f'{rid}::{drv.short}::cleared')
    ctx.floor(rid, 'seeding calls on paths of the driver', n, 1)
    if flag is None:
        return
    init = drv.cls.lookup('__init__')
    oki = False
    for p in C.normal_paths(ex.explore(init)):
        v = p.state.heap.get((key_of(var(init.param_names[0])), flag))
        oki = v is not None and key_of(v) == TRUE
    ctx.check(oki, rid, init.short, init.loc(), 'the flag starts True', 'the first-iteration flag does not start True',
              key=f'{rid}::{init.short}::starts-true')
    own = {roles.fq(h) for h in roles.helpers_of(drv)}
    for m in roles.attr_writers(flag, drv.cls):
        if roles.fq(m.func) in own:
            v = getattr(m.node, 'value', None)
            if isinstance(v, ast.Constant) and v.value is False:
                continue
        ctx.fail(rid, m.func.short, m.loc(), f'the first-iteration flag has another writer: {m.text()} (a reset makes '
                                             f'a later call seed the search again)', key=ctx.key_for(rid, m.func, m.node))


def _const_state(k) -> bool:
    """A key that names one fixed value: a member of a class (Enum member / class constant) or a string literal."""
    return isinstance(k, tuple) and len(k) >= 2 and k[0] in ('classattr', 'str')


def _state_guard(ctx: Ctx, guards, selfk):
    """(field, K) of a guard literal  self.<field> == K / is K  with K a named constant (an Enum member, a class
    constant, a string): the state-machine form of the first-iteration guard."""
    for g in guards:
        l = g.d['lit']
        if l.kind != 'cmp' or l.op != '==':
            continue
        ats = [a for a in l.rf.atoms()]
        fld = [a for a in ats if isinstance(a, tuple) and len(a) == 4 and a[0] == 'attr' and a[1] == selfk
               and isinstance(a[2], str)]
        ks = [a for a in ats if _const_state(a)]
        if len(ats) == 2 and len(fld) == 1 and len(ks) == 1:
            return fld[0][2], ks[0]
    return None


def _distinct_states(ctx: Ctx, a, b) -> bool:
    """Two named constants certainly denote different values: different string literals, or different members of one
    Enum class whose members are auto() or pairwise different literals."""
    if a == b:
        return False
    if a[0] == 'str' and b[0] == 'str':
        return True
    if a[0] == 'classattr' and b[0] == 'classattr' and a[1] == b[1]:
        cls = ctx.ix.classes.get(a[1])
        if cls is None:
            return False
        vals = {}
        for st in cls.node.body:
            if isinstance(st, ast.Assign) and len(st.targets) == 1 and isinstance(st.targets[0], ast.Name):
                vals[st.targets[0].id] = st.value
        va, vb = vals.get(a[2]), vals.get(b[2])
        if va is None or vb is None:
            return False
        is_enum = any('Enum' in ast.unparse(bs) or 'Flag' in ast.unparse(bs) for bs in cls.node.bases)
        if isinstance(va, ast.Constant) and isinstance(vb, ast.Constant):
            return va.value != vb.value
        if is_enum and all(isinstance(v, ast.Call) and ast.unparse(v.func).endswith('auto') for v in (va, vb)):
            return True
    return False


def _check_state_guard(ctx: Ctx, rid: str, drv, sdg, s, evs, i, sg):
    fld, k0 = sg
    roles = C.roles_of(ctx)
    after = [e for e in evs[i + 1:] if e.kind == 'store' and e.d['tkind'] == 'attr' and e.d['field'] == fld]
    nxt_trip = [j for j, e in enumerate(evs[i + 1:]) if e.kind in ('iter', 'loopexit') and e.depth == 0
                and e.func is drv and not _is_listener_loop(ctx, drv, e)]
    ok = bool(after) and _const_state(key_of(after[0].d['value'])) and \
        _distinct_states(ctx, k0, key_of(after[0].d['value'])) and \
        (not nxt_trip or evs[i + 1:].index(after[0]) < nxt_trip[0])
    ctx.check(ok, rid, drv.short, drv.loc(after[0].node) if after else drv.loc(s.node),
              f'the state {fld} leaves {C.fmt_key_safe(k0)} in the same trip, after the seeding routine',
              f'the first-iteration state {fld} is not moved away from {C.fmt_key_safe(k0)} right after the seeding '
              f'routine: the search is seeded again on the next trip/call', key=f'{rid}::{drv.short}::cleared')
    init = drv.cls.lookup('__init__')
    oki = False
    for p in C.normal_paths(ctx.explorer().explore(init)):
        v = p.state.heap.get((key_of(var(init.param_names[0])), fld))
        oki = v is not None and key_of(v) == k0
    ctx.check(oki, rid, init.short, init.loc(), f'the state starts as {C.fmt_key_safe(k0)}',
              f'the first-iteration state {fld} does not start as {C.fmt_key_safe(k0)}',
              key=f'{rid}::{init.short}::starts-true')
    # nobody stores the initial state again
    for m in roles.attr_writers(fld, drv.cls):
        v = getattr(m.node, 'value', None)
        vk = None
        if isinstance(v, ast.Attribute) and isinstance(v.value, ast.Name):
            c = ctx.ix.resolve_class(m.func.module, v.value.id) if hasattr(ctx.ix, 'resolve_class') else None
            if c is None:
                c = next((cl for cl in ctx.ix.classes.values() if cl.name == v.value.id), None)
            if c is not None:
                vk = ('classattr', c.qualname, v.attr)
        elif isinstance(v, ast.Constant) and isinstance(v.value, str):
            vk = ('str', v.value)
        if vk is not None and _distinct_states(ctx, k0, vk):
            continue
        ctx.fail(rid, m.func.short, m.loc(), f'the first-iteration state has another writer that may restore '
                                             f'{C.fmt_key_safe(k0)}: {m.text()} (a reset makes a later call seed the '
                                             f'search again)', key=ctx.key_for(rid, m.func, m.node),
                 detail={'decidable': True})


def _counter_guard(ctx: Ctx, guards):
    """(owner key, field) of a guard literal  <obj>.<field> == 0  among the guards, if any."""
    for g in guards:
        l = g.d['lit']
        if l.kind == 'cmp' and l.op == '==':
            for rf in (l.rf, -l.rf):
                a = rf.single_atom()
                if isinstance(a, tuple) and len(a) == 4 and a[0] == 'attr' and isinstance(a[2], str):
                    return a[1], a[2]
    return None


def _check_counter_guard(ctx: Ctx, rid: str, drv, sdg, s, evs, i, cg):
    owner_k, fld = cg
    roles = C.roles_of(ctx)
    # (ii) the seeding trip leaves the counter positive
    after = [e for e in evs[i:] if e.kind == 'store' and e.d['tkind'] == 'attr' and e.d['field'] == fld]
    pos = bool(after) and isinstance(after[0].d['value'], RF) and (after[0].d['value'].const_value() or 0) >= 1
    if not pos:
        # the seeding routine itself (an opaque call here) sets the counter to a positive constant
        helpers = set(roles.helpers_of(sdg))
        pos = any(m.kind == 'attr' and m.field == fld and m.func in helpers and
                  isinstance(getattr(m.node, 'value', None), ast.Constant) and
                  isinstance(m.node.value.value, (int, float)) and m.node.value.value >= 1
                  for m in roles.mutations())
    ctx.check(pos, rid, drv.short, drv.loc(s.node), f'the seeding trip makes the guard counter {fld} positive',
              f'the seeding routine is guarded by {fld} == 0 but does not make {fld} positive in the same trip: the '
              f'search is seeded again on the next trip/call', key=f'{rid}::{drv.short}::cleared')
    # (i) starts at 0, (iii) never returns to 0
    bad = []
    init0 = False
    for m in roles.mutations():
        if m.kind not in ('attr', 'aug') or m.field != fld:
            continue
        node = m.node
        v = getattr(node, 'value', None)
        if m.init_self:
            init0 = isinstance(v, ast.Constant) and v.value == 0
            continue
        okw = (isinstance(node, ast.AugAssign) and isinstance(node.op, ast.Add) and isinstance(v, ast.Constant)
               and isinstance(v.value, (int, float)) and v.value > 0) or \
              (isinstance(node, (ast.Assign, ast.AnnAssign)) and isinstance(v, ast.Constant)
               and isinstance(v.value, (int, float)) and v.value >= 1 and m.func is sdg)
        if not okw:
            bad.append(m)
    ctx.check(init0, rid, drv.short, drv.loc(), f'the guard counter {fld} starts at 0',
              f'the guard counter {fld} of the first-iteration test does not start at 0', key=f'{rid}::{fld}::starts-zero')
    for m in bad:
        ctx.fail(rid, m.func.short, m.loc(),
                 f'{m.text()[:60]} can bring the guard counter {fld} of the first-iteration test back to 0: the seeding '
                 f'routine then runs again on the populated search data (earlier records are orphaned, the first '
                 f'trial is repeated)', key=ctx.key_for(rid, m.func, m.node), detail={'decidable': True})
    if not bad:
        ctx.ok(rid, drv.short, f'the guard counter {fld} only grows after construction', drv.loc())


def r11_4_restore(ctx: Ctx):
    from .c03 import restore_typestate, r_link_private
    fv = ctx.full_view()
    restore_typestate(fv, 'R11.4')
    r_link_private(fv)
    restore_resets_queue(fv, 'R11.4')


def restore_resets_queue(ctx, rid: str):
    """A state-restoring entry point that replaces the list of trials also re-establishes the characteristics queue
    (clears / refills / replaces it): otherwise intervals of the discarded continuation stay queued, and a trial
    placed in one of them is linked between records that are no longer in the list."""
    roles = C.roles_of(ctx)
    others = roles.other_entry_points()
    if not others:
        return
    sdc = ctx.ix.cls('SearchData')
    qc = ctx.ix.find_cls('CharacteristicsQueue')
    resetters = {roles.fq(f) for n_ in ('ClearQueue', 'RefillQueue') for f in roles.sd_method(n_)}
    for ep in others:
        reach = ctx.pta.reachable([ep], stop=None) | {roles.fq(ep)}
        replaces = resets = False
        for m in roles.mutations():
            if roles.fq(m.func) not in reach or m.init_self:
                continue
            on_sd = any(o.cls is not None and o.cls.is_subclass_of(sdc) for o in m.bases)
            if m.kind in ('attr', 'aug') and on_sd and isinstance(m.field, str) and \
                    ('allTrials' in m.field or 'firstDataItem' in m.field):
                replaces = True
            if m.kind == 'mutcall' and isinstance(m.base_expr, ast.Attribute) and 'allTrials' in m.base_expr.attr and \
                    m.field in ('clear', 'extend', 'append', '__setitem__', 'insert'):
                replaces = True
            if m.kind in ('attr',) and on_sd and isinstance(m.field, str) and 'Queue' in m.field:
                resets = True          # the queue object itself is replaced
            if qc is not None and m.kind in ('attr',) and \
                    any(o.cls is not None and o.cls.is_subclass_of(qc) for o in m.bases):
                resets = True          # the wrapper's base queue is replaced (entries installed into a new queue)
            if m.kind == 'extcall' and m.field == 'clear' and \
                    any(o.kind == 'ext' and o.extra and o.extra[0] == 'xcls' and 'DEPQ' in str(o.extra[1])
                        for o in m.bases):
                resets = True          # emptied before the saved entries are inserted
        if qc is not None and qc.lookup('Clear') is not None:
            resetters = resetters | {roles.fq(qc.lookup('Clear'))}
        if reach & resetters:
            resets = True
        if not replaces:
            continue
        ctx.check(resets, rid, ep.short, ep.loc(),
                  f'{ep.short} replaces the trials and re-establishes the characteristics queue',
                  f'{ep.short} replaces the list of trials but leaves the characteristics queue as it was: intervals of '
                  f'the discarded state stay queued, and the next trial placed in one of them is linked between records '
                  f'that are no longer part of the search data', key=f'{rid}::{ep.short}::restore-leaves-queue',
                  detail={'decidable': True})


def _is_listener_loop(ctx, drv, ev) -> bool:
    from .c13 import _loop_over_listeners
    return _loop_over_listeners(ctx, drv, ev.node)


def r11_5_counters(ctx: Ctx):
    """The counters read by the stop routine never decrease: every writer increments (or sets the first value)."""
    rid = 'R11.5'
    roles = C.roles_of(ctx)
    sol = ctx.ix.cls('Solution')
    n = 0
    for fld, owner in (('iterationsCount', roles.method_cls), ('numberOfGlobalTrials', sol)):
        for m in roles.attr_writers(fld, owner):
            n += 1
            node = m.node
            ok = False
            if isinstance(node, ast.AugAssign) and isinstance(node.op, ast.Add) and isinstance(node.value, ast.Constant) \
                    and isinstance(node.value.value, (int, float)) and node.value.value > 0:
                ok = True
            elif isinstance(node, (ast.Assign, ast.AnnAssign)) and isinstance(node.value, ast.Constant) and \
                    m.func is roles.seeding and node.value.value == 1:
                ok = True
            elif isinstance(node, ast.Assign) and isinstance(node.value, ast.BinOp) and isinstance(node.value.op, ast.Add) \
                    and any(isinstance(x, ast.Constant) and isinstance(x.value, (int, float)) and x.value > 0
                            for x in (node.value.left, node.value.right)) \
                    and any(isinstance(x, ast.Attribute) and x.attr == fld for x in (node.value.left, node.value.right)):
                ok = True
            ctx.check(ok, rid, m.func.short, m.loc(), f'{fld} only grows: {m.text()[:50]}',
                      f'{fld} can decrease or be reset ({m.text()}): a finished solver could resume, and the trial '
                      f'sequence would depend on when Solve is called', key=ctx.key_for(rid, m.func, m.node))
    ctx.floor(rid, 'writers of the counters read by the stop routine', n, 3)


def r11_7(ctx: Ctx):
    """Solve = repeated single iterations and nothing else that the search can see: every statement of the solve
    driver that is not the iteration call, the stop test, the refinement, the result getter or a notification
    leaves alone the state the iteration path reads.  Otherwise DoGlobalIteration(k) followed by Solve differs from
    Solve alone."""
    rid = 'R11.7'
    ctx.rule(rid, 'the solve driver changes search state only through the iteration call: no other statement of it '
                  'writes a field (or container) that the iteration path or the stop routine reads')
    roles = C.roles_of(ctx)
    try:
        sd, drv, sr, rf, rg = roles.solve_driver, roles.iter_driver, roles.stop_routine, roles.refine_driver, \
            roles.results_getter
    except RoleMissing as e:
        ctx.fail(rid, f'role {e.role}', 'iOpt/', str(e), key=f'{rid}::role::{e.role}')
        return
    from .c13 import solver_state
    from ..index import mangle
    state = solver_state(ctx)
    lst = roles.listener_methods()
    excluded = {roles.fq(x) for x in (drv, sr, rf, rg)} | lst
    # field names read on the iteration path / by the stop routine
    readers = (roles.reach(drv) | roles.reach(sr) | {roles.fq(drv), roles.fq(sr)}) - lst
    read_fields: Set[str] = set()
    for q in readers:
        f = ctx.ix.funcs.get(q)
        if f is None or f.kind != 'function':
            continue
        cn = f.cls.name if f.cls is not None else None
        for nd in ast.walk(f.node):
            if isinstance(nd, ast.Attribute) and isinstance(nd.ctx, ast.Load):
                read_fields.add(mangle(cn, nd.attr))
    ctx.floor(rid, 'attribute names read on the iteration path', len(read_fields), 20)

    def names_of_container(o) -> Set[str]:
        out = set()
        for so in state:
            for k, v in ctx.pta._fields_of(so):
                fld = k[2] if isinstance(k, tuple) and len(k) == 3 else k
                if o in v and isinstance(fld, str):
                    out.add(fld)
        return out

    def judge(m, via: str):
        if m.init_self:
            return
        hit = [o for o in m.bases if o in state]
        if not hit:
            return
        if m.kind in ('attr', 'aug') and isinstance(m.field, str):
            flds = {m.field}
        else:
            flds = set()
            for o in hit:
                flds |= names_of_container(o)
        seen = sorted(flds & read_fields)
        if not seen:
            return
        ctx.fail(rid, sd.short, m.loc(),
                 f'{sd.short} changes search state outside the iteration call{via}: {m.text()[:70]} writes '
                 f'{seen[:3]}, which the iteration path reads - iterations made through DoGlobalIteration followed '
                 f'by Solve no longer give the trial sequence of Solve alone',
                 key=f'{rid}::{sd.short}::writes::{seen[0]}')
    n = 0
    own = [m for m in roles.mutations() if m.func is sd]
    for m in own:
        n += 1
        judge(m, '')
    for nd in ast.walk(sd.node):
        if isinstance(nd, ast.Call):
            for c in ctx.pta.internal_callees(sd, nd):
                q = roles.fq(c)
                if q in excluded or c.name == '__init__':
                    continue
                n += 1
                r_ = ctx.pta.reachable([c], stop=lambda q2: q2 in lst or q2 in excluded) - excluded - lst
                for m in E.mutations_in(ctx, r_):
                    judge(m, f' (through {c.short})')
    ctx.ok(rid, sd.short, f'{n} write sites / helper calls of the solve driver examined: none writes what the '
                          f'iteration path reads', sd.loc())
    ctx.floor(rid, 'write sites and helper calls in the solve driver', n, 1)


def check(ctx: Ctx):
    for rid, fn in (('R11.1', r11_1), ('R11.2', r11_2), ('R11.3', r11_3), ('R11.4', r11_4), ('R11.7', r11_7)):
        if C.want(ctx, rid):
            fn(ctx)
    if C.want(ctx, 'R11.4'):
        r11_4_restore(ctx)
    if C.want(ctx, 'R11.5'):
        ctx.rule('R11.5', 'monotonicity: accuracy only through min (R03.6), counters only incremented (R03.1/R03.3), '
                          'parameters never written (R12.3), pre-tested loop (R03.5): a finished solver stays '
                          'finished and a second Solve makes no trial - re-run here')
        from . import c03, c12
        r11_5_counters(ctx)
        c03.r03_4(ctx)
        c03.r03_5(ctx)
        c03.r03_6(ctx)
        c12.r12_3_inputs_readonly(ctx)
    if C.want(ctx, 'R11.6'):
        ctx.rule('R11.6', 'notifications cannot feed back into the search (= R13.6), re-run here')
        from . import c13
        c13.r13_6(ctx)
    if C.want(ctx, 'R11.8'):
        ctx.rule('R11.8', 'a repeated run starts from the same state: nothing the library writes outlives a Solver in a '
                          'module / class / default-argument object (= R12.1 and R12.2), re-run here - a second solver '
                          'for the same inputs would otherwise see what the first one left behind')
        from . import c12
        c12.r12_1(ctx)
        c12.r12_2(ctx)
    ctx.assume('the shipped objectives are deterministic (C15); user objectives are assumed deterministic')
