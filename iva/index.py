"""E1 - program index: modules, classes, functions, imports, MRO, name mangling.

The index is purely syntactic.  Call resolution lives in pta.py (points-to with
an on-the-fly call graph); the index offers the lookups it needs.
"""
from __future__ import annotations

import ast
import hashlib
import os
from dataclasses import dataclass, field
from typing import Dict, List, Optional, Tuple


class AnalysisError(Exception):
    """The engine cannot model a construct / an anchor vanished (exit 2)."""


def mangle(cls_name: Optional[str], attr: str) -> str:
    """Python private-name mangling: inside class C, __x becomes _C__x."""
    if cls_name and attr.startswith('__') and not attr.endswith('__'):
        return '_' + cls_name.lstrip('_') + attr
    return attr


@dataclass
class FuncInfo:
    module: 'ModuleInfo'
    cls: Optional['ClassInfo']
    name: str
    node: ast.AST                      # FunctionDef | Module | ClassDef (bodies)
    kind: str = 'function'             # function | module | classbody
    decorators: Tuple[str, ...] = ()

    @property
    def qualname(self) -> str:
        if self.kind == 'module':
            return f'{self.module.name}:<module>'
        if self.kind == 'classbody':
            return f'{self.module.name}:{self.cls.name}.<classbody>'
        if self.cls is not None:
            return f'{self.module.name}:{self.cls.name}.{self.name}'
        return f'{self.module.name}:{self.name}'

    @property
    def short(self) -> str:
        if self.kind != 'function':
            return self.qualname.split(':', 1)[1]
        return f'{self.cls.name}.{self.name}' if self.cls else self.name

    @property
    def is_static(self) -> bool:
        return 'staticmethod' in self.decorators

    @property
    def is_classmethod(self) -> bool:
        return 'classmethod' in self.decorators

    @property
    def is_property(self) -> bool:
        return 'property' in self.decorators

    @property
    def is_setter(self) -> bool:
        return any(d.endswith('.setter') for d in self.decorators)

    @property
    def params(self) -> List[ast.arg]:
        if self.kind != 'function':
            return []
        a = self.node.args
        return list(a.posonlyargs) + list(a.args)

    @property
    def param_names(self) -> List[str]:
        return [a.arg for a in self.params]

    @property
    def kwonly(self) -> List[ast.arg]:
        return list(self.node.args.kwonlyargs) if self.kind == 'function' else []

    def defaults(self) -> Dict[str, ast.expr]:
        """param name -> default expression."""
        if self.kind != 'function':
            return {}
        a = self.node.args
        pos = list(a.posonlyargs) + list(a.args)
        out = {}
        for p, d in zip(pos[len(pos) - len(a.defaults):], a.defaults):
            out[p.arg] = d
        for p, d in zip(a.kwonlyargs, a.kw_defaults):
            if d is not None:
                out[p.arg] = d
        return out

    @property
    def file(self) -> str:
        return self.module.relpath

    @property
    def lineno(self) -> int:
        return getattr(self.node, 'lineno', 1)

    def loc(self, node: Optional[ast.AST] = None) -> str:
        n = node if node is not None else self.node
        return f'{self.module.relpath}:{getattr(n, "lineno", 1)}'

    def __hash__(self):
        return hash(self.qualname)

    def __eq__(self, other):
        return isinstance(other, FuncInfo) and other.qualname == self.qualname

    def __repr__(self):
        return f'<F {self.qualname}>'


@dataclass
class ClassInfo:
    module: 'ModuleInfo'
    name: str
    node: ast.ClassDef
    base_exprs: List[ast.expr] = field(default_factory=list)
    bases: List['ClassInfo'] = field(default_factory=list)      # resolved repo bases
    ext_bases: List[str] = field(default_factory=list)          # dotted external bases
    methods: Dict[str, FuncInfo] = field(default_factory=dict)  # own methods (last def wins)
    setters: Dict[str, FuncInfo] = field(default_factory=dict)  # property setters
    body: Optional[FuncInfo] = None
    subclasses: List['ClassInfo'] = field(default_factory=list)

    @property
    def qualname(self) -> str:
        return f'{self.module.name}:{self.name}'

    def mro(self) -> List['ClassInfo']:
        out, seen = [], set()

        def walk(c):
            if c.qualname in seen:
                return
            seen.add(c.qualname)
            out.append(c)
            for b in c.bases:
                walk(b)
        walk(self)
        return out

    @property
    def namedtuple_fields(self) -> Optional[List[str]]:
        """Field names, in order, of a typing.NamedTuple class (None for any other class)."""
        if not any((isinstance(b, ast.Name) and b.id == 'NamedTuple') or
                   (isinstance(b, ast.Attribute) and b.attr == 'NamedTuple') for b in self.base_exprs):
            return None
        return [st.target.id for st in self.node.body
                if isinstance(st, ast.AnnAssign) and isinstance(st.target, ast.Name)]

    @property
    def dataclass_fields(self) -> Optional[List[str]]:
        """Field names, in order, of a @dataclass without a hand-written __init__ (None for any other class): its
        synthesised constructor stores its arguments in these attributes."""
        def is_dc(d) -> bool:
            if isinstance(d, ast.Call):
                d = d.func
            return (isinstance(d, ast.Name) and d.id == 'dataclass') or \
                (isinstance(d, ast.Attribute) and d.attr == 'dataclass')
        if not any(is_dc(d) for d in self.node.decorator_list) or '__init__' in self.methods:
            return None
        out = []
        for st in self.node.body:
            if isinstance(st, ast.AnnAssign) and isinstance(st.target, ast.Name) and \
                    'ClassVar' not in ast.unparse(st.annotation):
                out.append(st.target.id)
        return out

    def lookup(self, name: str) -> Optional[FuncInfo]:
        for c in self.mro():
            if name in c.methods:
                return c.methods[name]
        return None

    def lookup_setter(self, name: str) -> Optional[FuncInfo]:
        for c in self.mro():
            if name in c.setters:
                return c.setters[name]
        return None

    def all_subclasses(self) -> List['ClassInfo']:
        out, seen = [], set()

        def walk(c):
            for s in c.subclasses:
                if s.qualname not in seen:
                    seen.add(s.qualname)
                    out.append(s)
                    walk(s)
        walk(self)
        return out

    def is_subclass_of(self, other: 'ClassInfo') -> bool:
        return any(c.qualname == other.qualname for c in self.mro())

    def root(self) -> 'ClassInfo':
        m = self.mro()
        return m[-1]

    def __hash__(self):
        return hash(self.qualname)

    def __eq__(self, other):
        return isinstance(other, ClassInfo) and other.qualname == self.qualname

    def __repr__(self):
        return f'<C {self.qualname}>'


@dataclass
class ModuleInfo:
    name: str
    path: str
    relpath: str
    src: str
    tree: ast.Module
    imports: Dict[str, Tuple] = field(default_factory=dict)
    # alias -> ('module', dotted) | ('from', dotted_module, name)
    classes: Dict[str, ClassInfo] = field(default_factory=dict)
    functions: Dict[str, FuncInfo] = field(default_factory=dict)
    globals: Dict[str, List[ast.AST]] = field(default_factory=dict)  # name -> assigning stmts
    body: Optional[FuncInfo] = None

    def __hash__(self):
        return hash(self.name)

    def __eq__(self, other):
        return isinstance(other, ModuleInfo) and other.name == self.name


def _decorator_name(d: ast.expr) -> str:
    if isinstance(d, ast.Name):
        return d.id
    if isinstance(d, ast.Attribute):
        return _decorator_name(d.value) + '.' + d.attr
    if isinstance(d, ast.Call):
        return _decorator_name(d.func)
    return '?'


BIG_MODULE_LINES = 2000


def _dataclass_init(cls_node: ast.ClassDef) -> Optional[ast.FunctionDef]:
    """The constructor a @dataclass decorator synthesises, written out: parameters in field order with their defaults,
    one store per field (fields with init=False get their default, default_factory fields a call of the factory when
    the argument is omitted), then __post_init__() if the class defines one.  Fields inherited from a base dataclass
    are not merged (no such class in the library); None for anything that is not a plain @dataclass."""
    def is_dc(d) -> bool:
        if isinstance(d, ast.Call):
            d = d.func
        return (isinstance(d, ast.Name) and d.id == 'dataclass') or (isinstance(d, ast.Attribute) and d.attr == 'dataclass')
    if not any(is_dc(d) for d in cls_node.decorator_list):
        return None
    if any(isinstance(b, ast.FunctionDef) and b.name == '__init__' for b in cls_node.body):
        return None
    params, body = [], []
    for st in cls_node.body:
        if not (isinstance(st, ast.AnnAssign) and isinstance(st.target, ast.Name)) or \
                'ClassVar' in ast.unparse(st.annotation):
            continue
        name, val = st.target.id, st.value
        default = factory = None
        init = True
        if isinstance(val, ast.Call) and ((isinstance(val.func, ast.Name) and val.func.id == 'field') or
                                          (isinstance(val.func, ast.Attribute) and val.func.attr == 'field')):
            for kw in val.keywords:
                if kw.arg == 'default':
                    default = ast.unparse(kw.value)
                elif kw.arg == 'default_factory':
                    factory = ast.unparse(kw.value)
                elif kw.arg == 'init' and isinstance(kw.value, ast.Constant) and kw.value.value is False:
                    init = False
        elif val is not None:
            default = ast.unparse(val)
        if not init:
            rhs = f'{factory}()' if factory else (default if default is not None else 'None')
            body.append(f'    self.{name} = {rhs}')
        elif factory:
            params.append(f'{name}=None')
            body.append(f'    self.{name} = {factory}() if {name} is None else {name}')
        else:
            params.append(name if default is None else f'{name}={default}')
            body.append(f'    self.{name} = {name}')
    post = [b for b in cls_node.body if isinstance(b, ast.FunctionDef) and b.name == '__post_init__']
    inline_post = bool(post) and len(post[0].args.args) == 1 and post[0].args.args[0].arg == 'self' and \
        not any(isinstance(x, ast.Return) and x.value is not None for x in ast.walk(post[0]))
    if post and not inline_post:
        body.append('    self.__post_init__()')
    # parameters without a default may not follow parameters with one in hand-written code; dataclasses forbid it too
    src = 'def __init__(self' + ''.join(', ' + p_ for p_ in params) + '):\n' + '\n'.join(body or ['    pass'])
    try:
        fn = ast.parse(src).body[0]
    except SyntaxError:
        return None
    for n in ast.walk(fn):
        if hasattr(n, 'lineno'):
            n.lineno = n.end_lineno = cls_node.lineno
            n.col_offset = n.end_col_offset = cls_node.col_offset
    if inline_post:
        # __post_init__(self) runs as the tail of the constructor: its statements are part of it (own positions kept)
        import copy as _copy
        tail = [_copy.deepcopy(x) for x in post[0].body
                if not (isinstance(x, ast.Expr) and isinstance(x.value, ast.Constant))]
        if tail and not (len(fn.body) == 1 and isinstance(fn.body[0], ast.Pass)):
            fn.body.extend(tail)
        elif tail:
            fn.body = tail
    return fn


class Index:
    """All modules under <repo>/<package>."""

    def __init__(self, repo: str = '/repo', package: str = 'iOpt', include_big: bool = True):
        self.repo = os.path.abspath(repo)
        self.package = package
        self.modules: Dict[str, ModuleInfo] = {}
        self.funcs: Dict[str, FuncInfo] = {}
        self.classes: Dict[str, ClassInfo] = {}
        self.skipped_big: List[str] = []
        self.digest = hashlib.sha256()
        pkg_dir = os.path.join(self.repo, package)
        if not os.path.isdir(pkg_dir):
            raise AnalysisError(f'package directory {pkg_dir} not found')
        for root, dirs, files in os.walk(pkg_dir):
            dirs[:] = sorted(d for d in dirs if d != '__pycache__')
            for fn in sorted(files):
                if not fn.endswith('.py'):
                    continue
                path = os.path.join(root, fn)
                rel = os.path.relpath(path, self.repo)
                with open(path, 'rb') as f:
                    raw = f.read()
                self.digest.update(rel.encode() + b'\0' + raw)
                src = raw.decode('utf-8')
                if not include_big and src.count('\n') > BIG_MODULE_LINES:
                    self.skipped_big.append(rel)
                    continue
                name = rel[:-3].replace(os.sep, '.')
                if name.endswith('.__init__'):
                    name = name[:-9]
                try:
                    import warnings
                    with warnings.catch_warnings():
                        warnings.simplefilter('ignore')
                        tree = ast.parse(src, filename=path)
                except SyntaxError as e:
                    raise AnalysisError(f'{rel}: does not parse: {e}')
                self._add_module(ModuleInfo(name, path, rel, src, tree))
        self._resolve_bases()

    # ------------------------------------------------------------------
    def _add_module(self, m: ModuleInfo):
        self.modules[m.name] = m
        m.body = FuncInfo(m, None, '<module>', m.tree, kind='module')
        self.funcs[m.body.qualname] = m.body
        for st in ast.walk(m.tree):
            if isinstance(st, ast.Import):
                for a in st.names:
                    if a.asname:
                        m.imports[a.asname] = ('module', a.name)
                    else:
                        m.imports[a.name.split('.')[0]] = ('module', a.name.split('.')[0])
            elif isinstance(st, ast.ImportFrom):
                mod = st.module or ''
                if st.level:
                    base = m.name.split('.')
                    base = base[:len(base) - st.level] if not m.path.endswith('__init__.py') \
                        else base[:len(base) - st.level + 1]
                    mod = '.'.join(base + ([mod] if mod else []))
                for a in st.names:
                    m.imports[a.asname or a.name] = ('from', mod, a.name)
        for st in m.tree.body:
            self._scan_toplevel(m, st)

    def _scan_toplevel(self, m: ModuleInfo, st: ast.stmt):
        if isinstance(st, (ast.FunctionDef, ast.AsyncFunctionDef)):
            fi = FuncInfo(m, None, st.name, st,
                          decorators=tuple(_decorator_name(d) for d in st.decorator_list))
            m.functions[st.name] = fi
            self.funcs[fi.qualname] = fi
        elif isinstance(st, ast.ClassDef):
            ci = ClassInfo(m, st.name, st, base_exprs=list(st.bases))
            m.classes[st.name] = ci
            self.classes[ci.qualname] = ci
            ci.body = FuncInfo(m, ci, '<classbody>', st, kind='classbody')
            self.funcs[ci.body.qualname] = ci.body
            for b in st.body:
                if isinstance(b, (ast.FunctionDef, ast.AsyncFunctionDef)):
                    decs = tuple(_decorator_name(d) for d in b.decorator_list)
                    fi = FuncInfo(m, ci, b.name, b, decorators=decs)
                    if fi.is_setter:
                        ci.setters[b.name] = fi
                        self.funcs[fi.qualname + '@setter'] = fi
                    else:
                        ci.methods[b.name] = fi
                        self.funcs[fi.qualname] = fi
            synth = _dataclass_init(st)
            if synth is not None and '__init__' not in ci.methods:
                fi = FuncInfo(m, ci, '__init__', synth)
                ci.methods['__init__'] = fi
                self.funcs[fi.qualname] = fi
                post = ci.methods.get('__post_init__')
                if post is not None and not any(isinstance(x, ast.Call) and isinstance(x.func, ast.Attribute) and
                                                x.func.attr == '__post_init__' for x in ast.walk(synth)):
                    # its statements were made the tail of the constructor: it is not a routine of its own
                    del ci.methods['__post_init__']
                    self.funcs.pop(post.qualname, None)
        elif isinstance(st, (ast.Assign, ast.AnnAssign, ast.AugAssign)):
            targets = st.targets if isinstance(st, ast.Assign) else [st.target]
            for t in targets:
                for n in ast.walk(t):
                    if isinstance(n, ast.Name):
                        m.globals.setdefault(n.id, []).append(st)
        elif isinstance(st, (ast.If, ast.Try, ast.With, ast.For, ast.While)):
            for sub in ast.iter_child_nodes(st):
                if isinstance(sub, ast.stmt):
                    self._scan_toplevel(m, sub)

    def _resolve_bases(self):
        for ci in self.classes.values():
            for b in ci.base_exprs:
                tgt = self.resolve_name_expr(ci.module, b)
                if isinstance(tgt, ClassInfo):
                    ci.bases.append(tgt)
                    tgt.subclasses.append(ci)
                else:
                    ci.ext_bases.append(ast.unparse(b))

    # ------------------------------------------------------------------
    def resolve_global(self, m: ModuleInfo, name: str):
        """Resolve a module-scope name: ClassInfo | FuncInfo | ModuleInfo |
        ('global', module, name) | ('ext', dotted) | None (builtin/unknown)."""
        if name in m.classes:
            return m.classes[name]
        if name in m.functions:
            return m.functions[name]
        if name in m.globals:
            return ('global', m, name)
        if name in m.imports:
            imp = m.imports[name]
            if imp[0] == 'module':
                dotted = imp[1]
                if dotted in self.modules:
                    return self.modules[dotted]
                return ('ext', dotted)
            _, mod, nm = imp
            if mod in self.modules:
                tm = self.modules[mod]
                if nm in tm.classes or nm in tm.functions or nm in tm.globals or nm in tm.imports:
                    return self.resolve_global(tm, nm)
                sub = mod + '.' + nm
                if sub in self.modules:
                    return self.modules[sub]
                return ('missing', mod, nm)
            sub = (mod + '.' + nm) if mod else nm
            if sub in self.modules:
                return self.modules[sub]
            return ('ext', sub)
        return None

    def resolve_name_expr(self, m: ModuleInfo, e: ast.expr):
        """Resolve Name / dotted Attribute at module scope (for bases, annotations)."""
        if isinstance(e, ast.Name):
            return self.resolve_global(m, e.id)
        if isinstance(e, ast.Attribute):
            base = self.resolve_name_expr(m, e.value)
            if isinstance(base, ModuleInfo):
                r = self.resolve_global(base, e.attr)
                if r is None:
                    sub = base.name + '.' + e.attr
                    return self.modules.get(sub)
                return r
            if isinstance(base, tuple) and base[0] == 'ext':
                return ('ext', base[1] + '.' + e.attr)
            if isinstance(base, ClassInfo):
                return ('classattr', base, e.attr)
        if isinstance(e, ast.Constant) and isinstance(e.value, str):
            try:
                return self.resolve_name_expr(m, ast.parse(e.value, mode='eval').body)
            except SyntaxError:
                return None
        return None

    def annotation_classes(self, m: ModuleInfo, ann: Optional[ast.expr]) -> List[ClassInfo]:
        """Repo classes named by an annotation (List[T] -> [T] is *not* unwrapped here)."""
        if ann is None:
            return []
        r = self.resolve_name_expr(m, ann)
        return [r] if isinstance(r, ClassInfo) else []

    def annotation_elem_classes(self, m: ModuleInfo, ann: Optional[ast.expr]) -> List[ClassInfo]:
        """For List[T] / list[T] annotations: [T]."""
        if ann is None:
            return []
        if isinstance(ann, ast.Constant) and isinstance(ann.value, str):
            try:
                ann = ast.parse(ann.value, mode='eval').body
            except SyntaxError:
                return []
        if isinstance(ann, ast.Subscript) and isinstance(ann.value, ast.Name) and \
                ann.value.id in ('List', 'list', 'Sequence', 'Iterable'):
            r = self.resolve_name_expr(m, ann.slice)
            return [r] if isinstance(r, ClassInfo) else []
        return []

    # ------------------------------------------------------------------
    def func(self, spec: str) -> FuncInfo:
        """'Class.method' or 'module:Class.method' -> FuncInfo (unique)."""
        if ':' in spec:
            if spec in self.funcs:
                return self.funcs[spec]
            raise AnalysisError(f'anchor {spec} not found')
        hits = [f for q, f in self.funcs.items() if q.split(':', 1)[1] == spec and not q.endswith('@setter')]
        if len(hits) == 1:
            return hits[0]
        if not hits:
            raise AnalysisError(f'anchor {spec} not found')
        raise AnalysisError(f'anchor {spec} ambiguous: {[h.qualname for h in hits]}')

    def find_func(self, spec: str) -> Optional[FuncInfo]:
        try:
            return self.func(spec)
        except AnalysisError:
            return None

    def cls(self, name: str) -> ClassInfo:
        if ':' in name:
            if name in self.classes:
                return self.classes[name]
            raise AnalysisError(f'class {name} not found')
        hits = [c for c in self.classes.values() if c.name == name]
        if len(hits) == 1:
            return hits[0]
        if not hits:
            raise AnalysisError(f'class {name} not found')
        raise AnalysisError(f'class {name} ambiguous')

    def find_cls(self, name: str) -> Optional[ClassInfo]:
        try:
            return self.cls(name)
        except AnalysisError:
            return None

    def all_functions(self) -> List[FuncInfo]:
        seen, out = set(), []
        for f in self.funcs.values():
            if id(f) not in seen:
                seen.add(id(f))
                out.append(f)
        return out

    def real_functions(self) -> List[FuncInfo]:
        return [f for f in self.all_functions() if f.kind == 'function']

    def stats(self) -> Dict[str, int]:
        return {
            'modules': len(self.modules),
            'nonempty_modules': sum(1 for m in self.modules.values() if m.tree.body),
            'classes': len(self.classes),
            'functions': len(self.real_functions()),
        }


def body_of(f: FuncInfo) -> List[ast.stmt]:
    """Statements executed by this code unit (nested defs excluded by the walkers)."""
    return list(f.node.body)


def norm_stmt(node: ast.AST) -> str:
    """Normalised statement text: the key for known findings / corpus edits."""
    try:
        return ' '.join(ast.unparse(node).split())
    except Exception:
        return '<unparse failed>'
