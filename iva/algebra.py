"""E5 - rational-function normal forms over opaque atoms, and guard literals.

Expressions are normalised to quotients of multivariate polynomials with exact
(Fraction) coefficients over *atoms* (opaque hashable keys).  Equality is decided
by cross-multiplication; no GCD is needed.  This is value numbering, not solving.
"""
from __future__ import annotations

from fractions import Fraction
from typing import Dict, Iterable, Optional, Tuple

Mono = Tuple[Tuple[object, int], ...]      # sorted ((atomkey, exp), ...)
Poly = Dict[Mono, Fraction]


def _akey(a) -> str:
    return repr(a)


def p_const(c) -> Poly:
    c = Fraction(c)
    return {(): c} if c != 0 else {}


def p_atom(a) -> Poly:
    return {((a, 1),): Fraction(1)}


def p_add(a: Poly, b: Poly) -> Poly:
    out = dict(a)
    for m, c in b.items():
        v = out.get(m, 0) + c
        if v == 0:
            out.pop(m, None)
        else:
            out[m] = v
    return out


def p_neg(a: Poly) -> Poly:
    return {m: -c for m, c in a.items()}


def m_mul(a: Mono, b: Mono) -> Mono:
    d: Dict[object, int] = {}
    for k, e in a:
        d[k] = d.get(k, 0) + e
    for k, e in b:
        d[k] = d.get(k, 0) + e
    return tuple(sorted(((k, e) for k, e in d.items() if e != 0), key=lambda t: _akey(t[0])))


def p_mul(a: Poly, b: Poly) -> Poly:
    out: Poly = {}
    for m1, c1 in a.items():
        for m2, c2 in b.items():
            m = m_mul(m1, m2)
            v = out.get(m, 0) + c1 * c2
            if v == 0:
                out.pop(m, None)
            else:
                out[m] = v
    return out


def p_eq(a: Poly, b: Poly) -> bool:
    return a == b


def p_is_const(a: Poly) -> Optional[Fraction]:
    if not a:
        return Fraction(0)
    if len(a) == 1 and () in a:
        return a[()]
    return None


def p_atoms(a: Poly) -> set:
    s = set()
    for m in a:
        for k, _ in m:
            s.add(k)
    return s


class RF:
    """num/den, both Poly; den is never the zero polynomial."""
    __slots__ = ('num', 'den', '_key')

    def __init__(self, num: Poly, den: Optional[Poly] = None):
        self.num = num
        self.den = den if den is not None else {(): Fraction(1)}
        self._key = None
        self._simplify()

    # -- construction ----------------------------------------------------
    @staticmethod
    def const(c) -> 'RF':
        return RF(p_const(c))

    @staticmethod
    def atom(a) -> 'RF':
        return RF(p_atom(a))

    def _simplify(self):
        if not self.num:
            self.den = {(): Fraction(1)}
            return
        dc = p_is_const(self.den)
        if dc is not None:
            if dc != 1:
                self.num = {m: c / dc for m, c in self.num.items()}
                self.den = {(): Fraction(1)}
            return
        # divide out the common monomial factor and normalise the leading coefficient of den
        common: Optional[Dict[object, int]] = None
        for m in list(self.num) + list(self.den):
            d = dict(m)
            if common is None:
                common = d
            else:
                common = {k: min(e, d[k]) for k, e in common.items() if k in d}
            if not common:
                break
        if common:
            def strip(p):
                out = {}
                for m, c in p.items():
                    d = dict(m)
                    for k, e in common.items():
                        d[k] -= e
                    out[tuple(sorted(((k, e) for k, e in d.items() if e), key=lambda t: _akey(t[0])))] = c
                return out
            self.num, self.den = strip(self.num), strip(self.den)
        lead = self.den[min(self.den, key=lambda m: repr(m))]
        if lead != 1:
            self.num = {m: c / lead for m, c in self.num.items()}
            self.den = {m: c / lead for m, c in self.den.items()}
        # exact division when den is a single monomial-free constant handled above; try num == k*den
        if len(self.num) == len(self.den):
            ratio = None
            ok = True
            for m, c in self.den.items():
                if m not in self.num:
                    ok = False
                    break
                r = self.num[m] / c
                if ratio is None:
                    ratio = r
                elif r != ratio:
                    ok = False
                    break
            if ok and ratio is not None:
                self.num, self.den = p_const(ratio), {(): Fraction(1)}

    # -- arithmetic --------------------------------------------------------
    def __add__(self, o: 'RF') -> 'RF':
        if self.den == o.den:
            return RF(p_add(self.num, o.num), dict(self.den))
        return RF(p_add(p_mul(self.num, o.den), p_mul(o.num, self.den)), p_mul(self.den, o.den))

    def __neg__(self) -> 'RF':
        return RF(p_neg(self.num), dict(self.den))

    def __sub__(self, o: 'RF') -> 'RF':
        return self + (-o)

    def __mul__(self, o: 'RF') -> 'RF':
        return RF(p_mul(self.num, o.num), p_mul(self.den, o.den))

    def inverse(self) -> 'RF':
        if not self.num:
            raise ZeroDivisionError('division by the zero polynomial')
        return RF(dict(self.den), dict(self.num))

    def __truediv__(self, o: 'RF') -> 'RF':
        return self * o.inverse()

    def ipow(self, n: int) -> 'RF':
        if n < 0:
            return self.inverse().ipow(-n)
        out = RF.const(1)
        base = self
        while n:
            if n & 1:
                out = out * base
            base = base * base
            n >>= 1
        return out

    # -- queries -----------------------------------------------------------
    def equals(self, o: 'RF') -> bool:
        return p_eq(p_mul(self.num, o.den), p_mul(o.num, self.den))

    def is_zero(self) -> bool:
        return not self.num

    def const_value(self) -> Optional[Fraction]:
        cn, cd = p_is_const(self.num), p_is_const(self.den)
        if cn is not None and cd is not None and cd != 0:
            return cn / cd
        return None

    def single_atom(self):
        """The atom key if this is exactly one atom with coefficient 1, else None."""
        if p_is_const(self.den) == 1 and len(self.num) == 1:
            (m, c), = self.num.items()
            if c == 1 and len(m) == 1 and m[0][1] == 1:
                return m[0][0]
        return None

    def atoms(self) -> set:
        return p_atoms(self.num) | p_atoms(self.den)

    def key(self):
        if self._key is None:
            self._key = ('rf', tuple(sorted(((m, str(c)) for m, c in self.num.items()), key=repr)),
                         tuple(sorted(((m, str(c)) for m, c in self.den.items()), key=repr)))
        return self._key

    def __hash__(self):
        return hash(self.key())

    def __eq__(self, o):
        return isinstance(o, RF) and self.key() == o.key()

    def subst(self, mapping) -> 'RF':
        """Replace atoms by RFs (mapping: atomkey -> RF)."""
        def poly(p: Poly) -> RF:
            tot = RF.const(0)
            for m, c in p.items():
                t = RF.const(c)
                for k, e in m:
                    t = t * (mapping[k] if k in mapping else RF.atom(k)).ipow(e)
                tot = tot + t
            return tot
        return poly(self.num) / poly(self.den)

    def __repr__(self):
        return fmt_rf(self)


def fmt_atom(a) -> str:
    if isinstance(a, tuple) and a:
        t = a[0]
        if t == 'var':
            return str(a[1])
        if t == 'attr':
            return f'{fmt_key(a[1])}.{a[2]}' + (f'@{a[3]}' if len(a) > 3 and a[3] else '')
        if t == 'sub':
            return f'{fmt_key(a[1])}[{fmt_key(a[2])}]' + (f'@{a[3]}' if len(a) > 3 and a[3] else '')
        if t == 'pow':
            return f'pow({fmt_key(a[1])}, {fmt_key(a[2])})'
        if t == 'abs':
            return f'|{fmt_key(a[1])}|'
        if t in ('min', 'max'):
            return f'{t}(' + ', '.join(sorted(fmt_key(x) for x in a[1])) + ')'
        if t == 'const':
            return str(a[1])
        if t == 'call':
            return f'{a[1]}(' + ', '.join(fmt_key(x) for x in a[2]) + ')' + (f'#{a[3]}' if len(a) > 3 else '')
        if t == 'fresh':
            return f'new {a[1]}#{a[2]}'
        if t == 'iter':
            return f'iter{a[2]}({a[1]})'
        if t == 'str':
            return repr(a[1])
    return str(a)


def fmt_key(k) -> str:
    if isinstance(k, RF):
        return fmt_rf(k)
    if isinstance(k, tuple) and k and k[0] == 'rf':
        return fmt_rf(RF({m: Fraction(c) for m, c in k[1]}, {m: Fraction(c) for m, c in k[2]}))
    if isinstance(k, tuple) and k and k[0] == 'tuple':
        return '(' + ', '.join(fmt_key(x) for x in k[1]) + ')'
    return fmt_atom(k)


def fmt_poly(p: Poly) -> str:
    if not p:
        return '0'
    parts = []
    for m, c in sorted(p.items(), key=lambda t: repr(t[0])):
        fs = []
        for k, e in m:
            s = fmt_atom(k)
            fs.append(s if e == 1 else f'{s}^{e}')
        body = '*'.join(fs)
        if not body:
            parts.append(str(c))
        elif c == 1:
            parts.append(body)
        elif c == -1:
            parts.append('-' + body)
        else:
            parts.append(f'{c}*{body}')
    return ' + '.join(parts).replace('+ -', '- ')


def fmt_rf(r: RF) -> str:
    if p_is_const(r.den) == 1:
        return fmt_poly(r.num)
    return f'({fmt_poly(r.num)}) / ({fmt_poly(r.den)})'


# ----------------------------------------------------------------------------
# helpers used by the expression translator
# ----------------------------------------------------------------------------
INF = ('const', 'inf')
NONE = ('const', 'None')
TRUE = ('const', 'True')
FALSE = ('const', 'False')


def rf_inf() -> RF:
    return RF.atom(INF)


def rf_pow(base: RF, exp: RF) -> RF:
    c = exp.const_value()
    if c is not None and c.denominator == 1 and abs(c.numerator) <= 16:
        return base.ipow(int(c))
    bc = base.const_value()
    if bc is not None and c is not None and bc > 0:
        # rational power of a constant: keep symbolic unless exact
        pass
    return RF.atom(('pow', base.key(), exp.key()))


def rf_abs(x: RF) -> RF:
    c = x.const_value()
    if c is not None:
        return RF.const(abs(c))
    a, b = x.key(), (-x).key()
    return RF.atom(('abs', min(a, b, key=repr)))


def rf_minmax(kind: str, xs: Iterable[RF]) -> RF:
    xs = list(xs)
    cs = [x.const_value() for x in xs]
    if all(c is not None for c in cs) and cs:
        return RF.const(min(cs) if kind == 'min' else max(cs))
    return RF.atom((kind, frozenset(x.key() for x in xs)))


# ----------------------------------------------------------------------------
# guard literals
# ----------------------------------------------------------------------------
class Lit:
    """Atomic guard:  ('cmp', op, rf)  meaning rf op 0, op in < <= == != ;
    ('isnone', key, pol) ; ('truth', key, pol) ; ('opaque', text, pol)."""
    __slots__ = ('kind', 'op', 'rf', 'key', 'pol', 'text')

    def __init__(self, kind, op=None, rf=None, key=None, pol=True, text=''):
        self.kind, self.op, self.rf, self.key, self.pol, self.text = kind, op, rf, key, pol, text

    @staticmethod
    def cmp(op: str, lhs: RF, rhs: RF) -> 'Lit':
        """lhs op rhs with op in < <= > >= == != (is / is not on numbers map to == / !=)."""
        if op in ('>', '>='):
            lhs, rhs = rhs, lhs
            op = '<' if op == '>' else '<='
        d = lhs - rhs
        if op in ('==', '!='):
            # canonical sign
            a, b = d.key(), (-d).key()
            if repr(b) < repr(a):
                d = -d
        return Lit('cmp', op=op, rf=d)

    def negate(self) -> 'Lit':
        if self.kind == 'cmp':
            if self.op == '<':       # not (d < 0)  ==  -d <= 0
                return Lit('cmp', op='<=', rf=-self.rf)
            if self.op == '<=':
                return Lit('cmp', op='<', rf=-self.rf)
            if self.op == '==':
                return Lit('cmp', op='!=', rf=self.rf)
            return Lit('cmp', op='==', rf=self.rf)
        return Lit(self.kind, key=self.key, pol=not self.pol, text=self.text)

    def const_truth(self) -> Optional[bool]:
        if self.kind == 'cmp':
            c = self.rf.const_value()
            if c is None:
                return None
            return {'<': c < 0, '<=': c <= 0, '==': c == 0, '!=': c != 0}[self.op]
        if self.kind == 'isnone':
            if self.key == NONE:
                return self.pol
            if isinstance(self.key, tuple) and self.key and self.key[0] in ('fresh', 'str', 'rf'):
                return not self.pol
            if self.key in (TRUE, FALSE):
                return not self.pol
            return None
        if self.kind == 'truth':
            if self.key == TRUE:
                return self.pol
            if self.key in (FALSE, NONE):
                return not self.pol
            if isinstance(self.key, tuple) and self.key and self.key[0] == 'rf':
                rf = RF({m: Fraction(c) for m, c in self.key[1]}, {m: Fraction(c) for m, c in self.key[2]})
                c = rf.const_value()
                if c is not None:
                    return (c != 0) == self.pol
            if isinstance(self.key, tuple) and self.key and self.key[0] == 'fresh':
                return self.pol
            return None
        return None

    def ident(self):
        """Key identifying the underlying proposition and its polarity-normalised form."""
        if self.kind == 'cmp':
            return ('cmp', self.op, self.rf.key())
        return (self.kind, self.key, self.text, self.pol)

    def contradicts(self, o: 'Lit') -> bool:
        if self.kind != o.kind:
            return False
        if self.kind == 'cmp':
            n = o.negate()
            if n.op == self.op and n.rf.equals(self.rf):
                return True
            # d < 0 contradicts d == 0 and -d < 0 / -d <= 0
            if self.op == '==' and o.op == '!=' and (self.rf.equals(o.rf)):
                return True
            if self.op == '!=' and o.op == '==' and (self.rf.equals(o.rf)):
                return True
            if self.op == '<' and o.op == '==' and (self.rf.equals(o.rf) or self.rf.equals(-o.rf)):
                return True
            if self.op == '==' and o.op == '<' and (self.rf.equals(o.rf) or self.rf.equals(-o.rf)):
                return True
            if self.op == '<' and o.op == '<' and self.rf.equals(-o.rf):
                return True
            return False
        return self.key == o.key and self.text == o.text and self.pol != o.pol

    def same(self, o: 'Lit') -> bool:
        if self.kind != o.kind:
            return False
        if self.kind == 'cmp':
            return self.op == o.op and self.rf.equals(o.rf)
        return self.key == o.key and self.text == o.text and self.pol == o.pol

    def __repr__(self):
        if self.kind == 'cmp':
            return f'{fmt_rf(self.rf)} {self.op} 0'
        if self.kind == 'isnone':
            return f'{fmt_key(self.key)} is {"" if self.pol else "not "}None'
        if self.kind == 'truth':
            return f'{"" if self.pol else "not "}{fmt_key(self.key)}'
        return f'{"" if self.pol else "not "}<{self.text}>'
