"""E2/E4 - path summaries: every acyclic path of a function (loops unrolled a
bounded number of times, callees optionally inlined) as a sequence of *events*
(calls, stores, guards, allocations) over normalised symbolic values.

This is forward substitution / value numbering along syntactic paths.  No path
condition is ever handed to a solver; a path is dropped only when a guard folds
to a constant or syntactically contradicts a guard already on the path.
"""
from __future__ import annotations

import ast
from fractions import Fraction
from typing import Callable, Dict, List, Optional, Set, Tuple

from .algebra import (FALSE, INF, NONE, RF, TRUE, Lit, fmt_key, rf_abs, rf_inf, rf_minmax, rf_pow)
from .index import AnalysisError, ClassInfo, FuncInfo, Index, ModuleInfo, mangle
from .pta import PTA

MAX_PATHS = 4096


class TupleVal:
    __slots__ = ('items', 'kind')

    def __init__(self, items, kind='tuple'):
        self.items = list(items)
        self.kind = kind

    def key(self):
        return ('tuple', tuple(key_of(x) for x in self.items))

    def __repr__(self):
        return '(' + ', '.join(repr(x) for x in self.items) + ')'


class CompVal:
    """[elt for _ in iter]; with lam set: map(lam, iter) - the element is computed when the value is iterated"""
    __slots__ = ('elt', 'iter', 'line', 'lam')

    def __init__(self, elt, it, line, lam=None):
        self.elt, self.iter, self.line, self.lam = elt, it, line, lam

    def key(self):
        if self.lam is not None:
            return ('comp', self.lam.key(), key_of(self.iter))
        return ('comp', key_of(self.elt), key_of(self.iter))

    def __repr__(self):
        return f'[{self.elt!r} for _ in {self.iter!r}]'


def key_of(v):
    if isinstance(v, RF):
        a = v.single_atom()
        return a if a is not None else v.key()
    if isinstance(v, (TupleVal, CompVal)) or type(v).__name__ == 'LambdaVal':
        return v.key()
    if v is None:
        return NONE
    return ('?', repr(v))


def atomv(key) -> RF:
    return RF.atom(key)


def show(v) -> str:
    if isinstance(v, RF):
        return repr(v)
    return repr(v)


class Event:
    __slots__ = ('kind', 'func', 'node', 'depth', 'd')

    def __init__(self, kind, func, node, depth, **d):
        self.kind, self.func, self.node, self.depth, self.d = kind, func, node, depth, d

    def __getattr__(self, k):
        try:
            return self.d[k]
        except KeyError:
            raise AttributeError(k)

    def loc(self):
        return self.func.loc(self.node) if self.node is not None else self.func.loc()

    def __repr__(self):
        k = self.kind
        if k == 'call':
            return f'call {self.d["name"]}({", ".join(show(a) for a in self.d["args"])})' + \
                (' [inlined]' if self.d.get('inlined') else '')
        if k == 'store':
            return f'store {self.d["tdesc"]} := {show(self.d["value"])}'
        if k == 'guard':
            return f'guard {self.d["lit"]!r}'
        if k == 'new':
            return f'new {self.d["cls"].name}({", ".join(show(a) for a in self.d["args"])})'
        return f'{k} {self.d}'


class ExcInfo:
    __slots__ = ('type', 'implicit', 'node', 'func', 'note')

    def __init__(self, type, implicit, node, func, note=''):
        self.type, self.implicit, self.node, self.func, self.note = type, implicit, node, func, note

    def __repr__(self):
        return f'<exc {self.type or "?"}{" implicit" if self.implicit else ""} at {self.func.loc(self.node)}>'


EXC_EXCEPTION_FAMILY = {'Exception', 'RuntimeError', 'ValueError', 'TypeError', 'KeyError', 'IndexError',
                        'AttributeError', 'ZeroDivisionError', 'ArithmeticError', 'AssertionError',
                        'NotImplementedError', 'StopIteration', 'OSError', 'IOError', 'LookupError',
                        'OverflowError', 'FloatingPointError', 'NameError', 'ImportError'}
EXC_BASE_ONLY = {'KeyboardInterrupt', 'SystemExit', 'GeneratorExit', 'BaseException'}


class State:
    __slots__ = ('frames', 'heap', 'fver', 'events', 'facts', 'occ', 'truncated', 'depth')

    def __init__(self):
        self.frames: List[Tuple[FuncInfo, Dict[str, object]]] = []
        self.heap: Dict[Tuple[object, object], object] = {}
        self.fver: Dict[object, int] = {}
        self.events: List[Event] = []
        self.facts: List[Lit] = []
        self.occ: Dict[object, int] = {}
        self.truncated = False
        self.depth = 0

    def clone(self) -> 'State':
        s = State()
        s.frames = [(f, dict(env)) for f, env in self.frames]
        s.heap = dict(self.heap)
        s.fver = dict(self.fver)
        s.events = list(self.events)
        s.facts = list(self.facts)
        s.occ = dict(self.occ)
        s.truncated = self.truncated
        s.depth = self.depth
        return s

    @property
    def func(self) -> FuncInfo:
        return self.frames[-1][0]

    @property
    def env(self) -> Dict[str, object]:
        return self.frames[-1][1]

    def next_occ(self, k) -> int:
        n = self.occ.get(k, 0) + 1
        self.occ[k] = n
        return n

    def emit(self, kind, node, **d) -> Event:
        e = Event(kind, self.func, node, len(self.frames) - 1, **d)
        self.events.append(e)
        return e


class Path:
    def __init__(self, state: State, outcome, value=None, exc: Optional[ExcInfo] = None):
        self.state = state
        self.outcome = outcome          # 'return' | 'raise' | 'fall'
        self.value = value
        self.exc = exc

    @property
    def events(self) -> List[Event]:
        return self.state.events

    @property
    def guards(self) -> List[Lit]:
        return [e.d['lit'] for e in self.state.events if e.kind == 'guard']

    def top_guards(self) -> List[Lit]:
        return [e.d['lit'] for e in self.state.events if e.kind == 'guard' and e.depth == 0]

    def calls(self, name: Optional[str] = None) -> List[Event]:
        return [e for e in self.state.events if e.kind == 'call' and (name is None or e.d['name'] == name)]

    def stores(self) -> List[Event]:
        return [e for e in self.state.events if e.kind == 'store']

    def describe(self, maxn: int = 40) -> List[str]:
        out = []
        for e in self.state.events[:maxn]:
            out.append(f'{"  " * e.depth}{e.loc()}: {e!r}')
        out.append(f'=> {self.outcome}' + (f' {show(self.value)}' if self.value is not None else '') +
                   (f' {self.exc!r}' if self.exc else ''))
        return out


PURE_EXT_PREFIXES = ('math.', 'numpy.')
ALLOC_EXT = {'numpy.ndarray', 'numpy.zeros', 'numpy.ones', 'numpy.empty', 'numpy.full', 'numpy.array', 'numpy.copy',
             'numpy.asarray', 'numpy.arange', 'numpy.linspace', 'numpy.zeros_like', 'numpy.ones_like',
             'numpy.empty_like', 'numpy.full_like', 'numpy.meshgrid', 'numpy.eye', 'numpy.identity',
             'numpy.concatenate', 'numpy.stack', 'numpy.vstack', 'numpy.hstack', 'numpy.tile', 'numpy.repeat'}
IDENTITY_CALLS = {'builtins.float', 'numpy.double', 'numpy.float64', 'numpy.float32'}
POW_CALLS = {'builtins.pow', 'math.pow', 'numpy.power', 'numpy.float_power'}
ABS_CALLS = {'builtins.abs', 'math.fabs', 'numpy.abs', 'numpy.fabs', 'numpy.absolute'}
SQRT_CALLS = {'math.sqrt', 'numpy.sqrt'}
MIN_CALLS = {'builtins.min', 'numpy.minimum', 'numpy.fmin'}
MAX_CALLS = {'builtins.max', 'numpy.maximum', 'numpy.fmax'}
EXT_CONSTS = {'numpy.inf': INF, 'math.inf': INF, 'numpy.Inf': INF, 'numpy.infty': INF, 'numpy.PINF': INF,
              'math.pi': ('const', 'pi'), 'numpy.pi': ('const', 'pi'), 'math.e': ('const', 'e'),
              'sys.float_info.max': ('const', 'float_max'), 'numpy.nan': ('const', 'nan'),
              'math.nan': ('const', 'nan')}


_LIST_MUTATOR_NAMES = {'append', 'extend', 'insert', 'pop', 'remove', 'clear', 'sort', 'reverse', 'update', 'add',
                       'discard', 'setdefault', 'popitem', 'appendleft', 'popleft'}


def _is_trivial(fn: FuncInfo) -> bool:
    """Getter / setter / one-line static helper."""
    body = [s for s in fn.node.body if not (isinstance(s, ast.Expr) and isinstance(s.value, ast.Constant))]
    if (fn.is_setter or fn.is_property) and 1 <= len(body) <= 4 and \
            all(isinstance(s, (ast.Assign, ast.AnnAssign, ast.Return, ast.Pass)) for s in body):
        return True      # a property accessor made of plain assignments (e.g. one that also resets a cache)
    if len(body) != 1:
        return False
    s = body[0]
    if isinstance(s, ast.Return):
        return not any(isinstance(n, ast.Call) and not isinstance(n.func, ast.Name) for n in ast.walk(s)) or True
    if isinstance(s, (ast.Assign, ast.AnnAssign, ast.AugAssign, ast.Pass)):
        return True
    return False


def _is_private_helper(fn: FuncInfo, caller: FuncInfo) -> bool:
    """A helper extracted inside the caller's class (or its bases/subclasses) or module: _name / __name."""
    if not fn.name.startswith('_') or (fn.name.startswith('__') and fn.name.endswith('__')):
        return False
    if fn.cls is None:
        return fn.module is caller.module
    if caller.cls is None:
        return False
    return fn.cls.is_subclass_of(caller.cls) or caller.cls.is_subclass_of(fn.cls)


def desugar_match(st: ast.Match):
    """match <subject>: case <literal | a | b | (p, q) | _ | name> [if guard]: ...  as the if/elif chain it
    abbreviates (the subject is a name, an attribute chain or a tuple display of such: evaluated without effects).
    None for patterns outside this subset (class, mapping and star patterns)."""
    subj = st.subject

    def simple(e) -> bool:
        return isinstance(e, (ast.Name, ast.Constant)) or (isinstance(e, ast.Attribute) and simple(e.value)) or \
            (isinstance(e, ast.Subscript) and simple(e.value) and isinstance(e.slice, ast.Constant))
    if not (simple(subj) or (isinstance(subj, ast.Tuple) and all(simple(x) for x in subj.elts))):
        return None

    def cond(pat, expr):
        """(test expression or None for 'always', [(name, expr)] bindings) or False when unsupported."""
        if isinstance(pat, ast.MatchValue):
            return ast.Compare(left=expr, ops=[ast.Eq()], comparators=[pat.value]), []
        if isinstance(pat, ast.MatchSingleton):
            return ast.Compare(left=expr, ops=[ast.Is()], comparators=[ast.Constant(value=pat.value)]), []
        if isinstance(pat, ast.MatchAs):
            if pat.pattern is None:
                return None, ([(pat.name, expr)] if pat.name else [])
            r = cond(pat.pattern, expr)
            if r is False:
                return False
            return r[0], r[1] + ([(pat.name, expr)] if pat.name else [])
        if isinstance(pat, ast.MatchOr):
            tests = []
            for q in pat.patterns:
                r = cond(q, expr)
                if r is False or r[1]:
                    return False
                if r[0] is None:
                    return None, []
                tests.append(r[0])
            return ast.BoolOp(op=ast.Or(), values=tests), []
        if isinstance(pat, ast.MatchSequence) and isinstance(expr, ast.Tuple) and len(pat.patterns) == len(expr.elts) \
                and not any(isinstance(q, ast.MatchStar) for q in pat.patterns):
            tests, binds = [], []
            for q, x in zip(pat.patterns, expr.elts):
                r = cond(q, x)
                if r is False:
                    return False
                if r[0] is not None:
                    tests.append(r[0])
                binds += r[1]
            if not tests:
                return None, binds
            return (tests[0] if len(tests) == 1 else ast.BoolOp(op=ast.And(), values=tests)), binds
        return False
    chain = None
    tail = None
    for case in st.cases:
        r = cond(case.pattern, subj)
        if r is False:
            return None
        test, binds = r
        body = [ast.Assign(targets=[ast.Name(id=n, ctx=ast.Store())], value=x) for n, x in binds] + list(case.body)
        if case.guard is not None:
            if binds:
                return None         # a guard that reads the captures: not in the subset
            test = case.guard if test is None else ast.BoolOp(op=ast.And(), values=[test, case.guard])
        if test is None:
            node = body             # irrefutable case: the else branch
        else:
            node = [ast.If(test=test, body=body, orelse=[])]
        if chain is None:
            chain = node
        else:
            tail.orelse = node
        if test is None:
            break
        tail = node[0]
    for n in (chain or []):
        ast.copy_location(n, st)
        ast.fix_missing_locations(n)
    return chain or []


class LambdaVal:
    __slots__ = ('node', 'env', 'func')

    def __init__(self, node, env, func):
        self.node, self.env, self.func = node, env, func

    def key(self):
        return ('lambda', getattr(self.node, 'lineno', 0), getattr(self.node, 'col_offset', 0))

    def __repr__(self):
        return f'<lambda@{getattr(self.node, "lineno", 0)}>'


class Explorer:
    def __init__(self, ix: Index, pta: PTA,
                 inline: Optional[Callable[[FuncInfo, State], bool]] = None,
                 may_raise: Optional[Callable[[Event], bool]] = None,
                 unroll: int = 2, max_depth: int = 5, max_paths: int = MAX_PATHS,
                 inline_ctor: bool = True, alias: str = 'distinct', inline_private: bool = True,
                 opaque=(), cold_fields=None, on_cold_read=None, self_cls=None, cold_invalidators=None):
        self.ix, self.pta = ix, pta
        self._inline = inline
        self._may_raise = may_raise
        self.unroll = unroll
        self.max_depth = max_depth
        self.max_paths = max_paths
        self.inline_ctor = inline_ctor
        self.alias = alias            # 'distinct': different symbolic bases denote different objects; 'may'
        self.inline_private = inline_private   # helpers extracted inside a class are looked through
        self.opaque = set(opaque)
        # lazily cached derived attributes (mangled names): their entry state is "empty" (None) - the analysis
        # follows the cold computation; coherence of the caches is a separate obligation (rules/caches.py)
        # concrete class of the receiver the explored method runs on: calls on self dispatch through its MRO
        # (template-method hooks overridden in a subclass)
        self.self_cls = self_cls
        self.cold_fields = set(cold_fields or ())
        self.on_cold_read = on_cold_read
        # field -> qualnames of the functions that invalidate it (store None); a callee that can only *fill* a
        # lazy cache cannot change a value that is already there
        self.cold_invalidators = dict(cold_invalidators or {})
        self._writes_cache: Dict[str, Set[object]] = {}
        self._npaths = 0
        self.dropped = 0

    # ------------------------------------------------------------------
    def want_inline(self, fn: FuncInfo, st: State) -> bool:
        if len(st.frames) > self.max_depth:
            return False
        if any(f is fn for f, _ in st.frames):
            return False                      # no recursive inlining
        if fn.kind != 'function':
            return False
        if fn in self.opaque:
            return False
        if _is_trivial(fn):
            return True
        if self._inline is not None and self._inline(fn, st):
            return True
        if self.inline_private and _is_private_helper(fn, st.func):
            return True
        return False

    def explore(self, fn: FuncInfo, args: Optional[Dict[str, object]] = None,
                heap: Optional[Dict[Tuple[object, object], object]] = None) -> List[Path]:
        st = State()
        if heap:
            st.heap.update(heap)
        env: Dict[str, object] = {}
        for p in fn.param_names + [a.arg for a in fn.kwonly]:
            env[p] = atomv(('var', p))
        if args:
            env.update(args)
        st.frames.append((fn, env))
        self._npaths = 0
        res = self.run_block(fn.node.body, [st])
        out = []
        for s, oc in res:
            if oc is None:
                out.append(Path(s, 'fall', atomv(NONE)))
            elif oc[0] == 'return':
                out.append(Path(s, 'return', oc[1]))
            elif oc[0] == 'raise':
                out.append(Path(s, 'raise', None, oc[1]))
            else:
                out.append(Path(s, 'fall', atomv(NONE)))
        return out

    # ------------------------------------------------------------------
    # statements.  run_block: [State] -> [(State, outcome)], outcome None | ('return', v) | ('raise', exc)
    #                                                          | ('break',) | ('continue',)
    # ------------------------------------------------------------------
    def _check_budget(self, n):
        if n > self.max_paths:
            raise AnalysisError(f'path budget exceeded ({n} > {self.max_paths})')

    def run_block(self, stmts, states):
        live = [(s, None) for s in states]
        for stmt in stmts:
            nxt = []
            for s, oc in live:
                if oc is not None:
                    nxt.append((s, oc))
                    continue
                nxt.extend(self.run_stmt(stmt, s))
            live = nxt
            self._check_budget(len(live))
        return live

    def run_stmt(self, st: ast.stmt, s: State):
        f = s.func
        if isinstance(st, ast.Expr):
            if isinstance(st.value, ast.Constant):
                return [(s, None)]
            return [(s2, ('raise', exc) if exc else None) for s2, v, exc in self.ev(st.value, s)]
        if isinstance(st, (ast.Assign, ast.AnnAssign)):
            if isinstance(st, ast.AnnAssign) and st.value is None:
                return [(s, None)]
            targets = st.targets if isinstance(st, ast.Assign) else [st.target]
            out = []
            for s2, v, exc in self.ev(st.value, s):
                if exc:
                    out.append((s2, ('raise', exc)))
                    continue
                cur = [(s2, None)]
                for t in targets:
                    nxt = []
                    for s3, oc in cur:
                        if oc is not None:
                            nxt.append((s3, oc))
                        else:
                            nxt.extend(self.assign(t, v, s3, st))
                    cur = nxt
                out.extend(cur)
            return out
        if isinstance(st, ast.AugAssign):
            load = _as_load(st.target)
            binop = ast.BinOp(left=load, op=st.op, right=st.value)
            ast.copy_location(binop, st)
            out = []
            for s2, v, exc in self.ev(binop, s):
                if exc:
                    out.append((s2, ('raise', exc)))
                else:
                    out.extend(self.assign(st.target, v, s2, st, aug=True))
            return out
        if isinstance(st, ast.Return):
            if st.value is None:
                s.emit('return', st, value=atomv(NONE))
                return [(s, ('return', atomv(NONE)))]
            out = []
            for s2, v, exc in self.ev(st.value, s):
                if exc:
                    out.append((s2, ('raise', exc)))
                else:
                    s2.emit('return', st, value=v)
                    out.append((s2, ('return', v)))
            return out
        if isinstance(st, ast.If):
            out = []
            for s2, truth, exc in self.branch(st.test, s):
                if exc:
                    out.append((s2, ('raise', exc)))
                elif truth:
                    out.extend(self.run_block(st.body, [s2]))
                else:
                    out.extend(self.run_block(st.orelse, [s2]))
            return out
        if isinstance(st, ast.While):
            return self.run_while(st, s)
        if isinstance(st, ast.For):
            return self.run_for(st, s)
        if isinstance(st, ast.Raise):
            tname = None
            out = []
            if st.exc is None:
                exc = ExcInfo(None, False, st, f, 're-raise')
                s.emit('raise', st, exc=exc)
                return [(s, ('raise', exc))]
            e = st.exc
            tn = e.func if isinstance(e, ast.Call) else e
            if isinstance(tn, ast.Name):
                tname = tn.id
            elif isinstance(tn, ast.Attribute):
                tname = tn.attr
            args = e.args if isinstance(e, ast.Call) else []
            for s2, vals, exc in self.ev_many(args, s):
                if exc:
                    out.append((s2, ('raise', exc)))
                    continue
                x = ExcInfo(tname, False, st, f)
                s2.emit('raise', st, exc=x)
                out.append((s2, ('raise', x)))
            return out
        if isinstance(st, ast.Try):
            return self.run_try(st, s)
        if isinstance(st, ast.With):
            cur = [(s, None)]
            for item in st.items:
                nxt = []
                for s2, oc in cur:
                    if oc is not None:
                        nxt.append((s2, oc))
                        continue
                    for s3, v, exc in self.ev(item.context_expr, s2):
                        if exc:
                            nxt.append((s3, ('raise', exc)))
                        elif item.optional_vars is not None:
                            nxt.extend(self.assign(item.optional_vars, v, s3, st))
                        else:
                            nxt.append((s3, None))
                cur = nxt
            out = []
            for s2, oc in cur:
                if oc is not None:
                    out.append((s2, oc))
                else:
                    out.extend(self.run_block(st.body, [s2]))
            return out
        if isinstance(st, ast.Assert):
            out = []
            for s2, truth, exc in self.branch(st.test, s):
                if exc:
                    out.append((s2, ('raise', exc)))
                elif truth:
                    out.append((s2, None))
                else:
                    x = ExcInfo('AssertionError', False, st, f)
                    out.append((s2, ('raise', x)))
            return out
        if isinstance(st, ast.Break):
            return [(s, ('break',))]
        if isinstance(st, ast.Continue):
            return [(s, ('continue',))]
        if isinstance(st, (ast.Pass, ast.Import, ast.ImportFrom, ast.Global, ast.Nonlocal)):
            return [(s, None)]
        if isinstance(st, ast.Delete):
            s.emit('delete', st)
            return [(s, None)]
        if isinstance(st, (ast.FunctionDef, ast.AsyncFunctionDef, ast.ClassDef)):
            s.env[st.name] = atomv(('localdef', st.name, st.lineno))
            return [(s, None)]
        if isinstance(st, ast.Match):
            chain = desugar_match(st)
            if chain is not None:
                return self.run_block(chain, [s])
        raise AnalysisError(f'{f.loc(st)}: statement {type(st).__name__} is outside the modelled subset')

    def run_while(self, st: ast.While, s: State):
        out = []
        live = [s]
        for k in range(self.unroll + 1):
            nxt = []
            for cur in live:
                for s2, truth, exc in self.branch(st.test, cur):
                    if exc:
                        out.append((s2, ('raise', exc)))
                    elif not truth:
                        out.extend(self.run_block(st.orelse, [s2]) if st.orelse else [(s2, None)])
                    else:
                        if k == self.unroll:
                            self.dropped += 1          # more iterations than the unrolling bound: not explored
                            continue
                        s2.emit('iter', st, loop=st.lineno, k=k)
                        for s3, oc in self.run_block(st.body, [s2]):
                            if oc is None or oc[0] == 'continue':
                                nxt.append(s3)
                            elif oc[0] == 'break':
                                out.append((s3, None))
                            else:
                                out.append((s3, oc))
            live = nxt
            self._check_budget(len(out) + len(live))
            if not live:
                break
        return out

    def run_for(self, st: ast.For, s: State):
        out = []
        for s0, itv, exc in self.ev(st.iter, s):
            if exc:
                out.append((s0, ('raise', exc)))
                continue
            items = itv.items if (isinstance(itv, TupleVal) and len(itv.items) <= 8) else None
            if items is None and isinstance(itv, RF):
                ra = itv.single_atom()
                if isinstance(ra, tuple) and ra and ra[0] == 'range' and 2 <= len(ra) <= 3:
                    bounds = [C_.const_value() for C_ in (rf_of_key(k_) for k_ in ra[1:])]
                    if all(b is not None and b.denominator == 1 for b in bounds):
                        lo, hi = (0, int(bounds[0])) if len(bounds) == 1 else (int(bounds[0]), int(bounds[1]))
                        if 0 <= hi - lo <= 4:
                            items = [RF.const(i) for i in range(lo, hi)]
            mapped = itv.lam if isinstance(itv, CompVal) and itv.lam is not None else None
            if mapped is not None:
                itv = itv.iter       # for t in map(lambda x: E, IT): ranges over IT, t = E[x := element]
            live = [s0]
            k = 0
            while live:
                nxt = []
                for cur in live:
                    can_exit = items is None or k >= len(items)
                    can_iter = (k < self.unroll) if items is None else (k < len(items))
                    if can_exit:
                        ex = cur.clone() if can_iter else cur
                        ex.emit('loopexit', st, loop=st.lineno, k=k)
                        out.extend(self.run_block(st.orelse, [ex]) if st.orelse else [(ex, None)])
                    if not can_iter:
                        if not can_exit:
                            self.dropped += 1
                        continue
                    lv = items[k] if items is not None else atomv(('iter', f'{st.lineno}', k, key_of(itv)))
                    cur.emit('iter', st, loop=st.lineno, k=k, var=lv)
                    if mapped is not None:
                        starts = []
                        # the body belongs to the function that wrote the lambda: evaluate it in a frame of that
                        # function (call resolution is per function)
                        fenv = dict(mapped.env)
                        fenv[mapped.node.args.args[0].arg] = lv
                        cur.frames.append((mapped.func, fenv))
                        for s2, v2, exc2 in self.ev(mapped.node.body, cur):
                            s2.frames.pop()
                            if exc2:
                                out.append((s2, ('raise', exc2)))
                            else:
                                starts.append((s2, v2))
                    else:
                        starts = [(cur, lv)]
                    for s1, lv1 in starts:
                      for s2, oc0 in self.assign(st.target, lv1, s1, st, silent=True):
                        if oc0 is not None:
                            out.append((s2, oc0))
                            continue
                        for s3, oc in self.run_block(st.body, [s2]):
                            if oc is None or oc[0] == 'continue':
                                nxt.append(s3)
                            elif oc[0] == 'break':
                                out.append((s3, None))
                            else:
                                out.append((s3, oc))
                live = nxt
                k += 1
                self._check_budget(len(out) + len(live))
        return out

    def run_try(self, st: ast.Try, s: State):
        body = self.run_block(st.body, [s])
        mid = []
        for s2, oc in body:
            if oc is not None and oc[0] == 'raise':
                mid.extend(self.dispatch_handlers(st, s2, oc[1]))
            elif oc is None and st.orelse:
                mid.extend(self.run_block(st.orelse, [s2]))
            else:
                mid.append((s2, oc))
        if not st.finalbody:
            return mid
        out = []
        for s2, oc in mid:
            for s3, oc2 in self.run_block(st.finalbody, [s2]):
                out.append((s3, oc2 if oc2 is not None else oc))
        return out

    def dispatch_handlers(self, st: ast.Try, s: State, exc: ExcInfo):
        out = []
        remaining = [(s, exc)]
        for h in st.handlers:
            names = _handler_names(h)
            nxt = []
            for cur, x in remaining:
                verdict = _catches(names, x)
                if verdict == 'no':
                    nxt.append((cur, x))
                    continue
                caught = cur
                if verdict == 'maybe':
                    # unknown exception type: it may or may not be in the handler's family
                    miss = cur.clone()
                    nxt.append((miss, ExcInfo(x.type, x.implicit, x.node, x.func,
                                              note=f'not caught by except {"/".join(names)}')))
                caught.emit('catch', h, handler=names, exc=x)
                if h.name:
                    caught.env[h.name] = atomv(('exc', h.lineno))
                out.extend(self.run_block(h.body, [caught]))
            remaining = nxt
            if not remaining:
                break
        for cur, x in remaining:
            out.append((cur, ('raise', x)))
        return out

    # ------------------------------------------------------------------
    # assignment
    # ------------------------------------------------------------------
    def assign(self, t: ast.expr, v, s: State, node, aug: bool = False, silent: bool = False):
        f = s.func
        if isinstance(t, ast.Name):
            s.env[t.id] = v
            if not silent:
                s.emit('store', node, tkind='name', base=None, field=t.id, value=v, aug=aug,
                       tdesc=t.id, target=t)
            return [(s, None)]
        if isinstance(t, ast.Attribute):
            out = []
            for s2, b, exc in self.ev(t.value, s):
                if exc:
                    out.append((s2, ('raise', exc)))
                    continue
                setter = self.property_setter(s2.func, t)
                if setter is not None and self.want_inline(setter, s2):
                    out.extend((s3, ('raise', x) if x else None)
                               for s3, _, x in self.inline_call(setter, b, [v], {}, s2, node))
                    continue
                fld = mangle(f.cls.name if f.cls else None, t.attr)
                bk = key_of(b)
                if self.alias == 'may':
                    self._bump_other_bases(s2, bk, fld)
                s2.heap[(bk, fld)] = v
                s2.emit('store', node, tkind='attr', base=b, field=fld, value=v, aug=aug,
                        tdesc=f'{fmt_key(bk)}.{fld}', target=t)
                out.append((s2, None))
            return out
        if isinstance(t, ast.Subscript):
            out = []
            for s2, vals, exc in self.ev_many([t.value, t.slice], s):
                if exc:
                    out.append((s2, ('raise', exc)))
                    continue
                b, i = vals
                bk, ik = key_of(b), key_of(i)
                # a store through one index may alias other (symbolic) indices of the same base
                s2.fver[('[]', bk)] = s2.fver.get(('[]', bk), 0) + 1
                for hk in [hk for hk in s2.heap if hk[0] == bk and isinstance(hk[1], tuple) and hk[1][0] == '[]']:
                    del s2.heap[hk]
                s2.heap[(bk, ('[]', ik))] = v
                s2.emit('store', node, tkind='sub', base=b, field=i, value=v, aug=aug,
                        tdesc=f'{fmt_key(bk)}[{fmt_key(ik)}]', target=t)
                out.append((s2, None))
            return out
        if isinstance(t, (ast.Tuple, ast.List)):
            cur = [(s, None)]
            for i, el in enumerate(t.elts):
                if isinstance(v, TupleVal) and i < len(v.items) and not any(isinstance(x, ast.Starred) for x in t.elts):
                    part = v.items[i]
                else:
                    part = atomv(('sub', key_of(v), RF.const(i).key(), 0))
                nxt = []
                for s2, oc in cur:
                    if oc is not None:
                        nxt.append((s2, oc))
                    else:
                        nxt.extend(self.assign(el, part, s2, node, silent=silent))
                cur = nxt
            return cur
        if isinstance(t, ast.Starred):
            return self.assign(t.value, v, s, node, silent=silent)
        raise AnalysisError(f'{f.loc(node)}: assignment target {type(t).__name__} is outside the modelled subset')

    def _bump_other_bases(self, s: State, bk, fld):
        """A store to X.f may alias Y.f for another symbolic base Y: forget what is known about Y.f."""
        stale = [hk for hk in s.heap if hk[1] == fld and hk[0] != bk]
        if stale:
            for hk in stale:
                del s.heap[hk]
        s.fver[fld] = s.fver.get(fld, 0) + 1

    # ------------------------------------------------------------------
    # expressions: ev -> [(State, value, exc)]
    # ------------------------------------------------------------------
    def ev_many(self, exprs, s: State):
        res = [(s, [], None)]
        for e in exprs:
            nxt = []
            for st, vals, exc in res:
                if exc:
                    nxt.append((st, vals, exc))
                    continue
                for s2, v, exc2 in self.ev(e, st):
                    nxt.append((s2, vals + [v], exc2))
            res = nxt
        return res

    def ev(self, e: ast.expr, s: State):
        f = s.func
        if isinstance(e, ast.Constant):
            return [(s, self.const(e.value), None)]
        if isinstance(e, ast.Name):
            return [(s, self.name(e.id, s), None)]
        if isinstance(e, ast.Attribute):
            return self.ev_attr(e, s)
        if isinstance(e, ast.Subscript):
            out = []
            for s2, vals, exc in self.ev_many([e.value, e.slice], s):
                if exc:
                    out.append((s2, None, exc))
                    continue
                b, i = vals
                out.append((s2, self.read_sub(s2, b, i), None))
            return out
        if isinstance(e, ast.Slice):
            out = []
            parts = [p if p is not None else ast.Constant(value=None) for p in (e.lower, e.upper, e.step)]
            for s2, vals, exc in self.ev_many(parts, s):
                out.append((s2, atomv(('slice',) + tuple(key_of(v) for v in vals)) if not exc else None, exc))
            return out
        if isinstance(e, ast.BinOp):
            out = []
            for s2, vals, exc in self.ev_many([e.left, e.right], s):
                if exc:
                    out.append((s2, None, exc))
                    continue
                out.append((s2, self.binop(e.op, vals[0], vals[1], e, s2), None))
            return out
        if isinstance(e, ast.UnaryOp):
            if isinstance(e.op, ast.Not):
                out = []
                for s2, truth, exc in self.branch(e, s):
                    out.append((s2, atomv(TRUE if truth else FALSE) if not exc else None, exc))
                return out
            out = []
            for s2, v, exc in self.ev(e.operand, s):
                if exc:
                    out.append((s2, None, exc))
                elif isinstance(e.op, ast.USub) and isinstance(v, RF):
                    out.append((s2, -v, None))
                elif isinstance(e.op, ast.UAdd):
                    out.append((s2, v, None))
                else:
                    out.append((s2, atomv(('unop', type(e.op).__name__, key_of(v))), None))
            return out
        if isinstance(e, (ast.Compare, ast.BoolOp)):
            out = []
            for s2, truth, exc in self.branch(e, s):
                out.append((s2, atomv(TRUE if truth else FALSE) if not exc else None, exc))
            return out
        if isinstance(e, ast.IfExp):
            out = []
            for s2, truth, exc in self.branch(e.test, s):
                if exc:
                    out.append((s2, None, exc))
                else:
                    out.extend(self.ev(e.body if truth else e.orelse, s2))
            return out
        if isinstance(e, ast.Call):
            return self.ev_call(e, s)
        if isinstance(e, (ast.Tuple, ast.List)):
            out = []
            if any(isinstance(x, ast.Starred) for x in e.elts):
                for s2, vals, exc in self.ev_many([x.value if isinstance(x, ast.Starred) else x for x in e.elts], s):
                    out.append((s2, atomv(('display', e.lineno, tuple(key_of(v) for v in vals))) if not exc else None,
                                exc))
                return out
            if len(e.elts) > 16:
                return [(s, atomv(('display', e.lineno, len(e.elts))), None)]
            for s2, vals, exc in self.ev_many(e.elts, s):
                out.append((s2, TupleVal(vals, 'list' if isinstance(e, ast.List) else 'tuple') if not exc else None,
                            exc))
            return out
        if isinstance(e, (ast.Dict, ast.Set)):
            vals_e = [v for v in (e.values if isinstance(e, ast.Dict) else e.elts)]
            out = []
            for s2, vals, exc in self.ev_many(vals_e, s):
                out.append((s2, atomv(('display', e.lineno, tuple(key_of(v) for v in vals))) if not exc else None, exc))
            return out
        if isinstance(e, (ast.ListComp, ast.GeneratorExp, ast.SetComp)):
            if len(e.generators) == 1 and not e.generators[0].ifs:
                g = e.generators[0]
                out = []
                for s2, itv, exc in self.ev(g.iter, s):
                    if exc:
                        out.append((s2, None, exc))
                        continue
                    saved = dict(s2.env)
                    lv = atomv(('iter', f'{e.lineno}c', 0, key_of(itv)))
                    res = self.assign(g.target, lv, s2, e, silent=True)
                    for s3, _ in res:
                        for s4, ev_, exc2 in self.ev(e.elt, s3):
                            for n in _names_in(g.target):
                                if n in saved:
                                    s4.env[n] = saved[n]
                                else:
                                    s4.env.pop(n, None)
                            out.append((s4, CompVal(ev_, itv, e.lineno) if not exc2 else None, exc2))
                return out
            return [(s, atomv(('comp', e.lineno)), None)]
        if isinstance(e, ast.DictComp):
            return [(s, atomv(('comp', e.lineno)), None)]
        if isinstance(e, ast.JoinedStr):
            return [(s, atomv(('str', '<f-string>')), None)]
        if isinstance(e, ast.Lambda):
            return [(s, LambdaVal(e, dict(s.env), s.func), None)]
        if isinstance(e, ast.Starred):
            return self.ev(e.value, s)
        if isinstance(e, ast.NamedExpr):
            out = []
            for s2, v, exc in self.ev(e.value, s):
                if not exc:
                    s2.env[e.target.id] = v
                out.append((s2, v, exc))
            return out
        raise AnalysisError(f'{f.loc(e)}: expression {type(e).__name__} is outside the modelled subset')

    def const(self, c):
        if c is None:
            return atomv(NONE)
        if c is True:
            return atomv(TRUE)
        if c is False:
            return atomv(FALSE)
        if isinstance(c, int):
            return RF.const(c)
        if isinstance(c, float):
            if c != c or c in (float('inf'), float('-inf')):
                return rf_inf() if c > 0 else -rf_inf()
            return RF.const(Fraction(repr(c)))
        if isinstance(c, str):
            return atomv(('str', c))
        return atomv(('lit', repr(c)))

    def name(self, n: str, s: State):
        if n in s.env:
            return s.env[n]
        f = s.func
        if f.kind == 'function' and n in self.pta.locals_of(f):
            return atomv(('unbound', n))
        r = self.ix.resolve_global(f.module, n)
        return self.global_value(r, n, f.module)

    def global_value(self, r, n, m: ModuleInfo):
        if r is None:
            return atomv(('builtin', n))
        if isinstance(r, ClassInfo):
            return atomv(('class', r.qualname))
        if isinstance(r, FuncInfo):
            return atomv(('func', r.qualname))
        if isinstance(r, ModuleInfo):
            return atomv(('module', r.name))
        if isinstance(r, tuple):
            if r[0] == 'global':
                c = self.module_const(r[1], r[2])
                return c if c is not None else atomv(('global', r[1].name, r[2]))
            if r[0] == 'ext':
                if r[1] in EXT_CONSTS:
                    return atomv(EXT_CONSTS[r[1]])
                return atomv(('extmod', r[1]))
        return atomv(('global?', n))

    def module_const(self, m: ModuleInfo, name: str):
        sts = m.globals.get(name, [])
        if len(sts) == 1 and isinstance(sts[0], (ast.Assign, ast.AnnAssign)) and sts[0].value is not None:
            v = sts[0].value
            if isinstance(v, ast.Constant) and isinstance(v.value, (int, float)) and not isinstance(v.value, bool):
                return self.const(v.value)
            if isinstance(v, ast.UnaryOp) and isinstance(v.op, ast.USub) and isinstance(v.operand, ast.Constant) \
                    and isinstance(v.operand.value, (int, float)):
                return -self.const(v.operand.value)
        return None

    def class_const(self, c: ClassInfo, name: str):
        for cc in c.mro():
            for st in cc.node.body:
                if isinstance(st, (ast.Assign, ast.AnnAssign)) and st.value is not None:
                    tg = st.targets if isinstance(st, ast.Assign) else [st.target]
                    if any(isinstance(t, ast.Name) and t.id == name for t in tg):
                        v = st.value
                        if isinstance(v, ast.Constant) and isinstance(v.value, (int, float)) \
                                and not isinstance(v.value, bool):
                            return self.const(v.value)
                        return None
        return None

    def ev_attr(self, e: ast.Attribute, s: State):
        out = []
        for s2, b, exc in self.ev(e.value, s):
            if exc:
                out.append((s2, None, exc))
                continue
            ba = b.single_atom() if isinstance(b, RF) else None
            if isinstance(ba, tuple) and ba:
                if ba[0] == 'extmod':
                    d = ba[1] + '.' + e.attr
                    out.append((s2, atomv(EXT_CONSTS[d]) if d in EXT_CONSTS else atomv(('extmod', d)), None))
                    continue
                if ba[0] == 'module':
                    m = self.ix.modules[ba[1]]
                    r = self.ix.resolve_global(m, e.attr)
                    if r is None and (m.name + '.' + e.attr) in self.ix.modules:
                        r = self.ix.modules[m.name + '.' + e.attr]
                    out.append((s2, self.global_value(r, e.attr, m), None))
                    continue
                if ba[0] == 'class':
                    c = self.ix.classes[ba[1]]
                    cv = self.class_const(c, e.attr)
                    if cv is not None:
                        out.append((s2, cv, None))
                        continue
                    m = c.lookup(e.attr)
                    if m is not None:
                        out.append((s2, atomv(('func', m.qualname)), None))
                        continue
                    out.append((s2, atomv(('classattr', c.qualname, e.attr)), None))
                    continue
            nti = self._nt_index(e.attr)
            if nti is not None and not isinstance(b, TupleVal):
                # an object of a repository class that is no NamedTuple has an attribute of that name of its own
                try:
                    objs = self.pta.expr_pts(s2.func, e.value)
                except Exception:
                    objs = ()
                if any(o.kind in ('inst', 'ext_inst') and o.cls is not None and o.cls.namedtuple_fields is None
                       for o in objs):
                    nti = None
            if nti is not None and (isinstance(b, TupleVal) or
                                    (isinstance(ba, tuple) and ba and ba[0] in ('call', 'sub'))):
                # a NamedTuple field read: component nti of the tuple
                out.append((s2, self.read_sub(s2, b, RF.const(nti)), None))
                continue
            getter = self.property_getter(s2.func, e)
            if getter is not None and self.want_inline(getter, s2):
                out.extend(self.inline_call(getter, b, [], {}, s2, e))
                continue
            fld = mangle(s2.func.cls.name if s2.func.cls else None, e.attr)
            out.append((s2, self.read_attr(s2, b, fld), None))
        return out

    def _nt_index(self, attr: str) -> Optional[int]:
        tab = getattr(self, '_nt_tab', None)
        if tab is None:
            tab = {}
            for c in self.ix.classes.values():
                for i, n in enumerate(c.namedtuple_fields or ()):
                    tab.setdefault(n, set()).add(i)
            self._nt_tab = tab
        idx = tab.get(attr)
        return next(iter(idx)) if idx and len(idx) == 1 else None

    def read_attr(self, s: State, b, fld):
        bk = key_of(b)
        hv = s.heap.get((bk, fld))
        if hv is not None:
            return hv
        if fld in self.cold_fields and s.fver.get(fld, 0) == 0:
            if self.on_cold_read is not None:
                self.on_cold_read(fld)
            return atomv(NONE)
        return atomv(('attr', bk, fld, s.fver.get(fld, 0)))

    def read_sub(self, s: State, b, i):
        if isinstance(b, TupleVal):
            c = i.const_value() if isinstance(i, RF) else None
            if c is not None and c.denominator == 1 and -len(b.items) <= int(c) < len(b.items):
                return b.items[int(c)]
            sa = i.single_atom() if isinstance(i, RF) else None
            if isinstance(sa, tuple) and len(sa) == 4 and sa[0] == 'slice':
                # a constant slice of a list display: the display of the selected items
                idx = []
                for k_ in sa[1:]:
                    if k_ == NONE:
                        idx.append(None)
                        continue
                    cv = rf_of_key(k_).const_value()
                    if cv is None or cv.denominator != 1:
                        idx = None
                        break
                    idx.append(int(cv))
                if idx is not None and idx[2] != 0:
                    return TupleVal(list(b.items[slice(*idx)]), b.kind)
        if isinstance(b, CompVal) and b.lam is None:
            return b.elt
        bk, ik = key_of(b), key_of(i)
        hv = s.heap.get((bk, ('[]', ik)))
        if hv is not None:
            return hv
        return atomv(('sub', bk, ik, s.fver.get(('[]', bk), 0) + 1000 * s.fver.get('[]', 0)))

    def binop(self, op, a, b, node, s: State):
        if isinstance(a, RF) and isinstance(b, RF):
            try:
                if isinstance(op, ast.Add):
                    return a + b
                if isinstance(op, ast.Sub):
                    return a - b
                if isinstance(op, ast.Mult):
                    return a * b
                if isinstance(op, ast.Div):
                    if b.is_zero():
                        return atomv(('div0', key_of(a)))
                    return a / b
                if isinstance(op, ast.Pow):
                    return rf_pow(a, b)
            except ZeroDivisionError:
                return atomv(('div0', key_of(a)))
        if isinstance(op, ast.Mult) and isinstance(a, TupleVal) != isinstance(b, TupleVal):
            lst, n = (a, b) if isinstance(a, TupleVal) else (b, a)
            if len(lst.items) == 1:
                return CompVal(lst.items[0], n, getattr(node, 'lineno', 0))
        return atomv(('binop', type(op).__name__, key_of(a), key_of(b)))

    # ------------------------------------------------------------------
    # conditions: branch -> [(State, truth, exc)]
    # ------------------------------------------------------------------
    def branch(self, e: ast.expr, s: State):
        if isinstance(e, ast.BoolOp):
            is_and = isinstance(e.op, ast.And)
            res = [(s, True if is_and else False, None)]      # neutral element
            for v in e.values:
                nxt = []
                for st, truth, exc in res:
                    if exc:
                        nxt.append((st, truth, exc))
                        continue
                    if is_and and truth is False:
                        nxt.append((st, False, None))
                        continue
                    if (not is_and) and truth is True:
                        nxt.append((st, True, None))
                        continue
                    nxt.extend(self.branch(v, st))
                res = nxt
            return res
        if isinstance(e, ast.UnaryOp) and isinstance(e.op, ast.Not):
            return [(st, (not t) if exc is None else t, exc) for st, t, exc in self.branch(e.operand, s)]
        if isinstance(e, ast.Compare) and len(e.ops) == 1 and isinstance(e.ops[0], (ast.In, ast.NotIn)) and \
                isinstance(e.comparators[0], ast.Call) and isinstance(e.comparators[0].func, ast.Name) and \
                e.comparators[0].func.id == 'range' and 'range' not in s.env and \
                1 <= len(e.comparators[0].args) <= 2 and not e.comparators[0].keywords and \
                isinstance(e.left, (ast.Name, ast.Attribute, ast.Constant)):
            # x in range(a, b)  for an integer x:  a <= x and x < b
            ra = e.comparators[0].args
            lo = ra[0] if len(ra) == 2 else ast.Constant(value=0)
            hi = ra[-1]
            conj = ast.BoolOp(op=ast.And(), values=[ast.Compare(left=lo, ops=[ast.LtE()], comparators=[e.left]),
                                                    ast.Compare(left=e.left, ops=[ast.Lt()], comparators=[hi])])
            test = conj if isinstance(e.ops[0], ast.In) else ast.UnaryOp(op=ast.Not(), operand=conj)
            ast.copy_location(test, e)
            ast.fix_missing_locations(test)
            return self.branch(test, s)
        if isinstance(e, ast.Compare):
            res = [(s, True, None, None)]
            # evaluate left once, then chain
            out = []
            for s2, lv, exc in self.ev(e.left, s):
                if exc:
                    out.append((s2, False, exc))
                    continue
                cur = [(s2, lv, True)]
                for op, comp in zip(e.ops, e.comparators):
                    nxt = []
                    for st, left, truth in cur:
                        if truth is False:
                            nxt.append((st, left, False))
                            continue
                        for s3, rv, exc2 in self.ev(comp, st):
                            if exc2:
                                out.append((s3, False, exc2))
                                continue
                            lit = self.cmp_lit(op, left, rv)
                            for s4, t in self.assume_fork(s3, lit, e):
                                nxt.append((s4, rv, t))
                    cur = nxt
                out.extend((st, t, None) for st, _, t in cur)
            return out
        if isinstance(e, ast.Constant):
            return [(s, bool(e.value), None)]
        # generic truthiness of a value
        out = []
        for s2, v, exc in self.ev(e, s):
            if exc:
                out.append((s2, False, exc))
                continue
            lit = Lit('truth', key=key_of(v), pol=True)
            out.extend((s3, t, None) for s3, t in self.assume_fork(s2, lit, e))
        return out

    def _distinct_named_constants(self, ka, kb) -> bool:
        """Two different string literals, or two different members of one Enum class (auto() or different literal
        values): certainly unequal and not identical."""
        if not (isinstance(ka, tuple) and isinstance(kb, tuple) and ka and kb) or ka == kb:
            return False
        if ka[0] == 'str' and kb[0] == 'str' and len(ka) == 2 and len(kb) == 2:
            return isinstance(ka[1], str) and isinstance(kb[1], str) and not ka[1].startswith('<')
        if ka[0] == 'classattr' and kb[0] == 'classattr' and ka[1] == kb[1]:
            cls = self.ix.classes.get(ka[1])
            if cls is None or not any(('Enum' in ast.unparse(b_) or 'Flag' in ast.unparse(b_)) for b_ in cls.node.bases):
                return False
            vals = {}
            for st in cls.node.body:
                if isinstance(st, ast.Assign) and len(st.targets) == 1 and isinstance(st.targets[0], ast.Name):
                    vals[st.targets[0].id] = st.value
            va, vb = vals.get(ka[2]), vals.get(kb[2])
            if va is None or vb is None:
                return False
            if isinstance(va, ast.Constant) and isinstance(vb, ast.Constant):
                return va.value != vb.value
            return all(isinstance(v, ast.Call) and ast.unparse(v.func).endswith('auto') for v in (va, vb))
        return False

    def cmp_lit(self, op, a, b) -> Lit:
        ka, kb = key_of(a), key_of(b)
        if isinstance(op, (ast.Is, ast.IsNot, ast.Eq, ast.NotEq)):
            pol = isinstance(op, (ast.Is, ast.Eq))
            if kb == NONE or ka == NONE:
                other = ka if kb == NONE else kb
                return Lit('isnone', key=other, pol=pol)
            if kb in (TRUE, FALSE) or ka in (TRUE, FALSE):
                other, c = (ka, kb) if kb in (TRUE, FALSE) else (kb, ka)
                return Lit('truth', key=other, pol=(pol == (c == TRUE)))
            if self._distinct_named_constants(ka, kb):
                return Lit.cmp('==' if pol else '!=', RF.const(0), RF.const(1))
            if isinstance(a, RF) and isinstance(b, RF):
                return Lit.cmp('==' if pol else '!=', a, b)
            return Lit('opaque', key=(ka, kb), pol=pol, text='==')
        if isinstance(op, (ast.Lt, ast.LtE, ast.Gt, ast.GtE)) and isinstance(a, RF) and isinstance(b, RF):
            return Lit.cmp({ast.Lt: '<', ast.LtE: '<=', ast.Gt: '>', ast.GtE: '>='}[type(op)], a, b)
        return Lit('opaque', key=(ka, kb), pol=not isinstance(op, ast.NotIn), text=type(op).__name__)

    def assume_fork(self, s: State, lit: Lit, node):
        """Fork on a literal: [(state, truth)] with constant folding and contradiction pruning."""
        ct = lit.const_truth()
        if ct is not None:
            return [(s, ct)]
        out = []
        for truth in (True, False):
            l = lit if truth else lit.negate()
            if any(fct.contradicts(l) for fct in s.facts):
                continue
            out.append((truth, l))
        if len(out) == 1:
            truth, l = out[0]
            if not any(fct.same(l) for fct in s.facts):
                s.facts.append(l)
                s.emit('guard', node, lit=l, forced=True)
            return [(s, truth)]
        res = []
        for i, (truth, l) in enumerate(out):
            st = s.clone() if i < len(out) - 1 else s
            if not any(fct.same(l) for fct in st.facts):
                st.facts.append(l)
            st.emit('guard', node, lit=l, forced=False)
            res.append((st, truth))
        return res

    # ------------------------------------------------------------------
    # calls
    # ------------------------------------------------------------------
    def property_getter(self, f: FuncInfo, e: ast.Attribute) -> Optional[FuncInfo]:
        objs = self.pta.expr_pts(f, e.value)
        hits = set()
        for o in objs:
            if o.cls is not None and o.kind in ('inst', 'ext_inst'):
                m = o.cls.lookup(e.attr)
                if m is not None and m.is_property:
                    hits.add(m)
        return next(iter(hits)) if len(hits) == 1 else None

    def property_setter(self, f: FuncInfo, e: ast.Attribute) -> Optional[FuncInfo]:
        objs = self.pta.expr_pts(f, e.value)
        hits = set()
        for o in objs:
            if o.cls is not None and o.kind in ('inst', 'ext_inst'):
                m = o.cls.lookup_setter(e.attr)
                if m is not None:
                    hits.add(m)
        return next(iter(hits)) if len(hits) == 1 else None

    def ev_call(self, e: ast.Call, s: State):
        f = s.func
        # next((E for v in IT if C), D): first match of a scan - desugared into the equivalent loop
        if isinstance(e.func, ast.Name) and e.func.id == 'next' and e.args and \
                isinstance(e.args[0], ast.GeneratorExp) and len(e.args[0].generators) == 1 and 'next' not in s.env:
            return self.ev_first_match(e, s)
        # any(E for v in IT if C) / all(...): the equivalent scanning loop with an early exit
        if isinstance(e.func, ast.Name) and e.func.id in ('any', 'all') and len(e.args) == 1 and not e.keywords and \
                isinstance(e.args[0], ast.GeneratorExp) and len(e.args[0].generators) == 1 and \
                e.func.id not in s.env:
            return self.ev_first_match(e, s, quantifier=e.func.id)
        # call of a local lambda
        if isinstance(e.func, ast.Name) and isinstance(s.env.get(e.func.id), LambdaVal):
            lam = s.env[e.func.id]
            out = []
            for s2, vals, exc in self.ev_many([a for a in e.args], s):
                if exc:
                    out.append((s2, None, exc))
                    continue
                names = [a.arg for a in lam.node.args.args]
                saved = dict(s2.env)
                s2.env.update(lam.env)
                s2.env.update(dict(zip(names, vals)))
                for s3, v, exc2 in self.ev(lam.node.body, s2):
                    s3.frames[-1] = (s3.frames[-1][0], dict(saved))
                    out.append((s3, v, exc2))
            return out
        # receiver
        recv_expr = e.func.value if isinstance(e.func, ast.Attribute) else None
        is_super = isinstance(recv_expr, ast.Call) and isinstance(recv_expr.func, ast.Name) and \
            recv_expr.func.id == 'super'
        arg_exprs = [a.value if isinstance(a, ast.Starred) else a for a in e.args]
        kw_exprs = [k.value for k in e.keywords]
        pre = [recv_expr] if (recv_expr is not None and not is_super) else []
        out = []
        for s2, vals, exc in self.ev_many(pre + arg_exprs + kw_exprs, s):
            if exc:
                out.append((s2, None, exc))
                continue
            recv = vals[0] if pre else (s2.env.get(f.param_names[0]) if (is_super and f.param_names) else None)
            args = vals[len(pre):len(pre) + len(arg_exprs)]
            kwargs = {k.arg or '**': v for k, v in zip(e.keywords, vals[len(pre) + len(arg_exprs):])}
            # a mutator called on a local list display: the local no longer is the display it was built from
            if isinstance(recv, TupleVal) and isinstance(recv_expr, ast.Name) and \
                    isinstance(e.func, ast.Attribute) and e.func.attr in _LIST_MUTATOR_NAMES and \
                    recv_expr.id in s2.env:
                if e.func.attr == 'append' and len(args) == 1 and not kwargs:
                    s2.env[recv_expr.id] = TupleVal(list(recv.items) + [args[0]], recv.kind)
                else:
                    occ = s2.next_occ(('mutated', recv_expr.id))
                    s2.env[recv_expr.id] = atomv(('mutated', recv_expr.id, e.lineno, occ))
            out.extend(self.do_call(e, recv, args, kwargs, s2))
        return out

    def ev_first_match(self, e: ast.Call, s: State, quantifier: Optional[str] = None):
        gen = e.args[0]
        g = gen.generators[0]
        dflt = e.args[1] if len(e.args) > 1 else None
        test = None
        for c in g.ifs:
            test = c if test is None else ast.BoolOp(op=ast.And(), values=[test, c])
        elt = gen.elt
        if quantifier is not None:
            # any: first element that holds -> True, none -> False; all: first that fails -> False, none -> True
            hit = elt if quantifier == 'any' else ast.UnaryOp(op=ast.Not(), operand=elt)
            test = hit if test is None else ast.BoolOp(op=ast.And(), values=[test, hit])
            elt = ast.Constant(value=(quantifier == 'any'))
            dflt = ast.Constant(value=(quantifier != 'any'))
        body = [ast.Return(value=elt)]
        if test is not None:
            body = [ast.If(test=test, body=[ast.Return(value=elt)], orelse=[])]
        loop = ast.For(target=g.target, iter=g.iter, body=body, orelse=[])
        tail = ast.Return(value=dflt) if dflt is not None else \
            ast.Raise(exc=ast.Call(func=ast.Name(id='StopIteration', ctx=ast.Load()), args=[], keywords=[]), cause=None)
        for n in (loop, tail):
            ast.copy_location(n, e)
            ast.fix_missing_locations(n)
        out = []
        saved_names = {t.id for t in ast.walk(g.target) if isinstance(t, ast.Name)}
        before = {n: s.env.get(n) for n in saved_names}
        for s2, oc in self.run_block([loop, tail], [s]):
            for n, v in before.items():
                if v is None:
                    s2.env.pop(n, None)
                else:
                    s2.env[n] = v
            if oc is not None and oc[0] == 'return':
                # the synthetic 'return' events belong to the expression, not to the function
                s2.events = [ev for ev in s2.events if not (ev.kind == 'return' and ev.node in (body[0] if test is None else body[0].body[0], tail))]
                out.append((s2, oc[1], None))
            elif oc is not None and oc[0] == 'raise':
                out.append((s2, None, oc[1]))
            else:
                out.append((s2, atomv(NONE), None))
        return out

    def callee_name(self, e: ast.Call) -> str:
        fn = e.func
        if isinstance(fn, ast.Attribute):
            return fn.attr
        if isinstance(fn, ast.Name):
            return fn.id
        return '<expr>'

    def do_call(self, e: ast.Call, recv, args, kwargs, s: State):
        f = s.func
        callees = self.pta.callees(f, e)
        internal = sorted((c for c in callees if isinstance(c, FuncInfo)), key=lambda c: c.qualname)
        news = [c for c in callees if isinstance(c, tuple) and c[0] == 'new']
        exts = self.pta.ext_callees(f, e)
        name = self.callee_name(e)
        if isinstance(e.func, ast.Name) and s.frames:
            # a call through a local / parameter that is bound, on this path, to one known function (a function
            # passed as an argument to an inlined helper)
            fv = s.frames[-1][1].get(e.func.id)
            fa = fv.single_atom() if isinstance(fv, RF) else None
            if isinstance(fa, tuple) and len(fa) == 2 and fa[0] == 'func' and fa[1] in self.ix.funcs:
                internal, news, exts = [self.ix.funcs[fa[1]]], [], set()
            if isinstance(fa, tuple) and len(fa) == 4 and fa[0] == 'attr' and isinstance(fa[2], str) and recv is None \
                    and any(isinstance(c, FuncInfo) and c.name == fa[2] for c in internal):
                # a local bound to a bound method (insert = self.queue.Insert; insert(...)): the same call as
                # self.queue.Insert(...)
                recv = rf_of_key(fa[1])
                name = fa[2]
                internal = [c for c in internal if c.name == fa[2]]
            if isinstance(fa, tuple) and len(fa) == 2 and fa[0] == 'attrgetter' and len(args) == 1 and not kwargs \
                    and isinstance(args[0], RF):
                # operator.attrgetter('f')(x) is x.f
                return [(s, self.read_attr(s, args[0], fa[1]), None)]
        if len(internal) > 1 and self.self_cls is not None and isinstance(recv, RF) and s.frames:
            root_fn = s.frames[0][0]
            if root_fn.param_names and key_of(recv) == key_of(atomv(('var', root_fn.param_names[0]))):
                m = self.self_cls.lookup(name)
                if m is not None and m in internal:
                    internal = [m]
        args, kwargs = self.normalise_args(internal, news, args, kwargs)
        # receiver that is a module/class is not a receiver
        if isinstance(recv, RF):
            ra = recv.single_atom()
            if isinstance(ra, tuple) and ra and ra[0] in ('module', 'class', 'extmod'):
                static_recv = ra
                recv_for_call = None
            else:
                static_recv = None
                recv_for_call = recv
        else:
            static_recv, recv_for_call = None, recv
        # NT._make(entry): the same components under their field names
        if name == '_make' and not internal and not news and len(args) == 1 and not kwargs and isinstance(recv, RF):
            ra_ = recv.single_atom()
            if isinstance(ra_, tuple) and len(ra_) >= 2 and ra_[0] == 'class' and ra_[1] in self.ix.classes and \
                    self.ix.classes[ra_[1]].namedtuple_fields is not None:
                return [(s, args[0], None)]
        # ---- symbolic models of arithmetic externals
        if internal and not news and exts and set(exts) <= {'builtins.map', 'builtins.filter'} and \
                all(c.name in ('__iter__', '__next__') for c in internal):
            internal = []        # the iteration protocol of the argument, driven by the builtin
        if not internal and not news:
            dotted = self.ext_name(e, s, exts)
            if dotted is not None:
                r = self.ext_model(dotted, args, kwargs, e, s)
                if r is not None:
                    s.emit('call', e, name=name, callee=dotted, callees={dotted}, recv=recv_for_call, args=args,
                           kwargs=kwargs, result=r, inlined=False, ext=True)
                    return [(s, r, None)]
        # ---- constructors
        if news and not [c for c in internal if c.name != '__init__'] and \
                self.ix.classes[news[0][1]].namedtuple_fields is not None:
            # NamedTuple(a, b): the tuple (a, b); its field names index the components
            flds = self.ix.classes[news[0][1]].namedtuple_fields
            items = list(args) + [None] * (len(flds) - len(args))
            for k, v in kwargs.items():
                if k in flds:
                    items[flds.index(k)] = v
            if all(x is not None for x in items):
                return [(s, TupleVal(items[:len(flds)]), None)]
        if news and not [c for c in internal if c.name != '__init__']:
            cls = self.ix.classes[news[0][1]]
            occ = s.next_occ(('fresh', cls.name))
            obj = atomv(('fresh', cls.name, occ, f'{f.module.relpath}:{e.lineno}'))
            ev_ = s.emit('new', e, cls=cls, args=args, kwargs=kwargs, result=obj, name=cls.name)
            init = cls.lookup('__init__')
            if init is None and cls.dataclass_fields:
                # synthesised constructor of a dataclass: the arguments become the fields
                flds = cls.dataclass_fields
                bound = dict(zip(flds, args))
                bound.update({k: v for k, v in kwargs.items() if k in flds})
                for fld, v in bound.items():
                    s.heap[(key_of(obj), fld)] = v
                    s.emit('store', e, tkind='attr', base=obj, field=fld, value=v, aug=False,
                           tdesc=f'{fmt_key(key_of(obj))}.{fld}', target=None)
                return [(s, obj, None)]
            if init is not None and self.inline_ctor and len(s.frames) <= self.max_depth:
                res = []
                for s2, _, exc in self.inline_call(init, obj, args, kwargs, s, e, force=True):
                    res.append((s2, obj if not exc else None, exc))
                return res
            return [(s, obj, None)]
        # ---- internal call
        if len(internal) == 1 and not exts:
            callee = internal[0]
            if self.want_inline(callee, s):
                bound_recv = recv_for_call if not callee.is_static else None
                if callee.is_static or (callee.cls is None):
                    bound_recv = None
                return self.inline_call(callee, bound_recv, args, kwargs, s, e)
        # ---- opaque call
        cname = internal[0].short if len(internal) == 1 else name
        occ = s.next_occ(('call', cname))
        res = atomv(('call', cname, tuple(key_of(a) for a in args), occ))
        ext_dotted = self.ext_name(e, s, exts) if not internal else None
        ev_ = s.emit('call', e, name=name, callee=internal[0] if len(internal) == 1 else ext_dotted,
                     callees=set(internal) | set(exts), recv=recv_for_call, args=args, kwargs=kwargs, result=res,
                     inlined=False, ext=not internal)
        self.havoc(s, internal, exts, recv_for_call, e)
        results = [(s, res, None)]
        if self._may_raise is not None and self._may_raise(ev_):
            s2 = s.clone()
            # the exception leaves the callee before it returns: drop the call's own completion
            x = ExcInfo(None, True, e, f, note=f'raised inside {cname}')
            s2.emit('raise', e, exc=x, implicit=True)
            results.append((s2, None, x))
        return results

    def normalise_args(self, internal, news, args, kwargs):
        """Keyword arguments of calls to repository functions are moved to their positions (defaults that are
        constants are filled in), so that rules need not care how a call site spells its arguments."""
        if not kwargs:
            return args, kwargs
        sigs = []
        if news:
            for nw in news:
                init = self.ix.classes[nw[1]].lookup('__init__')
                if init is not None:
                    sigs.append((init.param_names[1:], init.defaults()))
        else:
            for c in internal:
                names = c.param_names[1:] if (c.cls is not None and not c.is_static) else c.param_names
                sigs.append((names, c.defaults()))
        if not sigs or any(sg[0] != sigs[0][0] for sg in sigs):
            return args, kwargs
        names, defaults = sigs[0]
        out = list(args)
        kw = dict(kwargs)
        for i in range(len(out), len(names)):
            nm = names[i]
            if nm in kw:
                out.append(kw.pop(nm))
            elif nm in defaults and isinstance(defaults[nm], ast.Constant) and len(sigs) == 1 and \
                    any(n2 in kw for n2 in names[i + 1:]):
                out.append(self.const(defaults[nm].value))
            else:
                break
        return out, kw

    def ext_name(self, e: ast.Call, s: State, exts) -> Optional[str]:
        ds = [d for d in exts if not d.startswith('<')]
        if len(ds) == 1:
            return ds[0]
        return None

    def ext_model(self, dotted: str, args, kwargs, e, s: State):
        n = len(args)
        rf = [a for a in args if isinstance(a, RF)]
        allrf = len(rf) == n
        if dotted in POW_CALLS and n == 2 and allrf:
            return rf_pow(args[0], args[1])
        if dotted in ABS_CALLS and n == 1 and allrf:
            return rf_abs(args[0])
        if dotted in SQRT_CALLS and n == 1 and allrf:
            return rf_pow(args[0], RF.const(Fraction(1, 2)))
        if dotted in MIN_CALLS and n >= 2 and allrf:
            return rf_minmax('min', args)
        if dotted in MAX_CALLS and n >= 2 and allrf:
            return rf_minmax('max', args)
        if dotted in IDENTITY_CALLS and n == 1:
            if isinstance(args[0], RF):
                sa = args[0].single_atom()
                if isinstance(sa, tuple) and sa and sa[0] == 'str':
                    if sa[1].strip().lower() in ('inf', '+inf', 'infinity'):
                        return rf_inf()
                    if sa[1].strip().lower() in ('-inf', '-infinity'):
                        return -rf_inf()
            return args[0]
        if dotted in ('numpy.any', 'numpy.all', 'builtins.any', 'builtins.all') and n == 1 and not kwargs and \
                key_of(args[0]) in (TRUE, FALSE):
            # the comparison inside was decided on this path (element-wise comparisons are abstracted as one
            # decision): its reduction is the same decision
            return args[0]
        if dotted == 'builtins.range':
            return atomv(('range',) + tuple(key_of(a) for a in args))
        if dotted == 'builtins.zip' and n >= 1 and not kwargs and all(isinstance(a, TupleVal) for a in args):
            m_ = min(len(a.items) for a in args)
            return TupleVal([TupleVal([a.items[j] for a in args], 'tuple') for j in range(m_)], 'list')
        if dotted == 'builtins.enumerate' and n == 1 and not kwargs and isinstance(args[0], TupleVal):
            return TupleVal([TupleVal([RF.const(j), x], 'tuple') for j, x in enumerate(args[0].items)], 'list')
        if dotted in ('builtins.list', 'builtins.tuple') and n == 1 and isinstance(args[0], TupleVal):
            return TupleVal(list(args[0].items), 'list' if dotted.endswith('list') else 'tuple')
        if dotted == 'builtins.reversed' and n == 1 and isinstance(args[0], TupleVal):
            return TupleVal(list(reversed(args[0].items)), 'list')
        if dotted == 'builtins.map' and n == 2 and isinstance(args[0], LambdaVal) and not kwargs and \
                len(args[0].node.args.args) == 1 and not isinstance(args[1], (TupleVal, CompVal)):
            return CompVal(None, args[1], getattr(e, 'lineno', 0), lam=args[0])
        if dotted == 'builtins.len' and n == 1:
            if isinstance(args[0], TupleVal):
                return RF.const(len(args[0].items))
            return atomv(('len', key_of(args[0]), s.fver.get('[]', 0)))
        if dotted == 'builtins.print':
            return atomv(NONE)
        if dotted == 'builtins.getattr' and n == 2 and isinstance(args[0], RF) and isinstance(args[1], RF):
            sa = args[1].single_atom()
            if isinstance(sa, tuple) and len(sa) == 2 and sa[0] == 'str' and not sa[1].startswith('__'):
                return self.read_attr(s, args[0], sa[1])          # getattr(x, 'f') is x.f
        if dotted == 'operator.attrgetter' and n == 1 and isinstance(args[0], RF):
            sa = args[0].single_atom()
            if isinstance(sa, tuple) and len(sa) == 2 and sa[0] == 'str' and '.' not in sa[1]:
                return atomv(('attrgetter', sa[1]))
        if dotted == 'builtins.bool' and n == 1 and key_of(args[0]) in (TRUE, FALSE):
            return args[0]          # bool() of a decided condition
        if dotted in ALLOC_EXT:
            return None         # a fresh object each time: handled as an opaque call with an occurrence id
        if dotted.startswith(PURE_EXT_PREFIXES) and not dotted.startswith('numpy.random') or \
                dotted in ('builtins.int', 'builtins.round', 'builtins.str', 'builtins.bool', 'builtins.isinstance'):
            return atomv(('call', dotted, tuple(key_of(a) for a in args) +
                          tuple(sorted((k, key_of(v)) for k, v in kwargs.items()))))
        return None

    def inline_call(self, callee: FuncInfo, recv, args, kwargs, s: State, node, force: bool = False):
        """Run callee's body on s with a new frame: [(state, value, exc)]."""
        env: Dict[str, object] = {}
        names = callee.param_names
        i0 = 0
        if recv is not None and names and not callee.is_static and callee.cls is not None:
            env[names[0]] = recv
            i0 = 1
        elif names and callee.cls is not None and getattr(callee, 'is_classmethod', False):
            env[names[0]] = atomv(('class', callee.cls.qualname))
            i0 = 1
        for i, a in enumerate(args):
            if i0 + i < len(names):
                env[names[i0 + i]] = a
        for k, v in kwargs.items():
            if k in names or k in [a.arg for a in callee.kwonly]:
                env[k] = v
        defaults = callee.defaults()
        pending = [p for p in names + [a.arg for a in callee.kwonly] if p not in env]
        call_ev = s.emit('call', node, name=callee.name, callee=callee, callees={callee}, recv=recv, args=args,
                         kwargs=kwargs, result=None, inlined=True, ext=False)
        s.frames.append((callee, env))
        # defaults are evaluated in the callee's module scope (constants only matter here)
        for p in pending:
            if p in defaults:
                d = defaults[p]
                if isinstance(d, ast.Constant):
                    env[p] = self.const(d.value)
                else:
                    env[p] = atomv(('default', callee.short, p))
            else:
                env[p] = atomv(('var', p))
        out = []
        for s2, oc in self.run_block(callee.node.body, [s]):
            s2.frames.pop()
            if oc is None:
                v = atomv(NONE)
                s2.emit('exit', node, callee=callee, value=v)
                out.append((s2, v, None))
            elif oc[0] == 'return':
                s2.emit('exit', node, callee=callee, value=oc[1])
                out.append((s2, oc[1], None))
            elif oc[0] == 'raise':
                s2.emit('exit', node, callee=callee, value=None, exc=oc[1])
                out.append((s2, None, oc[1]))
            else:
                raise AnalysisError(f'{callee.loc()}: break/continue escaped a function body')
        return out

    def writes_of(self, fn: FuncInfo) -> Set[object]:
        q = fn.qualname + ('@setter' if fn.is_setter else '')
        if q in self._writes_cache:
            return self._writes_cache[q]
        reach = self.pta.reachable([fn])
        flds: Set[object] = set()
        for m in self.pta.mutations:
            mq = m.func.qualname + ('@setter' if m.func.is_setter else '')
            if mq in reach:
                if m.kind in ('attr', 'aug') and isinstance(m.field, str) and m.field != '[]':
                    flds.add(m.field)
                else:
                    flds.add('[]')
        self._writes_cache[q] = flds
        return flds

    def havoc(self, s: State, internal, exts, recv, node):
        flds: Set[object] = set()
        for c in internal:
            flds |= self.writes_of(c)
        for d in exts:
            if d.startswith('<') and d.endswith(tuple('.' + m for m in
                                                      ('append', 'extend', 'insert', 'pop', 'remove', 'clear', 'sort',
                                                       'reverse', 'update', 'fill', 'put', 'resize'))):
                flds.add('[]')
        if not flds:
            return
        keep = set()
        if self.cold_fields & flds:
            reach = set()
            for c in internal:
                reach |= self.pta.reachable([c])
            for fld in self.cold_fields & flds:
                if not (self.cold_invalidators.get(fld, set()) & reach):
                    keep.add(fld)          # the callee may fill the cache, it never empties it
        for fld in flds:
            if fld in keep and any(hk[1] == fld and key_of(v) != NONE for hk, v in s.heap.items()):
                continue
            s.fver[fld] = s.fver.get(fld, 0) + 1
        for hk in list(s.heap):
            fk = hk[1]
            if fk in keep and key_of(s.heap[hk]) != NONE:
                continue
            if fk in flds or (isinstance(fk, tuple) and fk and fk[0] == '[]' and '[]' in flds):
                del s.heap[hk]


def rf_of_key(k) -> RF:
    if isinstance(k, tuple) and k and k[0] == 'rf':
        return RF({m: Fraction(c) for m, c in k[1]}, {m: Fraction(c) for m, c in k[2]})
    return RF.atom(k)


def _as_load(t: ast.expr) -> ast.expr:
    import copy
    n = copy.deepcopy(t)
    for x in ast.walk(n):
        if hasattr(x, 'ctx'):
            x.ctx = ast.Load()
    return n


def _names_in(t: ast.expr) -> List[str]:
    return [n.id for n in ast.walk(t) if isinstance(n, ast.Name)]


def _handler_names(h: ast.ExceptHandler) -> List[str]:
    if h.type is None:
        return ['<bare>']
    ts = h.type.elts if isinstance(h.type, ast.Tuple) else [h.type]
    out = []
    for t in ts:
        if isinstance(t, ast.Name):
            out.append(t.id)
        elif isinstance(t, ast.Attribute):
            out.append(t.attr)
        else:
            out.append('?')
    return out


def _catches(names: List[str], x: ExcInfo) -> str:
    """'yes' | 'no' | 'maybe'."""
    if '<bare>' in names or 'BaseException' in names:
        return 'yes'
    if x.implicit or x.type is None:
        return 'maybe'
    if x.type in names:
        return 'yes'
    if 'Exception' in names:
        if x.type in EXC_BASE_ONLY:
            return 'no'
        return 'yes' if x.type in EXC_EXCEPTION_FAMILY else 'maybe'
    return 'no' if x.type in EXC_EXCEPTION_FAMILY | EXC_BASE_ONLY else 'maybe'
