"""Evolvent-specific helpers shared by C05, C07, C09, C20."""
from __future__ import annotations

import ast
from fractions import Fraction
from typing import Dict, List, Optional, Set, Tuple

from ..algebra import NONE, RF, Lit, rf_pow
from ..index import AnalysisError, ClassInfo, FuncInfo
from ..paths import Event, Path, TupleVal, atomv, key_of
from ..report import Ctx
from . import common as C
from .common import attr, sub, var


class Evo:
    def __init__(self, ctx: Ctx):
        self.ctx = ctx
        self.cls = ctx.ix.cls('Evolvent')
        pta = ctx.pta
        self.get_image = self.cls.methods.get('GetImage')
        self.get_inverse = self.cls.methods.get('GetInverseImage')
        self.get_pre = self.cls.methods.get('GetPreimages')
        if not (self.get_image and self.get_inverse and self.get_pre):
            raise AnalysisError('public evolvent queries vanished')
        # The two directions are recognised independently: a change that makes one of them unreadable must not take
        # the rules about the other one down with it.  A direction that is not recognised raises (exit 2) when a rule
        # first asks for it.
        self._halves = {}
        self._half_err = {}
        for which, root in (('fwd', self.get_image), ('inv', self.get_inverse)):
            try:
                self._halves[which] = self._recognise(root)
            except AnalysisError as err:
                self._half_err[which] = err
        if 'fwd' not in self._halves and 'inv' not in self._halves:
            raise self._half_err['fwd']

    def _recognise(self, root: FuncInfo) -> dict:
        clo = self._closure(root)
        desc = [f for f in clo if self._has_level_loop(f)]
        if len(desc) != 1:
            raise AnalysisError(f'descent of {root.short} not recognised among {[f.name for f in clo]}')
        d = desc[0]
        lc = self._level_callees(d)
        below = set(lc)
        for g in list(below):
            below |= set(self._closure(g))
        # coordinate transform: the remaining function that computes (not a pure delegator)
        ts = [f for f in clo if f is not d and f not in below and not self._is_delegator(f)]
        if len(ts) != 1:
            # coefficient helpers shared by both directions compute but do not touch the working array: the
            # transform is the candidate that writes an attribute the descent itself works on
            scratch = self._scratch_attrs_of(d)
            t2 = [f for f in ts if self._writes_attr(f, scratch)]
            if len(t2) == 1:
                ts = t2
        if len(ts) != 1:
            # workers of the one-dimensional shortcut (y[0] = x - 1/2) also write the working array; the coordinate
            # transform is the one that reads the box
            bnames = {'lowerBoundOfFloatVariables', 'upperBoundOfFloatVariables'}
            bnames |= {self.backing_field(b) for b in list(bnames)}
            t3 = [f for f in ts if any(isinstance(n, ast.Attribute) and n.attr in bnames for n in ast.walk(f.node))]
            if len(t3) == 1:
                ts = t3
        if len(ts) != 1:
            raise AnalysisError(f'coordinate transform of {root.short} not recognised: {[f.name for f in ts]}')
        return {'descent': d, 'level_callees': lc, 'transform': self._method_face(ts[0], clo),
                'array_fn': self._array_callee(d, lc)}

    def opt(self, which: str, key: str):
        """The recognised part, or None when that direction was not recognised (for rules that can do without)."""
        return self._halves[which][key] if which in self._halves else None

    def _half(self, which: str, key: str):
        if which not in self._halves:
            raise self._half_err[which]
        return self._halves[which][key]

    forward = property(lambda self: self._half('fwd', 'descent'))
    inverse = property(lambda self: self._half('inv', 'descent'))
    level_callees_fwd = property(lambda self: self._half('fwd', 'level_callees'))
    level_callees_inv = property(lambda self: self._half('inv', 'level_callees'))
    p2d = property(lambda self: self._half('fwd', 'transform'))
    d2p = property(lambda self: self._half('inv', 'transform'))
    node_fn = property(lambda self: self._half('fwd', 'array_fn'))
    numbr_fn = property(lambda self: self._half('inv', 'array_fn'))

    @property
    def heavy(self):
        out = set()
        for which in ('fwd', 'inv'):
            if which in self._halves and self._halves[which]['array_fn'] is not None:
                out.add(self._halves[which]['array_fn'].name)
        return out

    def _method_face(self, f: FuncInfo, closure) -> FuncInfo:
        """A transform written as a free function (moved to a helper module) is analysed through the method of the
        class that delegates to it: there its operands are the attributes of the evolvent."""
        if f.cls is not None:
            return f
        faces = [m for m in closure if m.cls is self.cls and m is not f and self._is_delegator(m) and
                 any(f in self.ctx.pta.internal_callees(m, nd) for nd in ast.walk(m.node) if isinstance(nd, ast.Call))]
        return faces[0] if len(faces) == 1 else f

    def _scratch_attrs(self) -> Set[str]:
        """Attributes of self that the forward descent stores into (element-wise or whole)."""
        return self._scratch_attrs_of(self.forward)

    def _scratch_attrs_of(self, desc: FuncInfo) -> Set[str]:
        out: Set[str] = set()
        selfn = desc.param_names[0]
        for n in ast.walk(desc.node):
            tg = []
            if isinstance(n, ast.Assign):
                tg = n.targets
            elif isinstance(n, ast.AugAssign):
                tg = [n.target]
            for t in tg:
                while isinstance(t, ast.Subscript):
                    t = t.value
                if isinstance(t, ast.Attribute) and isinstance(t.value, ast.Name) and t.value.id == selfn:
                    out.add(t.attr)
        return out

    def _writes_attr(self, f: FuncInfo, attrs: Set[str]) -> bool:
        selfn = f.param_names[0] if f.param_names else 'self'
        for n in ast.walk(f.node):
            tg = []
            if isinstance(n, ast.Assign):
                tg = n.targets
            elif isinstance(n, ast.AugAssign):
                tg = [n.target]
            for t in tg:
                while isinstance(t, ast.Subscript):
                    t = t.value
                if isinstance(t, ast.Attribute) and isinstance(t.value, ast.Name) and t.value.id == selfn and \
                        t.attr in attrs:
                    return True
        return False

    def _closure(self, f: FuncInfo) -> List[FuncInfo]:
        out: List[FuncInfo] = []
        todo = [f]
        while todo:
            g = todo.pop(0)
            for c in self._private_callees(g):
                if c not in out and c is not f:
                    out.append(c)
                    todo.append(c)
        return out

    def _is_delegator(self, f: FuncInfo) -> bool:
        """A function that only forwards to other private methods (no loop, no arithmetic of its own)."""
        has_calls = bool(self._private_callees(f))
        has_work = any(isinstance(n, (ast.For, ast.While, ast.AugAssign)) for n in ast.walk(f.node)) or \
            any(isinstance(n, ast.Assign) and isinstance(n.value, ast.BinOp) for n in ast.walk(f.node))
        return has_calls and not has_work

    def _level_callees(self, f: FuncInfo) -> List[FuncInfo]:
        lp = self.level_loop(f)
        out: List[FuncInfo] = []
        for n in ast.walk(lp):
            if isinstance(n, ast.Call):
                for c in self.ctx.pta.internal_callees(f, n):
                    if self._is_mine(c) and c is not f and c not in out:
                        out.append(c)
        return out

    def _array_callee(self, f: FuncInfo, cands: List[FuncInfo]) -> Optional[FuncInfo]:
        """Among the functions called in the level loop, the one that receives (orientation) arrays: the node /
        number rule.  Digit helpers receive scalars only."""
        arrays = set()
        for n in ast.walk(f.node):
            if isinstance(n, ast.Assign) and len(n.targets) == 1 and isinstance(n.targets[0], ast.Name) and \
                    isinstance(n.value, ast.Call) and isinstance(n.value.func, ast.Attribute) and \
                    n.value.func.attr in ('zeros', 'ones', 'empty'):
                arrays.add(n.targets[0].id)
        best = None
        score = -1
        for n in ast.walk(self.level_loop(f)):
            if isinstance(n, ast.Call):
                for c in self.ctx.pta.internal_callees(f, n):
                    if c in cands and sum(1 for a in n.args if isinstance(a, ast.Name) and a.id in arrays) >= 1:
                        # the rule proper iterates / branches over the coordinates; swap helpers do not
                        sc = sum(1 for x in ast.walk(c.node) if isinstance(x, (ast.For, ast.While))) * 10 + \
                            sum(1 for x in ast.walk(c.node) if isinstance(x, ast.If)) + \
                            sum(1 for a in n.args if isinstance(a, ast.Name) and a.id in arrays)
                        if sc > score:
                            best, score = c, sc
        return best if best is not None else (cands[0] if cands else None)

    def _private_callees(self, f: FuncInfo) -> List[FuncInfo]:
        res: List[FuncInfo] = []
        for n in ast.walk(f.node):
            if isinstance(n, ast.Call):
                for c in self.ctx.pta.internal_callees(f, n):
                    if self._is_mine(c) and c not in res and c.name != '__init__':
                        res.append(c)
        return res

    def _dimension_attrs(self) -> Set[str]:
        """Attributes of self used as the size of work arrays (np.zeros(self.N, ...)): the dimension."""
        memo = getattr(self, '_dim_attrs', None)
        if memo is not None:
            return memo
        out: Set[str] = set()
        for f in self.cls.methods.values():
            if f.kind != 'function':
                continue
            for n in ast.walk(f.node):
                if isinstance(n, ast.Call) and isinstance(n.func, ast.Attribute) and \
                        n.func.attr in ('zeros', 'ones', 'empty', 'ndarray', 'full') and n.args:
                    a = n.args[0]
                    if isinstance(a, ast.Attribute) and isinstance(a.value, ast.Name):
                        out.add(a.attr)
        self._dim_attrs = out
        return out

    def _is_mine(self, c: FuncInfo) -> bool:
        """A private method of the class or a helper function of its module."""
        if c.cls is self.cls:
            return True
        # helper functions of the module, or of a sibling module of the same package (the coordinate transforms
        # moved into iOpt/evolvent/bounds_transform.py)
        pkg = self.cls.module.name.rsplit('.', 1)[0]
        return c.cls is None and c.kind == 'function' and \
            (c.module is self.cls.module or c.module.name.rsplit('.', 1)[0] == pkg)

    def _has_level_loop(self, f: FuncInfo) -> bool:
        """A descent function: a top-level for loop, not over the coordinates (range(N)), whose body calls a
        non-trivial helper of the class / module (the node or number rule)."""
        from ..paths import _is_trivial
        dims = self._dimension_attrs()
        for st in f.node.body:
            if isinstance(st, ast.For):
                it = st.iter
                if isinstance(it, ast.Call) and isinstance(it.func, ast.Name) and it.func.id == 'range' and it.args:
                    last = it.args[-1] if len(it.args) <= 2 else it.args[1]
                    if isinstance(last, ast.Attribute) and last.attr in dims:
                        continue          # a loop over the coordinates
                    if isinstance(last, ast.Name):
                        # a local alias of the dimension (n = self.numberOfFloatVariables)
                        alias = [a for a in ast.walk(f.node) if isinstance(a, ast.Assign) and len(a.targets) == 1 and
                                 isinstance(a.targets[0], ast.Name) and a.targets[0].id == last.id and
                                 isinstance(a.value, ast.Attribute) and a.value.attr in dims]
                        if alias:
                            continue
                for n in ast.walk(st):
                    if isinstance(n, ast.Call):
                        for c in self.ctx.pta.internal_callees(f, n):
                            if self._is_mine(c) and c is not f and not _is_trivial(c) and \
                                    any(isinstance(x, (ast.For, ast.While, ast.If)) for x in ast.walk(c.node)):
                                return True
        return False

    def level_loop(self, f: FuncInfo) -> ast.For:
        """The outermost for loop of a descent function (one trip per density level)."""
        loops = [n for n in f.node.body if isinstance(n, ast.For)]
        if len(loops) != 1:
            raise AnalysisError(f'{f.short}: expected exactly one level loop, found {len(loops)}')
        return loops[0]

    def _level_callee(self, f: FuncInfo) -> Optional[FuncInfo]:
        lp = self.level_loop(f)
        for n in ast.walk(lp):
            if isinstance(n, ast.Call):
                for c in self.ctx.pta.internal_callees(f, n):
                    if c.cls is self.cls:
                        return c
        return None

    def explorer(self, unroll: int = 1, **kw):
        heavy = {f for f in (self.opt('fwd', 'array_fn'), self.opt('inv', 'array_fn')) if f is not None}
        ex = self.ctx.explorer(inline=lambda f, st: self._is_mine(f) and f not in heavy, unroll=unroll,
                               max_paths=30000, opaque=heavy, **kw)
        return ex

    def loop_bound_attr(self, fn: FuncInfo, lp: ast.For) -> Optional[str]:
        """Attribute of self that bounds `for .. in range([0,] self.A)` - directly or through a local that names
        the attribute for the whole function (levels = self.A)."""
        it = lp.iter
        if not (isinstance(it, ast.Call) and isinstance(it.func, ast.Name) and it.func.id == 'range' and
                1 <= len(it.args) <= 2):
            return None
        if len(it.args) == 2 and not (isinstance(it.args[0], ast.Constant) and it.args[0].value == 0):
            return None
        a = it.args[-1]
        if isinstance(a, ast.Attribute) and isinstance(a.value, ast.Name) and a.value.id == fn.param_names[0]:
            return a.attr
        if isinstance(a, ast.Name):
            return self.alias_map(fn).get(a.id)
        return None

    def density_field(self) -> str:
        """Attribute that bounds the level loop of the forward descent."""
        lp = self.level_loop(self.forward)
        a = self.loop_bound_attr(self.forward, lp)
        if a is not None:
            return a
        lt = self.level_table()
        if lt is not None:
            return lt['attr']
        g = self._generator_callee(self.forward, lp)
        if g is not None:
            err = AnalysisError(f'{self.forward.short}: the level loop is driven by the generator {g.short}; the '
                                f'level count is not decided for this form')
            err.undecided = True
            raise err
        raise AnalysisError(f'{self.forward.short}: level loop is not range(self.<density>)')

    def level_table(self) -> Optional[dict]:
        """Table form of the forward level loop: `for step in self.T` (or a local naming self.T).  The number of
        levels is then len(T).  Returns {'table': T, 'attr': A, 'problems': [...]} where A is the attribute the
        constructor stores verbatim from the parameter that also sizes T (len(T) == A after construction); problems
        lists the routines that later re-define T with another length than A (the table no longer has the configured
        number of rows).  None when the loop is not of this form."""
        if hasattr(self, '_level_table'):
            return self._level_table
        self._level_table = None
        from ..index import mangle
        f = self.forward
        lp = self.level_loop(f)
        it = lp.iter
        selfn = f.param_names[0]
        T = None
        if isinstance(it, ast.Attribute) and isinstance(it.value, ast.Name) and it.value.id == selfn:
            T = mangle(self.cls.name, it.attr)
        elif isinstance(it, ast.Name) and it.id in self.alias_map(f):
            T = mangle(self.cls.name, self.alias_map(f)[it.id])
        if T is None:
            return None
        ctx = self.ctx
        ex = ctx.explorer(unroll=1, inline=lambda g, st: g.name != '__init__' and
                          (g.cls is self.cls or (g.cls is None and g.module is self.cls.module)))
        init = self.cls.methods['__init__']
        cands = None
        for p in C.normal_paths(ex.explore(init)):
            selfk = key_of(var(init.param_names[0]))
            ln = C.length_of(p.state.heap.get((selfk, T)))
            if ln is None:
                raise AnalysisError(f'{init.short}: the number of rows of the level table {T} is not determined')
            here = set()
            for (bk, fld), v in p.state.heap.items():
                if bk == selfk and isinstance(fld, str) and fld != T and isinstance(v, RF) and v.equals(ln):
                    a = v.single_atom()
                    if isinstance(a, tuple) and len(a) == 2 and a[0] == 'var' and a[1] in init.param_names:
                        here.add(fld)
            cands = here if cands is None else (cands & here)
        if not cands:
            raise AnalysisError(f'{init.short}: the level table {T} is not sized by a constructor parameter that is '
                                f'also stored in an attribute')
        A = sorted(cands)[0]
        problems = []
        for nm, m in sorted(self.cls.methods.items()):
            if m.kind != 'function' or m is init or not m.param_names:
                continue
            if m.name.startswith('_') and not (m.name.startswith('__') and m.name.endswith('__')) and \
                    C.roles_of(ctx).callers_of(m):
                continue        # a private helper: analysed inside the routines that call it
            selfk = key_of(var(m.param_names[0]))
            try:
                paths = C.normal_paths(ex.explore(m))
            except AnalysisError:
                continue
            for p in paths:
                tv = p.state.heap.get((selfk, T))
                if tv is None:
                    continue
                if not any(e_.kind == 'store' and e_.d['tkind'] == 'attr' and e_.d['field'] == T for e_ in p.events):
                    continue
                ln = C.length_of(tv)
                want = attr(var(m.param_names[0]), A)
                if ln is None or not C.same_mod_ver(ln, want):
                    st = [e_ for e_ in p.events if e_.kind == 'store' and e_.d['tkind'] == 'attr' and e_.d['field'] == T][-1]
                    problems.append({'func': m, 'node': st.node, 'where': st.func, 'len': ln})
                    break
        self._level_table = {'table': T, 'attr': A, 'problems': problems}
        return self._level_table

    def report_level_table(self, rid: str):
        """Obligation of the table form: every routine that re-defines the level table keeps len(T) == density."""
        lt = self.level_table()
        if lt is None:
            return
        ctx = self.ctx
        for pr in lt['problems']:
            w = pr['where']
            ctx.fail(rid, pr['func'].short, w.loc(pr['node']),
                     f'{pr["func"].short} re-defines the level table {lt["table"]} with '
                     f'{C.fmt(pr["len"]) if pr["len"] is not None else "an undetermined number of"} rows, not '
                     f'self.{lt["attr"]}: from then on the forward descent runs that many levels whatever density '
                     f'was configured', key=f'{rid}::{pr["func"].short}::level-table-rows')
        if not lt['problems']:
            ctx.ok(rid, f'{self.cls.name}.{lt["table"]}',
                   f'the level table has self.{lt["attr"]} rows after the constructor and after every routine that '
                   f're-defines it', self.cls.module.relpath)

    def _generator_callee(self, f: FuncInfo, lp) -> Optional[FuncInfo]:
        """The generator method of the class (a function containing yield) the loop iterates over, if any."""
        it = getattr(lp, 'iter', None)
        if isinstance(it, ast.Call) and isinstance(it.func, ast.Attribute) and isinstance(it.func.value, ast.Name) and \
                f.param_names and it.func.value.id == f.param_names[0]:
            from ..index import mangle
            m = self.cls.lookup(it.func.attr) or self.cls.lookup(mangle(self.cls.name, it.func.attr))
            if m is None:
                for nm, fn in self.cls.methods.items():
                    if nm == it.func.attr or nm.endswith(it.func.attr):
                        m = fn
                        break
            if m is not None and any(isinstance(n, (ast.Yield, ast.YieldFrom)) for n in ast.walk(m.node)):
                return m
        return None

    @staticmethod
    def alias_map(f: FuncInfo) -> Dict[str, str]:
        """Locals that name an attribute of self for the whole function: x = self.a / x: T = self.a / self.a = x
        (single definition of x at the top level of the function)."""
        if not f.param_names:
            return {}
        selfn = f.param_names[0]
        out: Dict[str, str] = {}
        counts: Dict[str, int] = {}
        for n in ast.walk(f.node):
            tg = []
            if isinstance(n, ast.Assign):
                tg = n.targets
            elif isinstance(n, (ast.AnnAssign, ast.AugAssign)):
                tg = [n.target]
            elif isinstance(n, ast.For):
                tg = [n.target]
            for t in tg:
                for x in ast.walk(t):
                    if isinstance(x, ast.Name) and isinstance(x.ctx, ast.Store):
                        counts[x.id] = counts.get(x.id, 0) + 1
        for st in f.node.body:
            tgt = val = None
            if isinstance(st, ast.Assign) and len(st.targets) == 2:
                # y = self.a = <value>  /  self.a = y = <value>: the local names the attribute's new value
                nm = [t for t in st.targets if isinstance(t, ast.Name)]
                at = [t for t in st.targets if isinstance(t, ast.Attribute) and isinstance(t.value, ast.Name) and
                      t.value.id == selfn]
                if len(nm) == 1 and len(at) == 1 and counts.get(nm[0].id, 0) == 1:
                    out[nm[0].id] = at[0].attr
                continue
            if isinstance(st, ast.Assign) and len(st.targets) == 1:
                tgt, val = st.targets[0], st.value
            elif isinstance(st, ast.AnnAssign) and st.value is not None:
                tgt, val = st.target, st.value
            if tgt is None:
                continue
            if isinstance(tgt, ast.Name) and isinstance(val, ast.Attribute) and isinstance(val.value, ast.Name) and \
                    val.value.id == selfn and counts.get(tgt.id, 0) == 1:
                out[tgt.id] = val.attr
            elif isinstance(tgt, ast.Attribute) and isinstance(tgt.value, ast.Name) and tgt.value.id == selfn and \
                    isinstance(val, ast.Name) and counts.get(val.id, 0) == 1:
                out[val.id] = tgt.attr
        return out

    @property
    def dim_field(self) -> str:
        """Attribute that holds the dimension N (the backing field when numberOfFloatVariables is a property)."""
        return self.backing_field('numberOfFloatVariables')

    def backing_field(self, name: str) -> str:
        """For a property of the class whose getter returns one attribute: that attribute; else the name."""
        g = self.cls.lookup(name)
        if g is not None and g.is_property:
            rets = [n for n in ast.walk(g.node) if isinstance(n, ast.Return) and n.value is not None]
            if len(rets) == 1 and isinstance(rets[0].value, ast.Attribute) and \
                    isinstance(rets[0].value.value, ast.Name) and g.param_names and \
                    rets[0].value.value.id == g.param_names[0]:
                from ..index import mangle
                return mangle(self.cls.name, rets[0].value.attr)
        return name

    def radix_field(self) -> str:
        return self.backing_field(self._radix_field())

    def _radix_field(self) -> str:
        """Attribute multiplied into the remainder in the digit extraction (in the descent or a digit helper)."""
        selfn = self.forward.param_names[0]
        al = self.alias_map(self.forward)
        places = [self.level_loop(self.forward)] + [g.node for g in self.level_callees_fwd if g is not self.node_fn]
        for lp in places:
            for n in ast.walk(lp):
                if isinstance(n, ast.AugAssign) and isinstance(n.op, ast.Mult) and isinstance(n.value, ast.Attribute) \
                        and isinstance(n.value.value, ast.Name) and n.value.value.id == selfn:
                    return n.value.attr
                if isinstance(n, ast.AugAssign) and isinstance(n.op, ast.Mult) and isinstance(n.value, ast.Name) \
                        and n.value.id in al and lp is not self.forward.node and \
                        isinstance(n.target, ast.Name) and n.target.id not in al:
                    return al[n.value.id]
                if isinstance(n, ast.Assign) and isinstance(n.value, ast.BinOp) and isinstance(n.value.op, ast.Mult):
                    for side in (n.value.left, n.value.right):
                        if isinstance(side, ast.Attribute) and isinstance(side.value, ast.Name) and \
                                side.value.id == selfn:
                            return side.attr
        raise AnalysisError(f'{self.forward.short}: radix attribute of the digit extraction not found')


def evo_of(ctx: Ctx) -> Evo:
    e = getattr(ctx, '_evo', None)
    if e is None:
        e = ctx._evo = Evo(ctx)
        def nm(which, key):
            if which not in e._halves:
                return f'not recognised: {e._half_err[which]}'
            f = e._halves[which][key]
            return f.short if f is not None else None
        ctx.analysed['evolvent_roles'] = {'forward': nm('fwd', 'descent'), 'cube_to_box': nm('fwd', 'transform'),
                                          'box_to_cube': nm('inv', 'transform'), 'inverse': nm('inv', 'descent'),
                                          'node_rule': nm('fwd', 'array_fn'), 'number_rule': nm('inv', 'array_fn')}
    return e


# ----------------------------------------------------------------------------
# rules used by more than one property
# ----------------------------------------------------------------------------
VALUE_PRESERVING_CALLS = {'asarray', 'array', 'asfarray', 'copy', 'ascontiguousarray', 'asanyarray', 'double', 'float64'}


def _full_slice(k, selfk, nval=None) -> bool:
    """('slice', lo, hi, step) that covers the whole N-vector: [:], [:N], [0:N] (nval: the value N is known to
    have on the explored path, if any)."""
    if not (isinstance(k, tuple) and len(k) == 4 and k[0] == 'slice'):
        return False
    lo, hi, st = k[1], k[2], k[3]
    none = ('const', 'None')
    zero = RF.const(0).key()
    ok_lo = lo == none or lo == zero or lo == ('const', '0')
    ok_hi = hi == none or (isinstance(hi, tuple) and len(C.strip_versions(hi)) == 3 and
                           C.strip_versions(hi)[:2] == ('attr', selfk) and
                           str(C.strip_versions(hi)[2]).endswith('numberOfFloatVariables')) or \
        (nval is not None and hi == nval.key())
    return ok_lo and ok_hi and st == none


def subst_top(rf: RF, mapping) -> RF:
    """Substitute atoms that occur as factors of the polynomial itself (not inside other atoms)."""
    def poly(p) -> RF:
        tot = RF.const(0)
        for m, c in p.items():
            t = RF.const(c)
            for a, ex_ in m:
                r = mapping.get(a)
                t = t * (r if isinstance(r, RF) else RF.atom(a)).ipow(ex_)
            tot = tot + t
        return tot
    return poly(rf.num) / poly(rf.den)


def scratch_element(p: Path, selfv, attr_name: str, idx: int = 0, nval=None, with_bases: bool = False):
    """Element idx of the working vector self.<attr_name> at the end of path p, looking through whole-vector
    (vectorised) stores: (a*b + c)[i] = a[i]*b[i] + c[i] for N-vectors a, b, c.  The vector is followed as an
    object: after `self.v = np.array(y)` stores through either name hit the same array."""
    selfk = key_of(selfv)
    base = ('attr', selfk, attr_name)
    bases = {base}
    idxk = RF.const(idx).key()
    elem = None

    def elementwise(v: RF) -> RF:
        mapping = {}
        for a in v.atoms():
            if not (isinstance(a, tuple) and a):
                continue
            if C.strip_versions(a) in bases:
                mapping[a] = elem if isinstance(elem, RF) else RF.atom(('sub', a, idxk, 0))
            elif a[0] in ('attr', 'var', 'call'):
                mapping[a] = RF.atom(('sub', a, idxk, 0))
        return subst_top(v, mapping)
    for ev in p.events:
        if ev.kind != 'store':
            continue
        whole = None
        if ev.d['tkind'] == 'sub' and isinstance(ev.d['base'], RF):
            b = ev.d['base'].single_atom()
            if isinstance(b, tuple) and C.strip_versions(b) in bases:
                fk = key_of(ev.d['field']) if isinstance(ev.d['field'], RF) else ev.d['field']
                if fk == idxk:
                    elem = ev.d['value']
                    continue
                if _full_slice(fk, selfk, nval):
                    whole = ev.d['value']
        elif ev.d['tkind'] == 'attr' and ev.d['field'] == attr_name and key_of(ev.d['base']) == selfk:
            whole = ev.d['value']
            if isinstance(whole, RF):
                wa = whole.single_atom()
                if isinstance(wa, tuple) and wa and wa[0] == 'call':
                    # the attribute now names the array this call produced
                    v0 = normalise_arrays(whole, selfk, nval)
                    elem = elementwise(v0) if isinstance(v0, RF) else None
                    bases = {base, C.strip_versions(wa)}
                    continue
        if whole is None or not isinstance(whole, RF):
            continue
        elem = elementwise(normalise_arrays(whole, selfk, nval))
    return (elem, bases) if with_bases else elem


def normalise_arrays(v, selfk, nval=None):
    """Accepted idioms of whole-vector code: a[:N] / a[:] of an N-vector is a; np.asarray(a[, dtype]) /
    np.array(a) / np.copy(a) have the values of a.  (Lengths of the bound vectors equal N: C18 decides that for the
    shipped problems.)"""
    if not isinstance(v, RF):
        return v
    for _ in range(6):
        mapping = {}
        for a in C.atoms_deep(v):
            if not isinstance(a, tuple) or not a:
                continue
            if a[0] == 'sub' and len(a) == 4 and _full_slice(a[2], selfk, nval):
                mapping[a] = a[1]
            elif a[0] == 'call' and len(a) == 4 and isinstance(a[1], str) and \
                    a[1].split('.')[-1] in VALUE_PRESERVING_CALLS and isinstance(a[2], tuple) and len(a[2]) >= 1:
                mapping[a] = a[2][0]
        if not mapping:
            break
        v = C.subst_rf(v, mapping)
    return v


def rule_affine(ctx: Ctx, rid: str, which=('P2D', 'D2P'), scope=None):
    """cube -> box map is y*(U-L) + (U+L)/2 per coordinate; box -> cube is its inverse.  Per-coordinate loops
    and whole-array (vectorised) forms are both accepted; attributes cached by the constructor are expanded only
    when nothing they depend on can change afterwards."""
    e = evo_of(ctx)
    ex = e.explorer(unroll=1)
    n = 0
    out = {}
    half = RF.const(Fraction(1, 2))
    # the map is analysed on its cold paths; a lazily cached coefficient must be coherent for that to be the answer
    from . import caches
    roots = ([e.get_image] if 'P2D' in which else []) + ([e.get_inverse, e.get_pre] if 'D2P' in which else [])
    caches.report_incoherent(ctx, rid, e.cls, roots,
                             'the coordinate map then uses coefficients of the previous bounds whenever an earlier '
                             'query had filled the cache')
    for w in which:
        fn = e.p2d if w == 'P2D' else e.d2p
        selfv = var(fn.param_names[0])
        Uarr = attr(selfv, e.backing_field('upperBoundOfFloatVariables'))
        Larr = attr(selfv, e.backing_field('lowerBoundOfFloatVariables'))
        paths_w = C.normal_paths(ex.explore(fn))
        # the coordinate loop may sit in the transform itself or in the helper it delegates to (looked through)
        has_loop = any(isinstance(nn, ast.For) for nn in fn.node.body) or \
            any(ev.kind == 'iter' for p in paths_w for ev in p.events)
        msg = 'cube -> box map is y*(U-L) + (U+L)/2' if w == 'P2D' else 'box -> cube map is (y - (U+L)/2)/(U-L)'
        done = False
        for p in paths_w:
            its = [ev for ev in p.events if ev.kind == 'iter']
            if has_loop and not its:
                continue
            if its:
                i = its[0].d['var']
                sts = [s for s in C.stores_to(p, tkind='sub') if isinstance(s.d['field'], RF) and s.d['field'].equals(i)]
                if not ctx.check(len(sts) == 1, rid, fn.short, fn.loc(), 'one store per coordinate',
                                 f'{fn.short} does not store exactly one value per coordinate',
                                 key=f'{rid}::{fn.short}::one-store'):
                    continue
                s_ = sts[0]
                got = s_.d['value']
                node = s_.node
                U, L = sub(Uarr, i), sub(Larr, i)
                skip = {C.strip_versions(key_of(U)), C.strip_versions(key_of(L))}
                cands = {C.strip_versions(a) for a in (got.atoms() if isinstance(got, RF) else [])
                         if isinstance(a, tuple) and a and a[0] == 'sub' and C.strip_versions(a[2]) == C.strip_versions(key_of(i))}
                cands -= skip
            else:
                # vectorised: the array bound to an attribute of self, or returned
                sts = [s for s in p.stores() if s.depth == 0 and
                       ((s.d['tkind'] == 'attr' and key_of(s.d['base']) == key_of(selfv)) or
                        # self.<scratch>[:N] = ... : a whole-vector store
                        (s.d['tkind'] == 'sub' and _full_slice(key_of(s.d['field']) if isinstance(s.d['field'], RF)
                                                               else s.d['field'], key_of(selfv)) and
                         isinstance(s.d['base'], RF) and isinstance(s.d['base'].single_atom(), tuple) and
                         s.d['base'].single_atom()[:2] == ('attr', key_of(selfv))))]
                got = sts[-1].d['value'] if sts else p.value
                got = normalise_arrays(got, key_of(selfv))
                node = sts[-1].node if sts else fn.node
                U, L = Uarr, Larr
                i = None
                skip = {C.strip_versions(key_of(U)), C.strip_versions(key_of(L))}
                cands = set()
            if not isinstance(got, RF):
                ctx.fail(rid, fn.short, fn.loc(node), f'{fn.short} does not compute an arithmetic expression of the '
                                                      f'coordinate and the bounds', key=f'{rid}::{fn.short}::form')
                continue
            got = C.strip_rf(got)
            got = C.strip_rf(C.subst_rf(got, {C.strip_versions(k): C.strip_versions(v)
                                             for k, v in C.init_equalities(ctx, e.cls, scope).items()}))
            n_before = len(ctx.findings)
            got2 = expand_coefficients(ctx, rid, fn, got, selfv)
            if len(ctx.findings) > n_before:
                done = True
                continue            # the definitions of the coefficients are reported; nothing more to compare
            if got2 is not got:
                got = normalise_arrays(got2, C.strip_versions(key_of(selfv)))
                got = C.strip_rf(got)
                if i is not None:
                    cands = {a for a in got.atoms() if isinstance(a, tuple) and a and a[0] == 'sub' and
                             C.strip_versions(a[2]) == C.strip_versions(key_of(i))} - skip
            if i is None:
                cands = {a for a in got.atoms() if a not in skip and isinstance(a, tuple) and a and
                         a[0] in ('attr', 'var', 'call', 'sub')}
            if not ctx.check(len(cands) == 1, rid, fn.short, fn.loc(node), 'the transformed coordinate is identified',
                             f'{fn.short}: the stored value {C.fmt(got)} is not a function of exactly one input '
                             f'coordinate and the current bounds (inputs found: {sorted(map(C.fmt_key_safe, cands))}); '
                             f'a value cached at construction time is stale after SetBounds',
                             key=f'{rid}::{fn.short}::inputs'):
                continue
            y = RF.atom(next(iter(cands)))
            Us, Ls = C.strip_rf(U), C.strip_rf(L)
            exp = y * (Us - Ls) + (Us + Ls) * half if w == 'P2D' else (y - (Us + Ls) * half) / (Us - Ls)
            n += 1
            done = True
            ok = got.equals(exp)
            ctx.check(ok, rid, fn.short, fn.loc(node), msg,
                      f'{fn.short} computes {C.fmt(got)}; expected {C.fmt(exp)} ({msg} with the evolvent\'s current '
                      f'bounds)', key=ctx.key_for(rid, fn, node))
            out[w] = (got, y, i)
        if has_loop:
            # on the paths: exactly one coordinate loop, over range(N) / range(0, N) with N the dimension attribute
            nk = C.strip_versions(key_of(attr(selfv, e.dim_field)))
            zero_k = key_of(RF.const(0))
            loops_seen = set()
            okl = True
            for p in paths_w:
                for ev in p.events:
                    if ev.kind != 'iter':
                        continue
                    loops_seen.add(id(ev.node))
                    va = ev.d['var'].single_atom() if isinstance(ev.d.get('var'), RF) else None
                    src = va[3] if isinstance(va, tuple) and len(va) == 4 and va[0] == 'iter' else None
                    okl = okl and isinstance(src, tuple) and bool(src) and src[0] == 'range' and \
                        ((len(src) == 2 and C.strip_versions(src[1]) == nk) or
                         (len(src) == 3 and src[1] == zero_k and C.strip_versions(src[2]) == nk))
            okl = okl and len(loops_seen) == 1
            ctx.check(okl, rid, fn.short, fn.loc(), 'the transform loops over all N coordinates',
                      f'{fn.short} does not loop over range(N) coordinates', key=f'{rid}::{fn.short}::all-coordinates')
        if not done and not any(f.rule == rid for f in ctx.findings):
            raise AnalysisError(f'{rid}: could not analyse {fn.short}')
    ctx.floor(rid, 'affine transform stores analysed', n, len(which))
    return out


def coefficient_definitions(ctx: Ctx, e, attrs, bound_fields) -> Dict[str, dict]:
    """Definitions of per-object coefficient attributes that every bound-writing routine maintains, read off the paths
    of those routines (helpers of the class inlined, coordinate loops taken once):
      {'kind': 'array', 'value': RF}            self.D = <whole-array expression of the bounds>
      {'kind': 'elem', 'index': key, 'value': RF}  for i in range(N): self.D[i] = E(i)  /  self.D.append(E(i))
    plus 'problems': stores that modify D after its definition (masks, single elements), definitions that differ
    between routines, containers that inherit an integer dtype from the bounds (zeros_like ...)."""
    memo = getattr(ctx, '_coef_defs', None)
    if memo is None:
        memo = ctx._coef_defs = {}
    ck = tuple(sorted(attrs))
    if ck in memo:
        return memo[ck]
    ex = ctx.explorer(unroll=1, inline=lambda f, st: f.cls is e.cls and f.name != '__init__')
    out: Dict[str, dict] = {a: {'kind': None, 'problems': []} for a in attrs}
    for name, m in sorted(e.cls.methods.items()):
        if m.kind != 'function' or not m.param_names or (name.startswith('_') and name != '__init__'):
            continue
        selfv = var(m.param_names[0])
        selfk = key_of(selfv)
        try:
            paths = C.normal_paths(ex.explore(m))
        except AnalysisError:
            continue
        for p in paths:
            evs = p.events
            if not any(ev.kind == 'store' and ev.d['tkind'] == 'attr' and ev.d['field'] in bound_fields for ev in evs):
                continue
            # the path on which every coordinate loop made its (single) trip
            tripped = {id(ev.node) for ev in evs if ev.kind == 'iter'}
            if any(ev.kind == 'loopexit' and id(ev.node) not in tripped for ev in evs):
                continue
            for a in attrs:
                d = {'kind': None, 'problems': []}
                whole = [ev for ev in evs if ev.kind == 'store' and ev.d['tkind'] == 'attr' and ev.d['field'] == a
                         and key_of(ev.d['base']) == selfk]
                if not whole:
                    continue
                w = whole[-1]
                iw = evs.index(w)
                akey = C.strip_versions(key_of(attr(selfv, a)))

                def on_attr(x) -> bool:
                    return x is not None and (C.strip_versions(key_of(x)) == akey or key_of(x) == key_of(w.d['value']))
                elems = [ev for ev in evs[iw + 1:] if ev.kind == 'store' and ev.d['tkind'] == 'sub' and on_attr(ev.d['base'])]
                from ..index import mangle as _mangle

                def recv_is_attr(ev) -> bool:
                    fn_ = getattr(ev.node, 'func', None)
                    return isinstance(fn_, ast.Attribute) and isinstance(fn_.value, ast.Attribute) and \
                        isinstance(fn_.value.value, ast.Name) and _mangle(e.cls.name, fn_.value.attr) == a
                apps = [ev for ev in evs[iw + 1:] if ev.kind == 'call' and ev.d['name'] == 'append' and
                        recv_is_attr(ev) and ev.d['args']]
                v0 = w.d['value']
                v0a = v0.single_atom() if isinstance(v0, RF) else None
                inherits = isinstance(v0a, tuple) and v0a and v0a[0] == 'call' and isinstance(v0a[1], str) and \
                    v0a[1].split('.')[-1] in ('zeros_like', 'empty_like', 'ones_like', 'full_like') and \
                    'dtype' not in (C.call_event_of_result(p, v0).d.get('kwargs') or {}
                                    if C.call_event_of_result(p, v0) is not None else {})
                loop_iters = [ev for ev in evs[iw + 1:] if ev.kind == 'iter']
                defs = elems + apps
                in_loop = []
                for ev in defs:
                    prev_it = [it for it in loop_iters if evs.index(it) < evs.index(ev)]
                    if prev_it:
                        in_loop.append((ev, prev_it[-1]))
                if not defs and isinstance(v0, RF) and not (isinstance(v0a, tuple) and v0a and v0a[0] in ('call', 'display')):
                    d.update(kind='array', value=normalise_arrays(v0, selfk))
                elif len(defs) == 1 and len(in_loop) == 1:
                    ev, it = in_loop[0]
                    val = ev.d['value'] if ev.kind == 'store' else ev.d['args'][0]
                    idx_ok = ev.kind == 'call' or key_of(ev.d['field']) == key_of(it.d['var'])
                    if isinstance(val, RF) and idx_ok:
                        d.update(kind='elem', index=key_of(it.d['var']), value=val)
                        if inherits:
                            d['problems'].append((w, f'{a} is created with the dtype of the bound vector it is shaped '
                                                     f'after ({C.fmt(v0)}): for integer bounds the coefficients are '
                                                     f'truncated when they are stored'))
                    else:
                        d['problems'].append((ev, f'the definition of {a} is not an element-wise expression'))
                elif defs and isinstance(v0, RF) and not (isinstance(v0a, tuple) and v0a and v0a[0] in ('call', 'display')):
                    d.update(kind='array', value=normalise_arrays(v0, selfk))
                    for ev in defs:
                        d['problems'].append((ev, f'{a} is modified after its definition '
                                                  f'({ast.unparse(ev.node)[:50]}): it no longer equals '
                                                  f'{C.fmt(d["value"])} for every coordinate'))
                else:
                    d['problems'].append((w, f'the definition of {a} could not be read'))
                if d.get('value') is not None:
                    # the routine stores copies of its bound parameters in the bound attributes first (R05.3 box-copied
                    # clause): read the parameters as those attributes
                    pm = {}
                    for bname in ('lowerBoundOfFloatVariables', 'upperBoundOfFloatVariables'):
                        if bname in m.param_names:
                            pm[('var', bname)] = C.strip_versions(key_of(attr(selfv, e.backing_field(bname))))
                    v_ = normalise_arrays(C.strip_rf(d['value']), C.strip_versions(selfk))
                    d['value'] = C.strip_rf(C.subst_rf(C.strip_rf(v_), pm)) if pm else C.strip_rf(v_)
                prev = out[a]
                # one readable definition is kept (the routines that maintain the attribute go through one helper in
                # practice); problems found on any of them are reported once
                if prev['kind'] is None and not prev['problems']:
                    out[a] = d
                else:
                    if prev['kind'] is None and d['kind'] is not None:
                        d['problems'] = prev['problems'] + [x for x in d['problems']
                                                            if x[1] not in [y[1] for y in prev['problems']]]
                        out[a] = d
                    else:
                        prev['problems'] += [x for x in d['problems'] if x[1] not in [y[1] for y in prev['problems']]]
    memo[ck] = out
    return out


def _generic_index(d) -> RF:
    if d['kind'] == 'elem':
        return C.subst_rf(d['value'], {d['index']: ('coef-index',)})
    return d['value']


def expand_coefficients(ctx: Ctx, rid: str, fn: FuncInfo, got, selfv):
    """Rewrite maintained coefficient attributes in `got` into their definitions over the bounds (reporting what is
    wrong with the definitions, if anything).  Returns the rewritten value, or `got` unchanged."""
    e = evo_of(ctx)
    if not isinstance(got, RF):
        return got
    selfk_ = key_of(selfv)
    scr_ = set(e._scratch_attrs_of(e.opt('fwd', 'descent'))) if e.opt('fwd', 'descent') is not None else set()
    bfs = {e.backing_field('upperBoundOfFloatVariables'), e.backing_field('lowerBoundOfFloatVariables')}
    extra = {a[2] for a in C.atoms_deep(got) if isinstance(a, tuple) and len(a) >= 3 and a[0] == 'attr'
             and C.strip_versions(a[1]) == C.strip_versions(selfk_) and isinstance(a[2], str)
             and a[2] not in bfs and a[2] not in scr_ and a[2] != e.dim_field}
    if not extra or not _maintained_with_bounds(ctx, e, extra, bfs):
        return got
    defs = coefficient_definitions(ctx, e, extra, bfs)
    mapping = {}
    g = C.strip_rf(got)
    for a in sorted(extra):
        d = defs.get(a) or {'kind': None, 'problems': []}
        for ev, why in d['problems']:
            ctx.fail(rid, ev.func.short, ev.loc(), f'{why} - {fn.short} maps the coordinate with it, so the map is no '
                                                   f'longer y*(U-L) + (U+L)/2 (or its inverse) for every box',
                     key=f'{rid}::{ev.func.short}::coefficient::{a}')
        if d['kind'] is None:
            continue
        akey = C.strip_versions(key_of(attr(selfv, a)))
        for at in C.atoms_deep(g):
            if at == akey and d['kind'] == 'array':
                mapping[at] = C.strip_versions(key_of(C.strip_rf(d['value']))) if C.strip_rf(d['value']).single_atom() \
                    is not None else C.strip_rf(d['value']).key()
            elif isinstance(at, tuple) and len(at) == 3 and at[0] == 'sub' and at[1] == akey:
                if d['kind'] == 'elem':
                    v = C.strip_rf(C.subst_rf(C.strip_rf(d['value']), {C.strip_versions(d['index']): at[2]}))
                else:
                    # element of a whole-array definition: the arrays of the bounds read at the same index
                    v = C.strip_rf(d['value'])
                    arrs = {x for x in v.atoms() if isinstance(x, tuple) and len(x) == 3 and x[0] == 'attr'}
                    v = C.subst_rf(v, {x: ('sub', x, at[2]) for x in arrs})
                mapping[at] = v.key() if v.single_atom() is None else v.single_atom()
    if mapping:
        for _ in range(3):
            g = C.strip_rf(C.subst_rf(g, mapping))
        return g
    return got


def refuse_maintained_coefficients(ctx: Ctx, rid: str, fn: FuncInfo, got, selfv):
    """If `got` is written in terms of coefficient attributes that every bound-writing routine maintains, the map is
    undecided for this template (exit 2) rather than wrong."""
    e = evo_of(ctx)
    if not isinstance(got, RF):
        return
    selfk_ = key_of(selfv)
    scr_ = set(e._scratch_attrs_of(e.opt('fwd', 'descent'))) if e.opt('fwd', 'descent') is not None else set()
    bfs = {e.backing_field('upperBoundOfFloatVariables'), e.backing_field('lowerBoundOfFloatVariables')}
    extra = {a[2] for a in C.atoms_deep(got) if isinstance(a, tuple) and len(a) >= 3 and a[0] == 'attr'
             and C.strip_versions(a[1]) == C.strip_versions(selfk_) and isinstance(a[2], str)
             and a[2] not in bfs and a[2] not in scr_ and a[2] != e.dim_field}
    if extra and _maintained_with_bounds(ctx, e, extra, bfs):
        raise AnalysisError(f'{rid}: {fn.short} maps the coordinate with coefficients kept in {sorted(extra)}; every '
                            f'routine that rewrites the bounds rewrites them too, but their definition is not readable '
                            f'by the affine-map template: undecided')


def _maintained_with_bounds(ctx: Ctx, e, attrs, bound_fields) -> bool:
    """Every public routine of the evolvent (constructor included) that stores a bound attribute stores each of
    `attrs` later on the same path (directly or in a helper of the class)."""
    ex = ctx.explorer(unroll=1, inline=lambda f, st: f.cls is e.cls and f.name != '__init__')
    seen_writer = False
    for name, m in sorted(e.cls.methods.items()):
        if m.kind != 'function' or not m.param_names:
            continue
        if name.startswith('_') and name != '__init__':
            continue
        selfk = key_of(var(m.param_names[0]))
        try:
            paths = C.normal_paths(ex.explore(m))
        except AnalysisError:
            return False
        for p in paths:
            evs = p.events
            last_b = max([i for i, ev in enumerate(evs) if ev.kind == 'store' and ev.d['tkind'] == 'attr' and
                          ev.d['field'] in bound_fields], default=None)
            if last_b is None:
                continue
            seen_writer = True
            for a in attrs:
                if not any(ev.kind == 'store' and ev.d['tkind'] == 'attr' and ev.d['field'] == a
                           for ev in evs[last_b + 1:]):
                    return False
    return seen_writer


def solver_evolvent_constructions(ctx: Ctx):
    """(path, new-event) for every Evolvent construction on the paths of Solver.__init__, looking through
    factories (functions / class methods that lead to Evolvent.__init__); argument values are in terms of the
    Solver constructor's own parameters."""
    e = evo_of(ctx)
    roles = C.roles_of(ctx)
    init = e.cls.methods['__init__']
    iq = roles.fq(init)
    si = ctx.ix.func('Solver.__init__')
    ex = ctx.explorer(inline_ctor=False, inline=lambda f, st: f.name != '__init__' and iq in roles.reach(f))
    out = []
    for p in C.normal_paths(ex.explore(si)):
        for ne in C.new_events(p):
            if ne.d['cls'].is_subclass_of(e.cls):
                out.append((p, ne))
    return si, out


def rule_bounds_binding(ctx: Ctx, rid: str):
    """Solver binds the problem's lower/upper bounds to the evolvent's lower/upper parameters, which are stored
    (copied) into the attributes the affine map reads."""
    e = evo_of(ctx)
    init = e.cls.methods['__init__']
    names = init.param_names[1:]
    si, cons = solver_evolvent_constructions(ctx)
    prob = var(si.param_names[1])
    n = 0
    for p, ne in cons:
        if True:
            n += 1
            bound = dict(zip(names, ne.d['args']))
            bound.update(ne.d['kwargs'])
            for pname, fld in (('lowerBoundOfFloatVariables', 'lowerBoundOfFloatVariables'),
                               ('upperBoundOfFloatVariables', 'upperBoundOfFloatVariables'),
                               ('numberOfFloatVariables', 'numberOfFloatVariables')):
                got = C.through_value_copies(p, bound.get(pname))
                if got is not None:
                    got = C.resolve_new_fields(ctx, p, got)
                ok = got is not None and C.same_mod_ver(got, attr(prob, fld))
                ctx.check(ok, rid, si.short, si.loc(ne.node), f'Evolvent({pname}=problem.{fld})',
                          f'the solver passes {C.fmt(got)} as the evolvent\'s {pname}; expected problem.{fld}',
                          key=f'{rid}::{si.short}::{pname}')
    ctx.floor(rid, 'Evolvent construction sites in the solver', n, 1)
    rule_box_copied(ctx, rid)


def rule_no_shared_state(ctx: Ctx, rid: str):
    """The evolvent keeps no state outside its instances: a class attribute, module variable or module-level table
    written by evolvent code is shared by all evolvents of the process - what one instance (of another dimension,
    density or box) leaves there is read by the queries of the others."""
    ctx.rule(rid, 'no process-wide state in the evolvent: evolvent code writes no class attribute, module variable or '
                  'object allocated at import time')
    from . import c12
    e = evo_of(ctx)
    pkg = e.cls.module.name.rsplit('.', 1)[0]
    n = c12.r12_2(ctx, only_modules=[pkg], rid=rid,
                  consequence='every Evolvent of the process reads it, so the answer of a query depends on which other '
                              'evolvents were constructed or queried before')
    ctx.floor(rid, 'run-time mutation sites in the evolvent package', n, 20)
    if not any(f.rule == rid for f in ctx.findings):
        ctx.ok(rid, e.cls.name, f'{n} run-time mutation sites in the evolvent package: all on instance or call-local '
                                f'objects', e.cls.module.relpath)


def rule_box_copied(ctx: Ctx, rid: str):
    """The constructor and SetBounds store *copies* of the bound parameters under the same names: the evolvent's box
    is its own, nobody holding the original arrays can move it afterwards."""
    e = evo_of(ctx)
    init = e.cls.methods['__init__']
    # constructor and SetBounds store (copies of) the parameters under the same names; a constructor that delegates
    # to SetBounds (or to a helper of the class) is looked through
    ex2 = ctx.explorer(inline=lambda f, st: f.cls is e.cls and f.name != '__init__')
    for fn in (init, e.cls.methods.get('SetBounds')):
        if fn is None:
            continue
        selfv = var(fn.param_names[0])
        for p in C.normal_paths(ex2.explore(fn)):
            for fld in ('lowerBoundOfFloatVariables', 'upperBoundOfFloatVariables'):
                v = p.state.heap.get((key_of(selfv), e.backing_field(fld)))
                ok = False
                if v is not None:
                    ce = C.call_event_of_result(p, v)
                    if ce is not None and ce.d['args'] and key_of(ce.d['args'][0]) == key_of(var(fld)) and \
                            ce.d.get('callee') in ('numpy.copy', 'numpy.array'):
                        ok = True
                ctx.check(ok, rid, fn.short, fn.loc(), f'self.{fld} := copy of the parameter {fld}',
                          f'{fn.short} does not store a copy of its {fld} parameter in self.{fld} '
                          f'(lower/upper swapped or not copied)', key=f'{rid}::{fn.short}::{fld}')


ORIENT_CONST = (0, 1, -1)


def rule_cube_bound(ctx: Ctx, rid: str):
    """Inductive template |y_i| + r <= 1/2: r0 = 1/2, r *= c (c <= 1/2) before the accumulation y_i += r*u_i,
    and the orientation entries u_i stay in {-1, 0, 1} (closure of the stores into the orientation arrays)."""
    e = evo_of(ctx)
    f = e.forward
    lp = e.level_loop(f)
    selfn = f.param_names[0]
    # --- the accumulation statement and the halving statement inside the level loop
    acc = None
    acc_loop = None
    # local aliases of attributes of self (y = self.yValues)
    aliases = set(Evo.alias_map(f))

    def is_scratch(t) -> bool:
        if isinstance(t, ast.Subscript):
            t = t.value
        if isinstance(t, ast.Attribute) and isinstance(t.value, ast.Name) and t.value.id == selfn:
            return True
        return isinstance(t, ast.Name) and t.id in aliases
    for st in lp.body:
        for n in ast.walk(st):
            if isinstance(n, ast.AugAssign) and isinstance(n.op, (ast.Add, ast.Sub)) and is_scratch(n.target):
                acc, acc_loop = n, st
    if not ctx.check(acc is not None, rid, f.short, f.loc(lp), 'accumulation y_i += r*u_i found in the level loop',
                     'the level loop of the forward descent has no accumulation into the scratch array',
                     key=f'{rid}::{f.short}::accumulation'):
        return
    v = acc.value
    ok_form = isinstance(v, ast.BinOp) and isinstance(v.op, ast.Mult)
    rname = uarr = None
    if ok_form:
        for a, b in ((v.left, v.right), (v.right, v.left)):
            if isinstance(a, ast.Name) and isinstance(b, ast.Subscript) and isinstance(b.value, ast.Name):
                rname, uarr = a.id, b.value.id
            elif isinstance(a, ast.Name) and isinstance(b, ast.Name) and not isinstance(acc.target, ast.Subscript):
                # whole-vector form  y += r * u : the array operand is the one created by np.zeros/np.ones
                created = {st.targets[0].id for st in ast.walk(f.node) if isinstance(st, ast.Assign) and
                           len(st.targets) == 1 and isinstance(st.targets[0], ast.Name) and
                           isinstance(st.value, ast.Call) and isinstance(st.value.func, ast.Attribute) and
                           st.value.func.attr in ('zeros', 'ones')}
                if b.id in created and a.id not in created:
                    rname, uarr = a.id, b.id
    ctx.check(rname is not None, rid, f.short, f.loc(acc), 'the increment is r * u[i] with a scalar step r',
              f'the increment of the accumulation is {ast.unparse(v)}, not step*orientation[i]',
              key=f'{rid}::{f.short}::increment-form')
    if rname is None:
        return
    # r: initial value 1/2 before the loop, one multiplicative update with c <= 1/2 before the accumulation
    r_assigns_before = [st for st in f.node.body if st is not lp and isinstance(st, (ast.Assign, ast.AnnAssign)) and
                        any(isinstance(t, ast.Name) and t.id == rname for t in
                            (st.targets if isinstance(st, ast.Assign) else [st.target])) and st.value is not None]
    loop_vars = {t.id for t in ast.walk(lp.target) if isinstance(t, ast.Name)}
    if rname in loop_vars:
        # for r in <table of steps>: the bound |y_i| + r <= 1/2 then depends on the contents of a precomputed
        # array (r_j <= 2^-(j+2)), which this template cannot read - undecided, not a violation
        raise AnalysisError(f'{rid}: {f.short}: the step of the descent is an element of a precomputed table '
                            f'({ast.unparse(lp.iter)[:60]}); the cube bound is not decided for this form')
    r0 = None
    if r_assigns_before:
        lv = r_assigns_before[-1].value
        if isinstance(lv, ast.Constant) and isinstance(lv.value, (int, float)):
            r0 = Fraction(repr(lv.value))
    ctx.check(r0 is not None and r0 <= Fraction(1, 2) and r0 > 0, rid, f.short,
              f.loc(r_assigns_before[-1]) if r_assigns_before else f.loc(),
              'the step starts at 1/2 (half the cube side)', f'the step starts at {r0}, not at (at most) 1/2: images can '
                                                             f'leave the cube', key=f'{rid}::{f.short}::r0')
    upd = []
    for i, st in enumerate(lp.body):
        for n in ast.walk(st):
            if isinstance(n, (ast.AugAssign, ast.Assign)):
                tg = [n.target] if isinstance(n, ast.AugAssign) else n.targets
                if any(isinstance(t, ast.Name) and t.id == rname for t in tg):
                    upd.append((i, st, n))
    c = None
    ok_upd = len(upd) == 1
    if ok_upd:
        i, st, n = upd[0]
        if isinstance(n, ast.AugAssign) and isinstance(n.op, ast.Mult) and isinstance(n.value, ast.Constant):
            c = Fraction(repr(n.value.value))
        elif isinstance(n, ast.AugAssign) and isinstance(n.op, ast.Div) and isinstance(n.value, ast.Constant) and n.value.value:
            c = 1 / Fraction(repr(n.value.value))
        elif isinstance(n, ast.Assign) and isinstance(n.value, ast.BinOp) and isinstance(n.value.op, (ast.Mult, ast.Div)):
            l, r_ = n.value.left, n.value.right
            if isinstance(l, ast.Name) and l.id == rname and isinstance(r_, ast.Constant):
                c = Fraction(repr(r_.value)) if isinstance(n.value.op, ast.Mult) else 1 / Fraction(repr(r_.value))
            elif isinstance(r_, ast.Name) and r_.id == rname and isinstance(l, ast.Constant) and isinstance(n.value.op, ast.Mult):
                c = Fraction(repr(l.value))
        ok_upd = c is not None and 0 < c <= Fraction(1, 2) and st is n and i < lp.body.index(acc_loop)
    ctx.check(ok_upd, rid, f.short, f.loc(upd[0][2]) if upd else f.loc(lp),
              f'the step is multiplied by c = {c} <= 1/2 once per level, before the accumulation',
              f'the step of the forward descent is not shrunk by a factor <= 1/2 exactly once per level before the '
              f'accumulation (found {[ast.unparse(u[2]) for u in upd]}): |y_i| + r <= 1/2 is no longer inductive and '
              f'images can leave the cube', key=f'{rid}::{f.short}::halving')
    # --- closure of the orientation entries
    funcs = [f]
    for g in e.level_callees_fwd:
        for h in [g] + e._closure(g):
            if h not in funcs:
                funcs.append(h)
    arrays: Dict[str, Set[str]] = {fn.short: set() for fn in funcs}
    arrays[f.short].add(uarr)
    blocks = {fn.short: _block_index(fn.node) for fn in funcs}
    loop_targets = {fn.short: {t.id for n in ast.walk(fn.node) if isinstance(n, ast.For)
                               for t in ast.walk(n.target) if isinstance(t, ast.Name)} for fn in funcs}
    bad: List[Tuple[FuncInfo, ast.AST, str]] = []
    n_stores = 0
    checked_scalars: Dict[str, Set[str]] = {fn.short: set() for fn in funcs}
    for _round in range(10):
        changed = False
        bad = []
        n_stores = 0
        for caller in funcs:
            for n in ast.walk(caller.node):
                if not isinstance(n, ast.Call):
                    continue
                for callee in ctx.pta.internal_callees(caller, n):
                    if callee not in funcs or callee is caller:
                        continue
                    off = 1 if (callee.cls is not None and not callee.is_static) else 0
                    bound = [(callee.param_names[off + k] if off + k < len(callee.param_names) else None, a_)
                             for k, a_ in enumerate(n.args)]
                    bound += [(kw.arg, kw.value) for kw in n.keywords if kw.arg in callee.param_names]
                    for pn, a_ in bound:
                        if pn is None or not isinstance(a_, ast.Name):
                            continue
                        if a_.id in arrays[caller.short] and pn not in arrays[callee.short]:
                            arrays[callee.short].add(pn)
                            changed = True
                        if pn in arrays[callee.short] and a_.id not in arrays[caller.short]:
                            arrays[caller.short].add(a_.id)
                            changed = True
        for fn in funcs:
            A = arrays[fn.short]
            blk = blocks[fn.short]

            def all_defs(name):
                out = []
                for n in ast.walk(fn.node):
                    if isinstance(n, ast.Assign) and any(isinstance(t, ast.Name) and t.id == name for t in n.targets):
                        out.append(n)
                    elif isinstance(n, ast.AugAssign) and isinstance(n.target, ast.Name) and n.target.id == name:
                        out.append(n)
                    elif isinstance(n, ast.AnnAssign) and isinstance(n.target, ast.Name) and n.target.id == name \
                            and n.value is not None:
                        out.append(n)
                return out

            def scalar_ok(name: str, at_stmt, depth=0) -> Optional[str]:
                """None if every definition of the scalar that can reach at_stmt is within the grammar."""
                if depth > 6:
                    return f'definition chain of {name} too deep'
                B, k = blk.get(id(at_stmt), (None, None))
                if B is not None:
                    for j in range(k - 1, -1, -1):
                        st = B[j]
                        if isinstance(st, (ast.Assign, ast.AnnAssign)) and st.value is not None and any(
                                isinstance(t, ast.Name) and t.id == name
                                for t in (st.targets if isinstance(st, ast.Assign) else [st.target])):
                            return rhs_ok(st.value, st, depth + 1)      # straight-line reaching definition
                        if any(isinstance(x, (ast.Assign, ast.AugAssign, ast.For)) and _assigns(x, name)
                               for x in ast.walk(st)):
                            break       # assigned inside a compound statement: fall back to all definitions
                if name in fn.param_names:
                    return f'parameter {name} flows into an orientation entry'
                if name in loop_targets[fn.short]:
                    return f'loop index {name} can flow into an orientation entry'
                ds = all_defs(name)
                if not ds:
                    return f'{name} has no definition'
                for d in ds:
                    if isinstance(d, ast.AugAssign) and not isinstance(d.op, ast.Mult):
                        return f'{ast.unparse(d)} is not a product'
                    if id(d) in visiting:
                        continue
                    visiting.add(id(d))
                    r_ = rhs_ok(d.value, d, depth + 1)
                    visiting.discard(id(d))
                    if r_:
                        return r_
                checked_scalars[fn.short].add(name)
                return None

            def rhs_ok(x, at_stmt, depth=0) -> Optional[str]:
                if isinstance(x, ast.Constant):
                    return None if (isinstance(x.value, (int, float)) and not isinstance(x.value, bool)
                                    and x.value in ORIENT_CONST) else f'constant {x.value!r} is not 0, 1 or -1'
                if isinstance(x, ast.UnaryOp) and isinstance(x.op, (ast.USub, ast.UAdd)):
                    return rhs_ok(x.operand, at_stmt, depth)
                if isinstance(x, ast.BinOp) and isinstance(x.op, ast.Mult):
                    return rhs_ok(x.left, at_stmt, depth) or rhs_ok(x.right, at_stmt, depth)
                if isinstance(x, ast.Subscript) and isinstance(x.value, ast.Name):
                    nonlocal_add(x.value.id)
                    return None
                if isinstance(x, ast.IfExp):
                    return rhs_ok(x.body, at_stmt, depth) or rhs_ok(x.orelse, at_stmt, depth)
                if isinstance(x, ast.Name) and (x.id in A or x.id in created_here):
                    nonlocal_add(x.id)
                    return None          # a whole orientation array (vectorised form)
                if isinstance(x, ast.Name):
                    return scalar_ok(x.id, at_stmt, depth)
                return f'{ast.unparse(x)} is not built from 0, 1, -1, orientation entries, negation and products'

            def nonlocal_add(arr):
                nonlocal changed
                if arr not in A:
                    A.add(arr)
                    changed = True
            visiting: Set[int] = set()
            created_here = {st.targets[0].id for st in ast.walk(fn.node) if isinstance(st, ast.Assign) and
                            len(st.targets) == 1 and isinstance(st.targets[0], ast.Name) and
                            isinstance(st.value, ast.Call) and isinstance(st.value.func, ast.Attribute) and
                            st.value.func.attr in ('zeros', 'ones')}
            for n in ast.walk(fn.node):
                pairs = []
                if isinstance(n, ast.Assign) and len(n.targets) == 1:
                    t0 = n.targets[0]
                    if isinstance(t0, (ast.Tuple, ast.List)):
                        # a, b = b, a : element-wise; anything else cannot be matched
                        if isinstance(n.value, (ast.Tuple, ast.List)) and len(n.value.elts) == len(t0.elts):
                            pairs = list(zip(t0.elts, n.value.elts))
                        else:
                            pairs = [(t, None) for t in t0.elts]
                    else:
                        pairs = [(t0, n.value)]
                elif isinstance(n, ast.AugAssign):
                    pairs = [(n.target, n.value)]
                for tgt, val in pairs:
                    is_elem = isinstance(tgt, ast.Subscript) and isinstance(tgt.value, ast.Name) and tgt.value.id in A
                    # whole-array update of an orientation array (u *= w); the creation u = np.zeros(...) is
                    # examined separately below
                    is_whole = isinstance(tgt, ast.Name) and tgt.id in A and isinstance(n, ast.AugAssign)
                    if not (is_elem or is_whole):
                        continue
                    n_stores += 1
                    if val is None:
                        bad.append((fn, n, f'{ast.unparse(n)}: unpacking into orientation entries from a non-tuple'))
                        continue
                    if isinstance(n, ast.AugAssign) and not isinstance(n.op, ast.Mult):
                        bad.append((fn, n, f'{ast.unparse(n)}: orientation entries may only be multiplied'))
                        continue
                    why = rhs_ok(val, n)
                    if why:
                        bad.append((fn, n, f'{ast.unparse(n)}: {why}'))
        if not changed:
            break
    # array creations
    for fn in funcs:
        for n in ast.walk(fn.node):
            if isinstance(n, ast.Assign) and len(n.targets) == 1 and isinstance(n.targets[0], ast.Name) and \
                    n.targets[0].id in arrays[fn.short]:
                v = n.value
                okc = isinstance(v, ast.Call) and isinstance(v.func, ast.Attribute) and v.func.attr in ('zeros', 'ones')
                if not okc:
                    bad.append((fn, n, f'{ast.unparse(n)[:60]}: orientation array is not created by np.zeros/np.ones'))
    for fn, n, why in bad:
        ctx.fail(rid, fn.short, fn.loc(n), f'orientation entries are not confined to {{-1, 0, 1}}: {why}; the cube '
                                           f'bound |y_i| < 1/2 is lost',
                 key=f'{rid}::{fn.short}::closure::{" ".join(ast.unparse(n).split())[:60]}')
    if not bad:
        ctx.ok(rid, f.short, f'{n_stores} stores into the orientation arrays '
                             f'{sorted(set().union(*arrays.values()))} (scalars '
                             f'{sorted(set().union(*checked_scalars.values()))}) stay within {{-1, 0, 1}}', f.loc())
    ctx.floor(rid, 'stores into orientation arrays', n_stores, 4)


def _assigns(x, name) -> bool:
    if isinstance(x, ast.Assign):
        return any(isinstance(t, ast.Name) and t.id == name for t in x.targets)
    if isinstance(x, ast.AugAssign):
        return isinstance(x.target, ast.Name) and x.target.id == name
    if isinstance(x, ast.For):
        return any(isinstance(t, ast.Name) and t.id == name for t in ast.walk(x.target))
    return False


def _block_index(fnode) -> Dict[int, Tuple[list, int]]:
    """statement id -> (the statement list it sits in, its index)."""
    out: Dict[int, Tuple[list, int]] = {}

    def walk(stmts):
        for i, st in enumerate(stmts):
            out[id(st)] = (stmts, i)
            for fld in ('body', 'orelse', 'finalbody'):
                sub_ = getattr(st, fld, None)
                if isinstance(sub_, list) and sub_ and isinstance(sub_[0], ast.stmt):
                    walk(sub_)
            if isinstance(st, ast.Try):
                for h in st.handlers:
                    walk(h.body)
    walk(fnode.body)
    return out


def _is_index_position(root: ast.AST, name: ast.Name) -> bool:
    """Is this Name used inside a subscript index (then it is an index, not an orientation value)?"""
    for n in ast.walk(root):
        if isinstance(n, ast.Subscript):
            for y in ast.walk(n.slice):
                if y is name:
                    return True
    return False
