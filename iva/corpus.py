"""Seeded variants (must fire) and behaviour-preserving twins (must stay silent).

Each entry edits one function of /repo's current tree inside a scratch copy.
An entry whose 'old' text no longer occurs exactly once in the function is
skipped (counted, not failed).
"""
from .selftest import Edit

M = 'iOpt/method/method.py'
P = 'iOpt/method/process.py'
SD = 'iOpt/method/search_data.py'
EV = 'iOpt/evolvent/evolvent.py'
SV = 'iOpt/solver.py'

CORPUS = []


def fire(id, prop, file, func, old, new, rule=None, why='', also=None):
    CORPUS.append(Edit(id, prop, file, func, old, new, 'fire', rule, why, also))


def twin(id, prop, file, func, old, new, why='', also=None):
    CORPUS.append(Edit(id, prop, file, func, old, new, 'silent', None, why, also))


def dfire(id, prop, diff, rule=None, why=''):
    """A kept patch (path relative to /verif) that must make prop's checker fire."""
    CORPUS.append(Edit(id, prop, '@diff', None, diff, '', 'fire', rule, why, None))


def dtwin(id, prop, diff, why=''):
    """A kept behaviour-preserving patch: prop's checker ('*': every checker) must stay silent."""
    CORPUS.append(Edit(id, prop, '@diff', None, diff, '', 'silent', None, why, None))


# ----------------------------------------------------------------------------- C02
fire('c02-r-2to4', 'C02', M, 'Method.CalculateGlobalR',
     'globalR = 2 * deltax - 4 * (zr - self.Z[v]) / (r * self.M[v])',
     'globalR = 4 * deltax - 4 * (zr - self.Z[v]) / (r * self.M[v])', 'R02.2')
fire('c02-r-zr-zl', 'C02', M, 'Method.CalculateGlobalR',
     'globalR = 2 * deltax - 4 * (zl - self.Z[v]) / (r * self.M[v])',
     'globalR = 2 * deltax - 4 * (zr - self.Z[v]) / (r * self.M[v])', 'R02.2')
fire('c02-r-eq-sign', 'C02', M, 'Method.CalculateGlobalR',
     '2 * (zr + zl - 2 * self.Z[v]) / (r * self.M[v])', '2 * (zr + zl - self.Z[v]) / (r * self.M[v])', 'R02.2')
fire('c02-r-noleft', 'C02', M, 'Method.CalculateGlobalR', 'curr_point.globalR = -np.inf', 'curr_point.globalR = 0.0',
     'R02.2')
fire('c02-r-lt-gt', 'C02', M, 'Method.CalculateGlobalR', 'elif left_point.GetIndex() < curr_point.GetIndex():',
     'elif left_point.GetIndex() > curr_point.GetIndex():', 'R02.2')
fire('c02-r-extra-writer', 'C02', M, 'Method.RenewSearchData', 'self.CalculateM(newpoint, oldpoint.GetLeft())',
     'oldpoint.globalR = 0.0\n        self.CalculateM(newpoint, oldpoint.GetLeft())', 'R02.2')
twin('c02-r-pow-star', 'C02', M, 'Method.CalculateGlobalR',
     '(zr - zl) * (zr - zl) / (deltax * self.M[v] * self.M[v] * r * r)',
     '(zr - zl) ** 2 / (deltax * (self.M[v] * r) ** 2)')
twin('c02-r-factored', 'C02', M, 'Method.CalculateGlobalR',
     'globalR = 2 * deltax - 4 * (zr - self.Z[v]) / (r * self.M[v])',
     'rM = r * self.M[v]\n            globalR = 2 * (deltax - 2 * (zr - self.Z[v]) / rM)')
twin('c02-r-direct-field', 'C02', M, 'Method.CalculateGlobalR', 'v = left_point.GetIndex()\n',
     'v = left_point.GetIndex()\n            zl = left_point.GetZ()\n')
twin('c02-r-mathinf', 'C02', M, 'Method.CalculateGlobalR', 'curr_point.globalR = -np.inf',
     "curr_point.globalR = float('-inf')")
twin('c02-r-eq-idx-left', 'C02', M, 'Method.CalculateGlobalR',
     'if left_point.GetIndex() == curr_point.GetIndex():\n            v = curr_point.GetIndex()',
     'if left_point.GetIndex() == curr_point.GetIndex():\n            v = left_point.GetIndex()')

fire('c02-m-noguard', 'C02', M, 'Method.CalculateM', 'if m > self.M[index]:', 'if True:', 'R02.3')
fire('c02-m-reversed', 'C02', M, 'Method.CalculateM', 'if m > self.M[index]:', 'if m < self.M[index]:', 'R02.3')
fire('c02-m-nodelta', 'C02', M, 'Method.CalculateM',
     'm = abs(left_point.GetZ() - curr_point.GetZ()) / curr_point.delta',
     'm = abs(left_point.GetZ() - curr_point.GetZ())', 'R02.3')
fire('c02-m-noabs', 'C02', M, 'Method.CalculateM',
     'm = abs(left_point.GetZ() - curr_point.GetZ()) / curr_point.delta',
     'm = (left_point.GetZ() - curr_point.GetZ()) / curr_point.delta', 'R02.3')
fire('c02-m-noindexguard', 'C02', M, 'Method.CalculateM', 'if left_point.GetIndex() == index:', 'if True:', 'R02.3')
fire('c02-m-norecalc', 'C02', M, 'Method.CalculateM',
     '                self.M[index] = m\n                self.recalc = True', '                self.M[index] = m',
     'R02.5')
fire('c02-m-floor', 'C02', M, 'Method.__init__', 'self.M = [1.0 for _', 'self.M = [0.0 for _', 'R02.3')
twin('c02-m-ge', 'C02', M, 'Method.CalculateM', 'if m > self.M[index]:', 'if m >= self.M[index]:')
twin('c02-m-commuted', 'C02', M, 'Method.CalculateM', 'if m > self.M[index]:', 'if self.M[index] < m:')
twin('c02-m-fabs', 'C02', M, 'Method.CalculateM',
     'm = abs(left_point.GetZ() - curr_point.GetZ()) / curr_point.delta',
     'm = np.abs(curr_point.GetZ() - left_point.GetZ()) / curr_point.delta')

fire('c02-x-pow1', 'C02', M, 'Method.CalculateNextPointCoordinate',
     'pow(abs(dif) / self.M[v], self.task.problem.numberOfFloatVariables)', 'pow(abs(dif) / self.M[v], 1)', 'R02.4')
fire('c02-x-sign', 'C02', M, 'Method.CalculateNextPointCoordinate', 'if dif > 0:', 'if dif < 0:', 'R02.4')
fire('c02-x-nor', 'C02', M, 'Method.CalculateNextPointCoordinate', ' / self.parameters.r', '', 'R02.4')
fire('c02-x-guard-weak', 'C02', M, 'Method.CalculateNextPointCoordinate', 'if x <= xl or x >= xr:',
     'if x < xl or x > xr:', 'R02.4')
fire('c02-x-guard-gone', 'C02', M, 'Method.CalculateNextPointCoordinate', 'if x <= xl or x >= xr:', 'if False:',
     'R02.4')
fire('c02-x-mid', 'C02', M, 'Method.CalculateNextPointCoordinate',
     '        else:\n            x = 0.5 * (xl + xr)', '        else:\n            x = 0.25 * xl + 0.75 * xr', 'R02.4')
twin('c02-x-starstar', 'C02', M, 'Method.CalculateNextPointCoordinate',
     'pow(abs(dif) / self.M[v], self.task.problem.numberOfFloatVariables)',
     '(abs(dif) / self.M[v]) ** self.task.problem.numberOfFloatVariables')
twin('c02-x-dimension', 'C02', M, 'Method.CalculateNextPointCoordinate',
     'pow(abs(dif) / self.M[v], self.task.problem.numberOfFloatVariables)',
     'pow(abs(dif) / self.M[v], self.dimension)')
twin('c02-x-ge', 'C02', M, 'Method.CalculateNextPointCoordinate', 'if dif > 0:', 'if dif >= 0:')
twin('c02-x-half', 'C02', M, 'Method.CalculateNextPointCoordinate', 'x = 0.5 * (xl + xr)\n            x -=',
     'x = (xl + xr) / 2\n            x -=')
twin('c02-x-notand', 'C02', M, 'Method.CalculateNextPointCoordinate', 'if x <= xl or x >= xr:',
     'if not (xl < x and x < xr):')
twin('c02-x-chained', 'C02', M, 'Method.CalculateNextPointCoordinate', 'if x <= xl or x >= xr:',
     'if not (xl < x < xr):')

fire('c02-seed-t', 'C02', M, 'Method.FirstIteration', 'x: float = 0.5', 'x: float = 0.25', 'R02.1')
fire('c02-seed-image', 'C02', M, 'Method.FirstIteration', 'y = Point(self.evolvent.GetImage(x), None)',
     'y = Point(self.evolvent.GetImage(0.25), None)', 'R02.1')
fire('c02-seed-two-evals', 'C02', M, 'Method.FirstIteration', 'self.UpdateOptimum(middle)',
     'self.UpdateOptimum(middle)\n        self.CalculateFunctionals(right)', 'R02.1')
twin('c02-seed-literal', 'C02', M, 'Method.FirstIteration', 'x: float = 0.5', 'x = 1.0 / 2')

fire('c02-z-norecalc', 'C02', M, 'Method.UpdateOptimum',
     '            self.best = point\n            self.recalc = True\n            self.Z[point.GetIndex()] = point.GetZ()\n        self.searchData',
     '            self.best = point\n            self.Z[point.GetIndex()] = point.GetZ()\n        self.searchData', 'R02.5')
fire('c02-pop-before-recalc', 'C02', M, 'Method.CalculateIterationPoint',
     '        if self.recalc is True:\n            self.RecalcAllCharacteristics()\n\n        old = self.searchData.GetDataItemWithMaxGlobalR()',
     '        old = self.searchData.GetDataItemWithMaxGlobalR()\n        if self.recalc is True:\n            self.RecalcAllCharacteristics()\n',
     'R02.5')
fire('c02-recalc-dropped', 'C02', M, 'Method.CalculateIterationPoint',
     '        if self.recalc is True:\n            self.RecalcAllCharacteristics()\n', '', 'R02.5')
fire('c02-recalc-norefill', 'C02', M, 'Method.RecalcAllCharacteristics', '        self.searchData.RefillQueue()\n', '',
     'R02.5')
fire('c02-recalc-wrong-left', 'C02', M, 'Method.RecalcAllCharacteristics',
     'self.CalculateGlobalR(item, item.GetLeft())', 'self.CalculateGlobalR(item, item.GetRight())', 'R02.5')
fire('c02-recalc-skip', 'C02', M, 'Method.RecalcAllCharacteristics',
     '            self.CalculateGlobalR(item, item.GetLeft())',
     '            if item.GetIndex() < 0:\n                continue\n            self.CalculateGlobalR(item, item.GetLeft())',
     'R02.5')
fire('c02-flag-cleared-elsewhere', 'C02', M, 'Method.FinalizeIteration', 'self.iterationsCount += 1',
     'self.iterationsCount += 1\n        self.recalc = False', 'R02.5')
twin('c02-recalc-truthy', 'C02', M, 'Method.CalculateIterationPoint', 'if self.recalc is True:', 'if self.recalc:')
twin('c02-recalc-always', 'C02', M, 'Method.CalculateIterationPoint',
     '        if self.recalc is True:\n            self.RecalcAllCharacteristics()',
     '        self.RecalcAllCharacteristics()')

fire('c02-q-swapped', 'C02', SD, 'CharacteristicsQueue.Insert', 'self.__baseQueue.insert(dataItem, key)',
     'self.__baseQueue.insert(key, dataItem)', 'R02.6')
fire('c02-q-poplast', 'C02', SD, 'CharacteristicsQueue.GetBestItem', 'self.__baseQueue.popfirst()',
     'self.__baseQueue.poplast()', 'R02.6')
fire('c02-q-component1', 'C02', SD, 'SearchData.GetDataItemWithMaxGlobalR',
     'return self._RGlobalQueue.GetBestItem()[0]', 'return self._RGlobalQueue.GetBestItem()[1]', 'R02.6')
fire('c02-q-bounded', 'C02', SV, 'Solver.__init__', 'self.searchData = SearchData(problem)',
     'self.searchData = SearchData(problem, maxlen=100)', 'R02.6')
twin('c02-q-kw', 'C02', SD, 'CharacteristicsQueue.Insert', 'self.__baseQueue.insert(dataItem, key)',
     'self.__baseQueue.insert(item=dataItem, priority=key)')

fire('c02-renew-delta-late', 'C02', M, 'Method.RenewSearchData',
     '        newpoint.delta = Method.CalculateDelta(oldpoint.GetLeft().GetX(), newpoint.GetX(), self.dimension)\n\n        self.CalculateM(newpoint, oldpoint.GetLeft())',
     '        self.CalculateM(newpoint, oldpoint.GetLeft())\n        newpoint.delta = Method.CalculateDelta(oldpoint.GetLeft().GetX(), newpoint.GetX(), self.dimension)\n',
     'R02.7')
fire('c02-renew-pairs', 'C02', M, 'Method.RenewSearchData', 'self.CalculateGlobalR(oldpoint, newpoint)',
     'self.CalculateGlobalR(oldpoint, oldpoint.GetLeft())', 'R02.7')
fire('c02-renew-insert-first', 'C02', M, 'Method.RenewSearchData',
     '        self.CalculateGlobalR(newpoint, oldpoint.GetLeft())\n        self.CalculateGlobalR(oldpoint, newpoint)\n\n        self.searchData.InsertDataItem(newpoint, oldpoint)',
     '        self.searchData.InsertDataItem(newpoint, oldpoint)\n        self.CalculateGlobalR(newpoint, newpoint.GetLeft())\n        self.CalculateGlobalR(oldpoint, newpoint)\n',
     'R02.7')
fire('c02-hint-swapped', 'C02', P, 'Process.DoGlobalIteration', 'self.method.RenewSearchData(newpoint, oldpoint)',
     'self.method.RenewSearchData(oldpoint, newpoint)', 'R02.8')
fire('c02-hint-insert', 'C02', M, 'Method.RenewSearchData', 'self.searchData.InsertDataItem(newpoint, oldpoint)',
     'self.searchData.InsertDataItem(oldpoint, newpoint)', 'R02.8')
fire('c02-sel-image', 'C02', M, 'Method.CalculateIterationPoint', 'newy = self.evolvent.GetImage(newx)',
     'newy = self.evolvent.GetImage(old.GetX())', 'R02.8')
twin('c02-renew-m-after-r', 'C02', M, 'Method.RenewSearchData',
     '        self.CalculateM(newpoint, oldpoint.GetLeft())\n        self.CalculateM(oldpoint, newpoint)\n\n        self.CalculateGlobalR(newpoint, oldpoint.GetLeft())\n        self.CalculateGlobalR(oldpoint, newpoint)\n',
     '        self.CalculateGlobalR(newpoint, oldpoint.GetLeft())\n        self.CalculateGlobalR(oldpoint, newpoint)\n\n        self.CalculateM(newpoint, oldpoint.GetLeft())\n        self.CalculateM(oldpoint, newpoint)\n',
     why='the recalc flag absorbs the order of M-update and R computation')
twin('c02-renew-left-local', 'C02', M, 'Method.RenewSearchData',
     '        oldpoint.delta = Method.CalculateDelta(newpoint.GetX(), oldpoint.GetX(), self.dimension)',
     '        left = oldpoint.GetLeft()\n        oldpoint.delta = Method.CalculateDelta(newpoint.GetX(), oldpoint.GetX(), self.dimension)')
twin('c02-sel-nodeepcopy', 'C02', M, 'Method.CalculateIterationPoint',
     'new = copy.deepcopy(SearchDataItem(Point(newy, []), newx))', 'new = SearchDataItem(Point(newy, []), newx)')
fire('c02-refine-rewrites-z', 'C02', P, 'Process.DoLocalRefinement', '        result.numberOfLocalTrials = nelder_mead.nfev',
     '        self.method.GetOptimumEstimation().SetZ(result.bestTrials[0].functionValues[0].value)\n'
     '        result.numberOfLocalTrials = nelder_mead.nfev', 'R02.9')
fire('c02-refine-writes-zstar', 'C02', P, 'Process.DoLocalRefinement', '        result.numberOfLocalTrials = nelder_mead.nfev',
     '        self.method.Z[0] = result.bestTrials[0].functionValues[0].value\n'
     '        result.numberOfLocalTrials = nelder_mead.nfev', 'R02.5')

# ----------------------------------------------------------------------------- C03
OT = 'iOpt/method/optim_task.py'
fire('c03-link-infty', 'C03', M, 'Method.__init__', 'self.searchData.solution.solutionAccuracy = np.inf',
     'self.searchData.solution.solutionAccuracy = np.infty', 'R-LINK')
fire('c03-link-math', 'C03', EV, 'Evolvent.__CalculateNumbr', 'if math.isclose(iis, 0.0):', 'if math.is_close(iis, 0.0):',
     'R-LINK')
fire('c03-count-before', 'C03', M, 'Method.CalculateFunctionals',
     '        point = self.task.Calculate(point, 0)\n        point.SetZ(point.functionValues[0].value)\n        point.SetIndex(0)\n\n        # Обновление числа испытаний\n        self.searchData.solution.numberOfGlobalTrials += 1',
     '        self.searchData.solution.numberOfGlobalTrials += 1\n        point = self.task.Calculate(point, 0)\n        point.SetZ(point.functionValues[0].value)\n        point.SetIndex(0)\n',
     'R03.1')
fire('c03-count-twice', 'C03', M, 'Method.CalculateFunctionals', 'self.searchData.solution.numberOfGlobalTrials += 1',
     'self.searchData.solution.numberOfGlobalTrials += 2', 'R03.1')
fire('c03-count-elsewhere', 'C03', M, 'Method.FinalizeIteration', 'self.iterationsCount += 1',
     'self.iterationsCount += 1\n        self.searchData.solution.numberOfGlobalTrials += 1', 'R03.1')
fire('c03-eval-twice', 'C03', M, 'Method.CalculateFunctionals', '        point = self.task.Calculate(point, 0)\n',
     '        point = self.task.Calculate(point, 0)\n        point = self.task.Calculate(point, 0)\n', 'R03.1')
fire('c03-extra-evaluator', 'C03', M, 'Method.UpdateOptimum', 'self.searchData.solution.bestTrials[0] = self.best',
     'self.searchData.solution.bestTrials[0] = self.best\n        self.task.problem.Calculate(point.point, point.functionValues[0])',
     None, why='second caller of Problem.Calculate on the global path (role ambiguity or R03.2)')
fire('c03-second-eval-in-iter', 'C03', P, 'Process.DoGlobalIteration',
     '                self.method.UpdateOptimum(newpoint)\n', '                self.method.UpdateOptimum(newpoint)\n                self.method.CalculateFunctionals(oldpoint)\n',
     'R03.3')
fire('c03-no-finalize', 'C03', P, 'Process.DoGlobalIteration', '                self.method.FinalizeIteration()\n', '',
     'R03.3')
fire('c03-finalize-twice', 'C03', M, 'Method.RenewSearchData', 'self.searchData.InsertDataItem(newpoint, oldpoint)',
     'self.searchData.InsertDataItem(newpoint, oldpoint)\n        self.FinalizeIteration()', 'R03.3')
fire('c03-seed-count', 'C03', M, 'Method.FirstIteration', 'self.iterationsCount = 1', 'self.iterationsCount = 0',
     'R03.3')
fire('c03-stop-gt', 'C03', M, 'Method.CheckStopCondition', 'self.iterationsCount >= self.parameters.itersLimit',
     'self.iterationsCount > self.parameters.itersLimit', 'R03.4')
fire('c03-stop-le', 'C03', M, 'Method.CheckStopCondition', 'self.min_delta < self.parameters.eps',
     'self.min_delta <= self.parameters.eps', 'R03.4')
fire('c03-stop-and', 'C03', M, 'Method.CheckStopCondition', 'self.min_delta < self.parameters.eps or',
     'self.min_delta < self.parameters.eps and', 'R03.4')
fire('c03-stop-eq', 'C03', M, 'Method.CheckStopCondition', 'self.iterationsCount >= self.parameters.itersLimit',
     'self.iterationsCount == self.parameters.itersLimit', 'R03.4')
fire('c03-stop-inverted', 'C03', M, 'Method.CheckStopCondition',
     '            self.stop = True\n        else:\n            self.stop = False',
     '            self.stop = False\n        else:\n            self.stop = True', 'R03.4')
twin('c03-stop-commuted', 'C03', M, 'Method.CheckStopCondition',
     'if self.min_delta < self.parameters.eps or self.iterationsCount >= self.parameters.itersLimit:',
     'if self.parameters.itersLimit <= self.iterationsCount or self.parameters.eps > self.min_delta:')
twin('c03-stop-negated', 'C03', M, 'Method.CheckStopCondition',
     'if self.min_delta < self.parameters.eps or self.iterationsCount >= self.parameters.itersLimit:\n            self.stop = True\n        else:\n            self.stop = False',
     'if self.min_delta >= self.parameters.eps and self.iterationsCount < self.parameters.itersLimit:\n            self.stop = False\n        else:\n            self.stop = True')
twin('c03-stop-trials', 'C03', M, 'Method.CheckStopCondition', 'self.iterationsCount >= self.parameters.itersLimit',
     'self.searchData.solution.numberOfGlobalTrials >= self.parameters.itersLimit')
twin('c03-stop-direct', 'C03', M, 'Method.CheckStopCondition',
     'if self.min_delta < self.parameters.eps or self.iterationsCount >= self.parameters.itersLimit:\n            self.stop = True\n        else:\n            self.stop = False\n\n        return self.stop',
     'self.stop = self.min_delta < self.parameters.eps or self.iterationsCount >= self.parameters.itersLimit\n        return self.stop')
fire('c03-loop-posttest', 'C03', P, 'Process.Solve',
     '            while not self.method.CheckStopCondition():\n                self.DoGlobalIteration()',
     '            while True:\n                self.DoGlobalIteration()\n                if self.method.CheckStopCondition():\n                    break',
     'R03.5')
fire('c03-loop-batch', 'C03', P, 'Process.Solve', '                self.DoGlobalIteration()\n',
     '                self.DoGlobalIteration(10)\n', 'R03.5')
fire('c03-loop-two-steps', 'C03', P, 'Process.Solve', '                self.DoGlobalIteration()\n',
     '                self.DoGlobalIteration()\n                self.DoGlobalIteration()\n', 'R03.5')
twin('c03-loop-break-form', 'C03', P, 'Process.Solve',
     '            while not self.method.CheckStopCondition():\n                self.DoGlobalIteration()',
     '            while True:\n                if self.method.CheckStopCondition():\n                    break\n                self.DoGlobalIteration()')
twin('c03-loop-explicit-one', 'C03', P, 'Process.Solve', '                self.DoGlobalIteration()\n',
     '                self.DoGlobalIteration(1)\n')
fire('c03-acc-new-interval', 'C03', M, 'Method.CalculateIterationPoint',
     'self.min_delta = min(old.delta, self.min_delta)', 'self.min_delta = min(old.globalR, self.min_delta)', 'R03.6')
fire('c03-acc-overwrite', 'C03', M, 'Method.CalculateIterationPoint',
     'self.min_delta = min(old.delta, self.min_delta)', 'self.min_delta = old.delta', 'R03.6')
fire('c03-acc-init', 'C03', M, 'Method.__init__', 'self.searchData.solution.solutionAccuracy = np.inf',
     'self.searchData.solution.solutionAccuracy = 1.0', 'R03.6')
fire('c03-acc-renewal', 'C03', M, 'Method.RenewSearchData', 'self.searchData.InsertDataItem(newpoint, oldpoint)',
     'self.searchData.InsertDataItem(newpoint, oldpoint)\n        self.min_delta = min(newpoint.delta, self.min_delta)',
     'R03.6')
twin('c03-acc-commuted', 'C03', M, 'Method.CalculateIterationPoint',
     'self.min_delta = min(old.delta, self.min_delta)', 'self.min_delta = min(self.min_delta, old.delta)')
fire('c03-new-while', 'C03', M, 'Method.RecalcAllCharacteristics', '        self.searchData.RefillQueue()\n',
     '        while self.recalc:\n            pass\n        self.searchData.RefillQueue()\n', 'R03.7')
fire('c03-eps-clamped-in-solver', 'C03', SV, 'Solver.__init__', '        self.__listeners: List[Listener] = []',
     '        if parameters.eps < 2.0 ** (-parameters.evolventDensity):\n            parameters.eps = 2.0 ** (-parameters.evolventDensity)\n'
     '        self.__listeners: List[Listener] = []', 'R03.8')
fire('c03-limit-raised-in-method', 'C03', M, 'Method.__init__', '        self.stop: bool = False\n',
     '        self.stop: bool = False\n        parameters.itersLimit = max(parameters.itersLimit, 10)\n', 'R03.8')

# ----------------------------------------------------------------------------- C04
fire('c04-no-update', 'C04', P, 'Process.DoGlobalIteration', '                self.method.UpdateOptimum(newpoint)\n', '',
     'R04.1')
fire('c04-update-other', 'C04', P, 'Process.DoGlobalIteration', 'self.method.UpdateOptimum(newpoint)',
     'self.method.UpdateOptimum(oldpoint)', 'R04.1')
fire('c04-seed-no-update', 'C04', M, 'Method.FirstIteration', '        self.UpdateOptimum(middle)\n', '', 'R04.1')
fire('c04-update-after-notify', 'C04', P, 'Process.DoGlobalIteration',
     '                self.method.UpdateOptimum(newpoint)\n                self.method.RenewSearchData(newpoint, oldpoint)',
     '                for listener in self.__listeners:\n                    listener.OnEndIteration([newpoint], self.GetResults())\n                self.method.UpdateOptimum(newpoint)\n                self.method.RenewSearchData(newpoint, oldpoint)',
     'R04.1')
twin('c04-update-after-renew', 'C04', P, 'Process.DoGlobalIteration',
     '                self.method.UpdateOptimum(newpoint)\n                self.method.RenewSearchData(newpoint, oldpoint)',
     '                self.method.RenewSearchData(newpoint, oldpoint)\n                self.method.UpdateOptimum(newpoint)',
     why='order of optimum update and renewal is absorbed by the recalc flag')
fire('c04-pred-reversed', 'C04', M, 'Method.UpdateOptimum', 'point.GetZ() < self.best.GetZ():',
     'point.GetZ() > self.best.GetZ():', 'R04.2')
fire('c04-pred-index', 'C04', M, 'Method.UpdateOptimum', 'self.best.GetIndex() < point.GetIndex():',
     'self.best.GetIndex() > point.GetIndex():', 'R04.2')
fire('c04-pred-no-eq', 'C04', M, 'Method.UpdateOptimum', 'elif self.best.GetIndex() == point.GetIndex() and point.GetZ() < self.best.GetZ():',
     'elif point.GetZ() < self.best.GetZ():', 'R04.2')
fire('c04-pred-none-dropped', 'C04', M, 'Method.UpdateOptimum', 'if self.best is None or self.best.GetIndex() < point.GetIndex():',
     'if self.best is not None and self.best.GetIndex() < point.GetIndex():', 'R04.2')
fire('c04-zstar-missing', 'C04', M, 'Method.UpdateOptimum',
     '            self.best = point\n            self.recalc = True\n            self.Z[point.GetIndex()] = point.GetZ()\n        self.searchData',
     '            self.best = point\n            self.recalc = True\n        self.searchData', 'R04.2')
twin('c04-pred-le', 'C04', M, 'Method.UpdateOptimum', 'point.GetZ() < self.best.GetZ():', 'point.GetZ() <= self.best.GetZ():')
twin('c04-pred-commuted', 'C04', M, 'Method.UpdateOptimum', 'point.GetZ() < self.best.GetZ():', 'self.best.GetZ() > point.GetZ():')
twin('c04-pred-merged', 'C04', M, 'Method.UpdateOptimum',
     '        if self.best is None or self.best.GetIndex() < point.GetIndex():\n            self.best = point\n            self.recalc = True\n            self.Z[point.GetIndex()] = point.GetZ()\n        elif self.best.GetIndex() == point.GetIndex() and point.GetZ() < self.best.GetZ():\n            self.best = point',
     '        if self.best is None or self.best.GetIndex() < point.GetIndex() or (self.best.GetIndex() == point.GetIndex() and point.GetZ() < self.best.GetZ()):\n            self.best = point\n            self.recalc = True\n            self.Z[point.GetIndex()] = point.GetZ()\n        elif False:\n            self.best = point')
fire('c04-publish-conditional', 'C04', M, 'Method.UpdateOptimum',
     '            self.Z[point.GetIndex()] = point.GetZ()\n        self.searchData.solution.bestTrials[0] = self.best',
     '            self.Z[point.GetIndex()] = point.GetZ()\n            self.searchData.solution.bestTrials[0] = self.best',
     'R04.3')
fire('c04-publish-point', 'C04', M, 'Method.UpdateOptimum', 'self.searchData.solution.bestTrials[0] = self.best',
     'self.searchData.solution.bestTrials[0] = point', 'R04.3')
fire('c04-wrong-slot-read', 'C04', M, 'Method.CalculateFunctionals', 'point.SetZ(point.functionValues[0].value)',
     'point.SetZ(point.functionValues[-1].value)', 'R04.4')
fire('c04-wrong-point', 'C04', OT, 'OptimizationTask.Calculate', 'self.problem.Calculate(dataItem.point,',
     'self.problem.Calculate(dataItem.GetLeft().point,', 'R04.4')
fire('c04-z-before-call', 'C04', M, 'Method.CalculateFunctionals',
     '        point = self.task.Calculate(point, 0)\n        point.SetZ(point.functionValues[0].value)',
     '        point.SetZ(point.functionValues[0].value)\n        point = self.task.Calculate(point, 0)', 'R04.4')
fire('c04-perm-reversed', 'C04', OT, 'OptimizationTask.__init__', 'self.perm[i] = i', 'self.perm[i] = self.perm.size - 1 - i',
     'R04.4')
twin('c04-z-from-result', 'C04', M, 'Method.CalculateFunctionals',
     '        point = self.task.Calculate(point, 0)\n        point.SetZ(point.functionValues[0].value)',
     '        point = self.task.Calculate(point, 0)\n        z = point.functionValues[0].value\n        point.SetZ(z)')
fire('c04-shared-default', 'C04', SD, 'SearchDataItem.__init__',
     'functionValues: np.ndarray(shape=(1), dtype=FunctionValue) = None,',
     'functionValues: np.ndarray(shape=(1), dtype=FunctionValue) = [FunctionValue()],', 'R04.5',
     also=[(SD, 'SearchDataItem.__init__', '        if functionValues is None:\n            functionValues = [FunctionValue()]\n', '')])
fire('c04-class-holder', 'C04', SD, 'SearchDataItem.__init__', '            functionValues = [FunctionValue()]',
     '            functionValues = SearchDataItem._shared', 'R04.5',
     also=[(SD, 'SearchDataItem', '    def __init__(self, y: Point, x: np.double,', '    _shared = [FunctionValue()]\n\n    def __init__(self, y: Point, x: np.double,')])
fire('c04-setz-elsewhere', 'C04', M, 'Method.RenewSearchData', 'self.searchData.InsertDataItem(newpoint, oldpoint)',
     'self.searchData.InsertDataItem(newpoint, oldpoint)\n        oldpoint.SetZ(oldpoint.GetZ() - 1e-9)', 'R04.6')
fire('c04-value-elsewhere', 'C04', M, 'Method.UpdateOptimum', 'self.searchData.solution.bestTrials[0] = self.best',
     'self.searchData.solution.bestTrials[0] = self.best\n        self.best.functionValues[0].value = self.Z[0]', 'R04.6')
fire('c04-refine-incoherent', 'C04', P, 'Process.DoLocalRefinement',
     'self.problemCalculate(result.bestTrials[0].point.floatVariables)', 'nelder_mead.fun + 0.0', 'R04.6')
fire('c04-refine-startpoint', 'C04', P, 'Process.DoLocalRefinement',
     'self.problemCalculate(result.bestTrials[0].point.floatVariables)', 'self.problemCalculate(startPoint)', 'R04.6')
twin('c04-refine-local', 'C04', P, 'Process.DoLocalRefinement',
     '        result.bestTrials[0].point.floatVariables = nelder_mead.x\n        result.bestTrials[0].functionValues[0].value = self.problemCalculate(result.bestTrials[0].point.floatVariables)',
     '        xs = nelder_mead.x\n        result.bestTrials[0].point.floatVariables = xs\n        result.bestTrials[0].functionValues[0].value = self.problemCalculate(xs)')
_START_TRIAL = ('        self.searchData.InsertDataItem(middle, right)',
                '        self.searchData.InsertDataItem(middle, right)\n'
                '        if self.parameters.startPoint:\n'
                '            xs = self.evolvent.GetInverseImage(self.parameters.startPoint.floatVariables)\n'
                '            cov = self.searchData.FindDataItemByOneDimensionalPoint(xs)\n'
                '            start = SearchDataItem(%s, xs)\n'
                '            self.CalculateFunctionals(start)\n'
                '            self.UpdateOptimum(start)\n'
                '            self.RenewSearchData(start, cov)')
fire('c04-foreign-point', 'C04', M, 'Method.FirstIteration', _START_TRIAL[0],
     _START_TRIAL[1] % 'self.parameters.startPoint', 'R04.7',
     why='the caller\'s Point object becomes a trial point and the refinement rewrites it in place')
twin('c04-own-point-copy', 'C04', M, 'Method.FirstIteration', _START_TRIAL[0],
     _START_TRIAL[1] % 'Point(np.array(self.parameters.startPoint.floatVariables, dtype=np.double), None)',
     why='a private copy of the start point: C04 is indifferent (other properties object to the extra trial)')
_EVAL = '        point = self.task.Calculate(point, 0)\n'
fire('c04-value-copied-from-neighbour', 'C04', M, 'Method.CalculateFunctionals', _EVAL,
     '        if self.best is not None and np.allclose(self.best.GetY().floatVariables, point.GetY().floatVariables):\n'
     '            point.functionValues[0].value = self.best.functionValues[0].value\n        else:\n    ' + _EVAL, 'R04.4')

# ----------------------------------------------------------------------------- C06
fire('c06-relink-swapped', 'C06', SD, 'SearchData.InsertDataItem',
     '        newDataItem.SetLeft(rightDataItem.GetLeft())\n        rightDataItem.SetLeft(newDataItem)',
     '        rightDataItem.SetLeft(newDataItem)\n        newDataItem.SetLeft(rightDataItem.GetLeft())', 'R06.1')
fire('c06-relink-setright', 'C06', SD, 'SearchData.InsertDataItem', '        newDataItem.SetRight(rightDataItem)\n',
     '        newDataItem.SetLeft(rightDataItem)\n', 'R06.1')
fire('c06-relink-missing', 'C06', SD, 'SearchData.InsertDataItem', '        newDataItem.GetLeft().SetRight(newDataItem)\n',
     '', 'R06.1')
fire('c06-relink-wrong-left', 'C06', SD, 'SearchData.InsertDataItem', 'newDataItem.GetLeft().SetRight(newDataItem)',
     'rightDataItem.GetLeft().SetRight(newDataItem)', 'R06.1')
fire('c06-append-twice', 'C06', SD, 'SearchData.InsertDataItem', '        self._allTrials.append(newDataItem)\n',
     '        self._allTrials.append(newDataItem)\n        self._allTrials.append(newDataItem)\n', 'R06.1')
fire('c06-append-right', 'C06', SD, 'SearchData.InsertDataItem', 'self._allTrials.append(newDataItem)',
     'self._allTrials.append(rightDataItem)', 'R06.1')
fire('c06-lookup-arg', 'C06', SD, 'SearchData.InsertDataItem',
     'self.FindDataItemByOneDimensionalPoint(newDataItem.GetX())', 'self.FindDataItemByOneDimensionalPoint(0.5)',
     'R06.1')
twin('c06-relink-reordered', 'C06', SD, 'SearchData.InsertDataItem',
     '        newDataItem.SetLeft(rightDataItem.GetLeft())\n        rightDataItem.SetLeft(newDataItem)\n        newDataItem.SetRight(rightDataItem)\n        newDataItem.GetLeft().SetRight(newDataItem)',
     '        left = rightDataItem.GetLeft()\n        newDataItem.SetRight(rightDataItem)\n        newDataItem.SetLeft(left)\n        left.SetRight(newDataItem)\n        rightDataItem.SetLeft(newDataItem)')
fire('c06-first-unlinked', 'C06', SD, 'SearchData.InsertFirstDataItem', '        rightDataItem.SetLeft(leftDataItem)\n', '',
     'R06.2')
fire('c06-first-wrong-first', 'C06', SD, 'SearchData.InsertFirstDataItem', 'self.__firstDataItem = leftDataItem',
     'self.__firstDataItem = rightDataItem', 'R06.2')
fire('c06-delta-swapped', 'C06', M, 'Method.RenewSearchData',
     'oldpoint.delta = Method.CalculateDelta(newpoint.GetX(), oldpoint.GetX(), self.dimension)',
     'oldpoint.delta = Method.CalculateDelta(oldpoint.GetX(), newpoint.GetX(), self.dimension)', 'R06.4')
fire('c06-delta-wrong-left', 'C06', M, 'Method.RenewSearchData',
     'newpoint.delta = Method.CalculateDelta(oldpoint.GetLeft().GetX(), newpoint.GetX(), self.dimension)',
     'newpoint.delta = Method.CalculateDelta(oldpoint.GetX(), newpoint.GetX(), self.dimension)', 'R06.4')
fire('c06-delta-formula', 'C06', M, 'Method.CalculateDelta', 'return pow(rx - lx, 1.0 / dimension)',
     'return pow(rx - lx, 1.0 / (dimension + 1))', 'R06.4')
fire('c06-delta-dim', 'C06', M, 'Method.RenewSearchData',
     'oldpoint.delta = Method.CalculateDelta(newpoint.GetX(), oldpoint.GetX(), self.dimension)',
     'oldpoint.delta = Method.CalculateDelta(newpoint.GetX(), oldpoint.GetX(), 1)', 'R06.4')
fire('c06-delta-after-relink', 'C06', M, 'Method.RenewSearchData',
     '        self.searchData.InsertDataItem(newpoint, oldpoint)',
     '        self.searchData.InsertDataItem(newpoint, oldpoint)\n        newpoint.delta = Method.CalculateDelta(oldpoint.GetLeft().GetX(), newpoint.GetX(), self.dimension)',
     'R06.4')
fire('c06-seed-delta', 'C06', M, 'Method.FirstIteration',
     'right.delta = Method.CalculateDelta(middle.GetX(), right.GetX(), self.dimension)',
     'right.delta = Method.CalculateDelta(left.GetX(), right.GetX(), self.dimension)', 'R06.4')
twin('c06-delta-starstar', 'C06', M, 'Method.CalculateDelta', 'return pow(rx - lx, 1.0 / dimension)',
     'return (rx - lx) ** (1 / dimension)')
twin('c06-delta-inline', 'C06', M, 'Method.RenewSearchData',
     'oldpoint.delta = Method.CalculateDelta(newpoint.GetX(), oldpoint.GetX(), self.dimension)',
     'oldpoint.delta = pow(oldpoint.GetX() - newpoint.GetX(), 1.0 / self.task.problem.numberOfFloatVariables)')
fire('c06-insert-skipped', 'C06', M, 'Method.RenewSearchData', '        self.searchData.InsertDataItem(newpoint, oldpoint)',
     '        if newpoint.GetZ() < oldpoint.GetZ():\n            self.searchData.InsertDataItem(newpoint, oldpoint)',
     'R06.6')
fire('c06-insert-twice', 'C06', M, 'Method.RenewSearchData', '        self.searchData.InsertDataItem(newpoint, oldpoint)',
     '        self.searchData.InsertDataItem(newpoint, oldpoint)\n        self.searchData.InsertDataItem(newpoint, oldpoint)',
     None)
fire('c06-insert-elsewhere', 'C06', M, 'Method.UpdateOptimum', 'self.searchData.solution.bestTrials[0] = self.best',
     'self.searchData.solution.bestTrials[0] = self.best\n        self.searchData.InsertDataItem(point)', 'R06.6')
fire('c06-seed-no-insert', 'C06', M, 'Method.FirstIteration', '        self.searchData.InsertDataItem(middle, right)\n', '',
     'R06.6')
fire('c06-setleft-elsewhere', 'C06', M, 'Method.RenewSearchData', '        self.searchData.InsertDataItem(newpoint, oldpoint)',
     '        self.searchData.InsertDataItem(newpoint, oldpoint)\n        oldpoint.SetLeft(newpoint.GetLeft())', 'R06.8')
fire('c06-point-rewritten', 'C06', M, 'Method.UpdateOptimum', 'self.searchData.solution.bestTrials[0] = self.best',
     'self.searchData.solution.bestTrials[0] = self.best\n        point.point.floatVariables[0] = 0.0', 'R06.8')
fire('c06-listener-writes-item', 'C06', 'iOpt/output_system/console/console_output.py',
     'FunctionConsoleFullOutput.printIterPointInfo', 'value = savedNewPoints[0].GetZ()',
     'value = savedNewPoints[0].GetZ()\n        savedNewPoints[0].functionValues[0].value = round(value, 6)', 'R06.8')
fire('c06-start-item-not-image', 'C06', M, 'Method.FirstIteration', _START_TRIAL[0],
     _START_TRIAL[1] % 'Point(np.array(self.parameters.startPoint.floatVariables, dtype=np.double), None)', 'R06.5',
     why='stored point is the user point, not GetImage(preimage)')
fire('c06-start-item-image-but-lookup-hint', 'C06', M, 'Method.FirstIteration', _START_TRIAL[0],
     _START_TRIAL[1] % 'Point(self.evolvent.GetImage(xs), None)', 'R06.7',
     why='point is the image, but the hint comes from the covering lookup: xs may equal a stored coordinate')
fire('c06-new-item-other-image', 'C06', M, 'Method.CalculateIterationPoint', 'self.evolvent.GetImage(newx)', 'self.evolvent.GetImage(old.GetX())', None)

# ----------------------------------------------------------------------------- C19
DQ = 'SearchDataDualQueue'
fire('c19-dual-relink', 'C19', SD, f'{DQ}.InsertDataItem', '        newDataItem.SetRight(rightDataItem)\n',
     '        newDataItem.SetLeft(rightDataItem)\n', 'R19.1')
fire('c19-dual-no-append', 'C19', SD, f'{DQ}.InsertDataItem', '        self._allTrials.append(newDataItem)\n', '', 'R19.1')
fire('c19-dual-global-missing', 'C19', SD, f'{DQ}.InsertDataItem',
     '            self._RGlobalQueue.Insert(rightDataItem.globalR, rightDataItem)\n', '', 'R19.1')
fire('c19-dual-local-key', 'C19', SD, f'{DQ}.InsertDataItem', 'self.__RLocalQueue.Insert(newDataItem.localR, newDataItem)',
     'self.__RLocalQueue.Insert(newDataItem.globalR, newDataItem)', None)
fire('c19-base-relink', 'C19', SD, 'SearchData.InsertDataItem', '        rightDataItem.SetLeft(newDataItem)\n', '', 'R19.1')
fire('c19-lookup-ge', 'C19', SD, 'SearchData.FindDataItemByOneDimensionalPoint', 'if item.GetX() > x:',
     'if item.GetX() >= x:', 'R19.2')
fire('c19-lookup-lt', 'C19', SD, 'SearchData.FindDataItemByOneDimensionalPoint', 'if item.GetX() > x:',
     'if item.GetX() < x:', 'R19.2')
fire('c19-lookup-left', 'C19', SD, 'SearchData.FindDataItemByOneDimensionalPoint', 'return item\n',
     'return item.GetLeft()\n', 'R19.2')
twin('c19-lookup-commuted', 'C19', SD, 'SearchData.FindDataItemByOneDimensionalPoint', 'if item.GetX() > x:',
     'if x < item.GetX():')
fire('c19-iter-second', 'C19', SD, 'SearchData.__iter__', 'self.curIter = self.__firstDataItem',
     'self.curIter = self.__firstDataItem.GetRight()', 'R19.4')
fire('c19-next-left', 'C19', SD, 'SearchData.__next__', 'self.curIter = self.curIter.GetRight()',
     'self.curIter = self.curIter.GetLeft()', 'R19.4')
fire('c19-next-skips', 'C19', SD, 'SearchData.__next__', 'self.curIter = self.curIter.GetRight()',
     'self.curIter = self.curIter.GetRight().GetRight()', 'R19.4')
fire('c19-next-returns-next', 'C19', SD, 'SearchData.__next__',
     '            tmp = self.curIter\n            self.curIter = self.curIter.GetRight()\n            return tmp',
     '            self.curIter = self.curIter.GetRight()\n            return self.curIter', 'R19.4')
fire('c19-insert-key-item', 'C19', SD, 'SearchData.InsertDataItem', 'self._RGlobalQueue.Insert(newDataItem.globalR, newDataItem)',
     'self._RGlobalQueue.Insert(rightDataItem.globalR, newDataItem)', 'R19.5')
fire('c19-refill-localkey', 'C19', SD, f'{DQ}.RefillQueue', 'self._RGlobalQueue.Insert(itr.globalR, itr)',
     'self._RGlobalQueue.Insert(itr.localR, itr)', 'R19.5')
fire('c19-depq-order', 'C19', SD, 'CharacteristicsQueue.Insert', 'self.__baseQueue.insert(dataItem, key)',
     'self.__baseQueue.insert(key, dataItem)', 'R19.5')
fire('c19-poplast', 'C19', SD, 'CharacteristicsQueue.GetBestItem', 'self.__baseQueue.popfirst()',
     'self.__baseQueue.poplast()', 'R19.5')
fire('c19-refill-noclear', 'C19', SD, 'SearchData.RefillQueue', '        self._RGlobalQueue.Clear()\n', '', 'R19.7')
fire('c19-refill-dual-noclear', 'C19', SD, f'{DQ}.RefillQueue', '        self.ClearQueue()\n', '', 'R19.7')
fire('c19-refill-skip', 'C19', SD, 'SearchData.RefillQueue', '            self._RGlobalQueue.Insert(itr.globalR, itr)',
     '            if itr.globalR > 0:\n                self._RGlobalQueue.Insert(itr.globalR, itr)', 'R19.7')
fire('c19-refill-dual-onequeue', 'C19', SD, f'{DQ}.RefillQueue', '            self.__RLocalQueue.Insert(itr.localR, itr)\n', '',
     'R19.7')
fire('c19-lazy-eq', 'C19', SD, f'{DQ}.GetDataItemWithMaxGlobalR', 'while bestItem[1] != bestItem[0].globalR:',
     'while bestItem[1] == bestItem[0].globalR:', 'R19.6')
fire('c19-lazy-localkey', 'C19', SD, f'{DQ}.GetDataItemWithMaxGlobalR', 'while bestItem[1] != bestItem[0].globalR:',
     'while bestItem[1] != bestItem[0].localR:', 'R19.6')
fire('c19-lazy-noloop', 'C19', SD, f'{DQ}.GetDataItemWithMaxLocalR', 'while bestItem[1] != bestItem[0].localR:',
     'while False:', 'R19.6')
fire('c19-lazy-returns-key', 'C19', SD, f'{DQ}.GetDataItemWithMaxLocalR', 'return bestItem[0]', 'return bestItem[1]',
     'R19.6')
fire('c19-lazy-wrong-queue', 'C19', SD, f'{DQ}.GetDataItemWithMaxLocalR',
     '            bestItem = self.__RLocalQueue.GetBestItem()\n        return bestItem[0]',
     '            bestItem = self._RGlobalQueue.GetBestItem()\n        return bestItem[0]', None)
fire('c19-lazy-no-refill', 'C19', SD, f'{DQ}.GetDataItemWithMaxGlobalR',
     '            if self._RGlobalQueue.IsEmpty():\n                self.RefillQueue()\n            bestItem = self._RGlobalQueue.GetBestItem()',
     '            bestItem = self._RGlobalQueue.GetBestItem()', 'R19.6')
fire('c19-maxlen-dropped', 'C19', SD, 'CharacteristicsQueue.__init__', 'DEPQ(iterable=None, maxlen=maxlen)',
     'DEPQ(iterable=None, maxlen=None)', 'R19.8')
fire('c19-maxlen-sd', 'C19', SD, 'SearchData.__init__', 'self._RGlobalQueue = CharacteristicsQueue(maxlen)',
     'self._RGlobalQueue = CharacteristicsQueue(None)', 'R19.8')
fire('c19-maxlen-dual', 'C19', SD, f'{DQ}.__init__', 'self.__RLocalQueue = CharacteristicsQueue(maxlen)',
     'self.__RLocalQueue = CharacteristicsQueue(None)', 'R19.8')
twin('c19-lazy-commuted', 'C19', SD, f'{DQ}.GetDataItemWithMaxGlobalR', 'while bestItem[1] != bestItem[0].globalR:',
     'while bestItem[0].globalR != bestItem[1]:')
twin('c19-lazy-unpacked', 'C19', SD, f'{DQ}.GetDataItemWithMaxGlobalR', 'while bestItem[1] != bestItem[0].globalR:',
     'while not (bestItem[1] == bestItem[0].globalR):')
_QINS = '        self.__baseQueue.insert(dataItem, key)'
fire('c19-insert-skips-on-cached-low', 'C19', SD, 'CharacteristicsQueue.Insert', _QINS,
     '        if self.__baseQueue.maxlen is not None and len(self.__baseQueue) >= self.__baseQueue.maxlen:\n'
     '            if key <= self.lowKey:\n                return\n'
     '            self.__baseQueue.insert(dataItem, key)\n            self.lowKey = self.__baseQueue.low()\n'
     '        else:\n            self.__baseQueue.insert(dataItem, key)', 'R19.5',
     also=[(SD, 'CharacteristicsQueue.__init__', 'self.__baseQueue = DEPQ(iterable=None, maxlen=maxlen)',
            'self.__baseQueue = DEPQ(iterable=None, maxlen=maxlen)\n        self.lowKey = -np.inf')],
     why='the cached lowest key is stale after pops')
twin('c19-insert-skips-on-fresh-low', 'C19', SD, 'CharacteristicsQueue.Insert', _QINS,
     '        if self.__baseQueue.maxlen is not None and len(self.__baseQueue) >= self.__baseQueue.maxlen:\n'
     '            if key <= self.__baseQueue.low():\n                return\n'
     + _QINS, why='skipping against the current lowest priority is what DEPQ would do anyway')

# ----------------------------------------------------------------------------- C16
fire('c16-except-exception', 'C16', P, 'Process.Solve', 'except BaseException:', 'except Exception:', 'R16.1')
fire('c16-except-narrow', 'C16', P, 'Process.Solve', 'except BaseException:', 'except (ValueError, ArithmeticError):',
     'R16.1')
fire('c16-reraise', 'C16', P, 'Process.Solve', "            print('Exception was thrown')",
     "            print('Exception was thrown')\n            raise", 'R16.1')
fire('c16-no-try', 'C16', P, 'Process.Solve',
     "        try:\n            while not self.method.CheckStopCondition():\n                self.DoGlobalIteration()\n                # print(self.method.min_delta, self.method.parameters.eps)\n            # print(self.method.min_delta, self.method.parameters.eps)\n            # print(self.method.CheckStopCondition())\n        except BaseException:\n            print('Exception was thrown')",
     "        while not self.method.CheckStopCondition():\n            self.DoGlobalIteration()", 'R16.1')
fire('c16-resume', 'C16', P, 'Process.Solve',
     "        try:\n            while not self.method.CheckStopCondition():\n                self.DoGlobalIteration()\n                # print(self.method.min_delta, self.method.parameters.eps)\n            # print(self.method.min_delta, self.method.parameters.eps)\n            # print(self.method.CheckStopCondition())\n        except BaseException:\n            print('Exception was thrown')",
     "        while not self.method.CheckStopCondition():\n            try:\n                self.DoGlobalIteration()\n            except BaseException:\n                print('Exception was thrown')\n                continue",
     'R16.1')
twin('c16-try-inside-loop', 'C16', P, 'Process.Solve',
     "        try:\n            while not self.method.CheckStopCondition():\n                self.DoGlobalIteration()\n                # print(self.method.min_delta, self.method.parameters.eps)\n            # print(self.method.min_delta, self.method.parameters.eps)\n            # print(self.method.CheckStopCondition())\n        except BaseException:\n            print('Exception was thrown')",
     "        while not self.method.CheckStopCondition():\n            try:\n                self.DoGlobalIteration()\n            except BaseException:\n                print('Exception was thrown')\n                break")
twin('c16-bare-except', 'C16', P, 'Process.Solve', 'except BaseException:', 'except:')
fire('c16-count-before', 'C16', M, 'Method.CalculateFunctionals',
     '        point = self.task.Calculate(point, 0)\n',
     '        self.searchData.solution.numberOfGlobalTrials += 1\n        point = self.task.Calculate(point, 0)\n',
     None, also=[(M, 'Method.CalculateFunctionals', '        # Обновление числа испытаний\n        self.searchData.solution.numberOfGlobalTrials += 1\n', '')])
fire('c16-insert-before', 'C16', P, 'Process.DoGlobalIteration',
     '                self.method.CalculateFunctionals(newpoint)\n                self.method.UpdateOptimum(newpoint)\n                self.method.RenewSearchData(newpoint, oldpoint)',
     '                self.method.RenewSearchData(newpoint, oldpoint)\n                self.method.CalculateFunctionals(newpoint)\n                self.method.UpdateOptimum(newpoint)',
     None)
fire('c16-finalize-before', 'C16', P, 'Process.DoGlobalIteration',
     '                newpoint, oldpoint = self.method.CalculateIterationPoint()\n',
     '                newpoint, oldpoint = self.method.CalculateIterationPoint()\n                self.method.FinalizeIteration()\n',
     None, also=[(P, 'Process.DoGlobalIteration', '                self.method.RenewSearchData(newpoint, oldpoint)\n                self.method.FinalizeIteration()\n', '                self.method.RenewSearchData(newpoint, oldpoint)\n')])
fire('c16-delta-in-selection', 'C16', M, 'Method.CalculateIterationPoint', '        return new, old',
     '        old.delta = Method.CalculateDelta(newx, old.GetX(), self.dimension)\n        return new, old', 'R16.2')
fire('c16-alltrials-before', 'C16', M, 'Method.CalculateIterationPoint', '        return new, old',
     '        self.searchData._allTrials.append(new)\n        return new, old', 'R16.2')
fire('c16-setz-before', 'C16', M, 'Method.CalculateFunctionals', '        point = self.task.Calculate(point, 0)\n',
     '        point.SetIndex(0)\n        point = self.task.Calculate(point, 0)\n', None)
twin('c16-accuracy-before', 'C16', M, 'Method.CalculateIterationPoint', '        return new, old',
     '        self.min_delta = min(old.delta, self.min_delta)\n        return new, old')

# ----------------------------------------------------------------------------- C12
SOL = 'iOpt/solution.py'
fire('c12-solution-default', 'C12', SOL, 'Solution.__init__',
     'bestTrials: np.ndarray(shape=(1), dtype=Trial) = None,', 'bestTrials: np.ndarray(shape=(1), dtype=Trial) = [Trial([], [])],',
     'R12.1', also=[(SOL, 'Solution.__init__', '        if bestTrials is None:\n            bestTrials = [Trial([], [])]\n', '')])
fire('c12-item-default', 'C12', SD, 'SearchDataItem.__init__',
     'functionValues: np.ndarray(shape=(1), dtype=FunctionValue) = None,',
     'functionValues: np.ndarray(shape=(1), dtype=FunctionValue) = [FunctionValue()],', 'R12.1',
     also=[(SD, 'SearchDataItem.__init__', '        if functionValues is None:\n            functionValues = [FunctionValue()]\n', '')])
fire('c12-alltrials-default', 'C12', SD, 'SearchData.__init__', 'def __init__(self, problem: Problem, maxlen: int = None):',
     'def __init__(self, problem: Problem, maxlen: int = None, trials=[]):', 'R12.1',
     also=[(SD, 'SearchData.__init__', 'self._allTrials = []', 'self._allTrials = trials')])
fire('c12-evolvent-nocopy', 'C12', EV, 'Evolvent.__init__', 'self.lowerBoundOfFloatVariables = np.copy(lowerBoundOfFloatVariables)',
     'self.lowerBoundOfFloatVariables = lowerBoundOfFloatVariables', 'R12.3')
fire('c12-class-level-list', 'C12', SD, 'SearchData.__init__', '        self._allTrials = []\n', '', None,
     also=[(SD, 'SearchData', '    def __init__(self, problem: Problem, maxlen: int = None):',
            '    _allTrials = []\n\n    def __init__(self, problem: Problem, maxlen: int = None):')])
fire('c12-module-cache', 'C12', SV, 'Solver.__init__',
     '        self.evolvent = Evolvent(problem.lowerBoundOfFloatVariables, problem.upperBoundOfFloatVariables,\n                                 problem.numberOfFloatVariables, parameters.evolventDensity)',
     '        key = problem.numberOfFloatVariables\n        if key not in _EVOLVENTS:\n            _EVOLVENTS[key] = Evolvent(problem.lowerBoundOfFloatVariables, problem.upperBoundOfFloatVariables,\n                                       problem.numberOfFloatVariables, parameters.evolventDensity)\n        self.evolvent = _EVOLVENTS[key]',
     None, also=[(SV, None, 'class Solver:', '_EVOLVENTS = {}\n\n\nclass Solver:')])
fire('c12-global-counter', 'C12', M, 'Method.FinalizeIteration', '        self.iterationsCount += 1',
     '        global _TOTAL\n        _TOTAL += 1\n        self.iterationsCount += 1', 'R12.2',
     also=[(M, None, 'class Method:', '_TOTAL = 0\n\n\nclass Method:')])
fire('c12-class-attr-write', 'C12', M, 'Method.FinalizeIteration', '        self.iterationsCount += 1',
     '        self.iterationsCount += 1\n        Method.lastCount = self.iterationsCount', 'R12.2')
fire('c12-params-written', 'C12', M, 'Method.CheckStopCondition', '            self.stop = True\n',
     '            self.stop = True\n            self.parameters.itersLimit = self.iterationsCount\n', 'R12.3')
fire('c12-problem-written', 'C12', P, 'Process.DoLocalRefinement', '        result.numberOfLocalTrials = nelder_mead.nfev',
     '        result.numberOfLocalTrials = nelder_mead.nfev\n        self.task.problem.knownOptimum = result.bestTrials', 'R12.3')
fire('c12-module-table-mutated', 'C12', 'iOpt/problems/grishagin_function/grishagin_function.py',
     'GrishaginFunction.SetFunctionNumber',
     '        for j in range(len(grishaginGen.matcon[i1])):\n            self.icnf[j] = int(grishaginGen.matcon[i1][j])\n',
     '        self.icnf = grishaginGen.matcon[i1]\n', 'R12.2')
fire('c12-shared-solution', 'C12', SD, 'SearchData.__init__', 'self.solution = Solution(problem)',
     'self.solution = _SOLUTION', None, also=[(SD, None, 'class SearchDataItem(Trial):', '_SOLUTION = Solution(None)\n\n\nclass SearchDataItem(Trial):')])
twin('c12-default-tuple', 'C12', 'iOpt/method/listener.py', 'StaticNDPaintListener.__init__', 'varsIndxs=[0, 1]', 'varsIndxs=(0, 1)')
twin('c12-startpoint-none', 'C12', 'iOpt/solver_parametrs.py', 'SolverParameters.__init__', 'startPoint: Point = []',
     'startPoint: Point = None')
twin('c12-parameters-none', 'C12', SV, 'Solver.__init__', 'parameters: SolverParameters = SolverParameters()',
     'parameters: SolverParameters = None', also=[(SV, 'Solver.__init__', '        self.problem = problem\n',
                                                  '        if parameters is None:\n            parameters = SolverParameters()\n        self.problem = problem\n')])
_EV_NEW = ('self.evolvent = Evolvent(problem.lowerBoundOfFloatVariables, problem.upperBoundOfFloatVariables,\n'
           '                                 problem.numberOfFloatVariables, parameters.evolventDensity)')
fire('c12-evolvent-registry-classmethod', 'C12', SV, 'Solver.__init__', _EV_NEW,
     'self.evolvent = Evolvent.GetInstance(problem.lowerBoundOfFloatVariables, problem.upperBoundOfFloatVariables,\n'
     '                                             problem.numberOfFloatVariables, parameters.evolventDensity)', 'R12.3',
     also=[(EV, 'Evolvent', '    def SetBounds(self,',
            '    __instances = {}\n\n    @classmethod\n    def GetInstance(cls, lo, up, n=1, m=10):\n'
            '        key = (n, m)\n        ev = cls.__instances.get(key)\n        if ev is None:\n'
            '            ev = cls(lo, up, n, m)\n            cls.__instances[key] = ev\n        else:\n'
            '            ev.SetBounds(lo, up)\n        return ev\n\n    def SetBounds(self,')],
     why='one evolvent per (N, m) shared by all solvers, re-targeted on every request')
fire('c12-evolvent-registry-setdefault', 'C12', SV, 'Solver.__init__', _EV_NEW,
     'self.evolvent = _EVOLVENTS.setdefault(problem.numberOfFloatVariables, Evolvent(problem.lowerBoundOfFloatVariables, problem.upperBoundOfFloatVariables,\n'
     '                                 problem.numberOfFloatVariables, parameters.evolventDensity))', None,
     also=[(SV, None, '\nclass Solver:', '\n_EVOLVENTS = {}\n\n\nclass Solver:')])
twin('c12-evolvent-factory-fresh', 'C12', SV, 'Solver.__init__', _EV_NEW,
     'self.evolvent = Evolvent.ForProblem(problem, parameters.evolventDensity)',
     also=[(EV, 'Evolvent', '    def SetBounds(self,',
            '    @classmethod\n    def ForProblem(cls, problem, m=10):\n'
            '        return cls(problem.lowerBoundOfFloatVariables, problem.upperBoundOfFloatVariables,\n'
            '                   problem.numberOfFloatVariables, m)\n\n    def SetBounds(self,')],
     why='a factory that builds a fresh evolvent per call shares nothing')

# ----------------------------------------------------------------------------- C15
PR = 'iOpt/problems/'
GF = PR + 'grishagin_function/grishagin_function.py'
GK = PR + 'GKLS_function/gkls_function.py'
GR = PR + 'GKLS_function/gkls_random.py'
fire('c15-memo-self', 'C15', PR + 'rastrigin.py', 'Rastrigin.Calculate', '        functionValue.value = sum\n',
     '        self.lastValue = sum\n        functionValue.value = sum\n', 'R15.1')
fire('c15-memo-dict', 'C15', PR + 'hill.py', 'Hill.Calculate', '        res: np.double = 0\n',
     '        res: np.double = 0\n        self.knownOptimum[0].point.floatVariables[0] = point.floatVariables[0]\n',
     'R15.1')
fire('c15-counter', 'C15', PR + 'xsquared.py', 'XSquared.Calculate', '        functionValue.value = sum\n',
     '        self.numberOfDisreteVariables += 1\n        functionValue.value = sum\n', 'R15.1')
fire('c15-point-normalised', 'C15', PR + 'rastrigin.py', 'Rastrigin.Calculate', '        sum: np.double = 0\n',
     '        sum: np.double = 0\n        point.floatVariables[0] = float(point.floatVariables[0])\n', 'R15.2')
fire('c15-point-via-callee', 'C15', GF, 'GrishaginFunction.Calculate', '        d1 = math.pi * x[0]\n',
     '        x[0] = min(max(x[0], 0.0), 1.0)\n        d1 = math.pi * x[0]\n', 'R15.1')
fire('c15-gkls-scratch-self', 'C15', GK, 'GKLSFunction.GKLS_norm', '        norm = np.double(0)\n',
     '        norm = np.double(0)\n        self.delta = norm\n', 'R15.1')
fire('c15-grishagin-scratch-self', 'C15', GF, 'GrishaginFunction.Calculate',
     '        snx = np.ndarray(shape=(7,), dtype=np.double)\n', '        snx = self.af[0]\n', 'R15.1')
fire('c15-fresh-holder', 'C15', PR + 'shekel.py', 'Shekel.Calculate', '        functionValue.value = res\n        return functionValue',
     '        out = FunctionValue()\n        out.value = res\n        return out', 'R15.3')
fire('c15-no-store-branch', 'C15', PR + 'stronginC3.py', 'StronginC3.Calculate',
     '        functionValue.value = res\n        return functionValue',
     '        if res < 0:\n            functionValue.value = res\n        return functionValue', 'R15.3')
fire('c15-returns-none', 'C15', PR + 'xsquared.py', 'XSquared.Calculate', '        return functionValue', '        return None',
     'R15.3')
fire('c15-matcon-alias', 'C15', GF, 'GrishaginFunction.SetFunctionNumber',
     '        for j in range(len(grishaginGen.matcon[i1])):\n            self.icnf[j] = int(grishaginGen.matcon[i1][j])\n',
     '        self.icnf = grishaginGen.matcon[i1]\n', None)
fire('c15-class-level-buffers', 'C15', GR, 'GKLSRandomGenerator.__init__',
     '        self.rnd_num = np.zeros(GKLSRandomGenerator.KK, dtype=np.double)  # array of random numbers */\n',
     '        self.rnd_num = GKLSRandomGenerator.SHARED\n', None,
     also=[(GR, 'GKLSRandomGenerator', '    NUM_RND = 1009  # size of the array of random numbers */',
            '    NUM_RND = 1009  # size of the array of random numbers */\n    SHARED = np.zeros(100, dtype=np.double)'),
           (GR, 'GKLSRandomGenerator.Initialize', '        self.rnd_num = rnd_num_mem\n', '')])
fire('c15-module-table-write', 'C15', PR + 'hill.py', 'Hill.__init__', '        self.fn = function_number\n',
     '        self.fn = function_number\n        hillGen.minHill[self.fn][0] = hillGen.minHill[self.fn][0] + 0.0\n', 'R15.4')
fire('c15-random', 'C15', PR + 'rastrigin.py', 'Rastrigin.Calculate', '        functionValue.value = sum\n',
     '        functionValue.value = sum + 0.0 * np.random.rand()\n', 'R15.6')
fire('c15-time', 'C15', PR + 'shekel4.py', 'Shekel4.Calculate', '        functionValue.value = res\n',
     '        import time\n        functionValue.value = res + 0 * time.time()\n', 'R15.6')
fire('c15-ctor-shared-holder', 'C15', PR + 'shekel4.py', 'Shekel4.__init__', '        KOfunV[0] = FunctionValue()\n',
     '        KOfunV[0] = shekelGen.c\n', None)
twin('c15-local-scratch', 'C15', PR + 'rastrigin.py', 'Rastrigin.Calculate', '        sum: np.double = 0\n',
     '        sum: np.double = 0\n        terms = []\n        terms.append(sum)\n')
twin('c15-copy-then-write', 'C15', PR + 'rastrigin.py', 'Rastrigin.Calculate', '        sum: np.double = 0\n',
     '        sum: np.double = 0\n        y = np.copy(point.floatVariables)\n        y[0] = y[0] + 0.0\n')
twin('c15-helper', 'C15', PR + 'xsquared.py', 'XSquared.Calculate',
     '        for i in range(self.dimension):\n            sum += point.floatVariables[i] * point.floatVariables[i]\n',
     '        sum = float(np.dot(point.floatVariables, point.floatVariables))\n')

# ----------------------------------------------------------------------------- C17
fire('c17-return-scratch', 'C17', EV, 'Evolvent.GetImage', 'return np.copy(self.yValues)', 'return self.yValues', 'R17.1')
fire('c17-arg-nocopy', 'C17', EV, 'Evolvent.GetInverseImage', 'self.yValues = np.array(y, dtype=np.double)',
     'self.yValues = y', 'R17.2')
fire('c17-arg-asarray', 'C17', EV, 'Evolvent.GetPreimages', 'self.yValues = np.array(y, dtype=np.double)',
     'self.yValues = np.asarray(y)', None)
fire('c17-dtype-copy', 'C17', EV, 'Evolvent.GetInverseImage', 'self.yValues = np.array(y, dtype=np.double)',
     'self.yValues = np.copy(y)', 'R17.3')
fire('c17-dtype-array-nodtype', 'C17', EV, 'Evolvent.GetPreimages', 'self.yValues = np.array(y, dtype=np.double)',
     'self.yValues = np.array(y)', 'R17.3')
fire('c17-dtype-int', 'C17', EV, 'Evolvent.GetPreimages', 'self.yValues = np.array(y, dtype=np.double)',
     'self.yValues = np.array(y, dtype=np.int32)', 'R17.3')
fire('c17-no-reinit', 'C17', EV, 'Evolvent.__GetYonX',
     '        self.yValues = np.zeros(self.numberOfFloatVariables, dtype=np.double)\n', '', 'R17.3')
fire('c17-orientation-on-self', 'C17', EV, 'Evolvent.__GetYonX',
     '        iw = np.ones(self.numberOfFloatVariables, dtype=np.int32)\n',
     '        iw = self.iw\n', None,
     also=[(EV, 'Evolvent.__init__', '        self.nexpValue = 0  # nexpExtended\n',
            '        self.nexpValue = 0  # nexpExtended\n        self.iw = np.ones(self.numberOfFloatVariables, dtype=np.int32)\n')])
fire('c17-setbounds-nocopy', 'C17', EV, 'Evolvent.SetBounds',
     'self.lowerBoundOfFloatVariables = np.copy(lowerBoundOfFloatVariables)', 'self.lowerBoundOfFloatVariables = lowerBoundOfFloatVariables',
     None, also=[(EV, 'Evolvent.__TransformD2P', '        for i in range(0, self.numberOfFloatVariables):\n',
                  '        self.lowerBoundOfFloatVariables[0] += 0.0\n        for i in range(0, self.numberOfFloatVariables):\n')])
fire('c17-density-written', 'C17', EV, 'Evolvent.GetImage', '        self.__GetYonX(x)\n',
     '        self.evolventDensity = min(self.evolventDensity, 50)\n        self.__GetYonX(x)\n', None)
fire('c17-nexp-accumulates', 'C17', EV, 'Evolvent.__GetXonY', '        r = 0.5\n        r1 = 1.0\n',
     '        r = 0.5\n        r1 = 1.0\n        self.nexpExtended += 0.0\n', 'R17.5')
twin('c17-float64', 'C17', EV, 'Evolvent.GetInverseImage', 'self.yValues = np.array(y, dtype=np.double)',
     'self.yValues = np.array(y, dtype=np.float64)')
twin('c17-float-builtin', 'C17', EV, 'Evolvent.GetPreimages', 'self.yValues = np.array(y, dtype=np.double)',
     'self.yValues = np.array(y, dtype=float)')
twin('c17-zeros-default', 'C17', EV, 'Evolvent.__GetYonX',
     'self.yValues = np.zeros(self.numberOfFloatVariables, dtype=np.double)', 'self.yValues = np.zeros(self.numberOfFloatVariables)')
twin('c17-copy-result-array', 'C17', EV, 'Evolvent.GetImage', 'return np.copy(self.yValues)', 'return np.array(self.yValues)')
twin('c17-n1-rebind', 'C17', EV, 'Evolvent.__GetYonX', '            self.yValues[0] = _x - 0.5\n',
     '            self.yValues = np.zeros(1, dtype=np.double)\n            self.yValues[0] = _x - 0.5\n')

# ----------------------------------------------------------------------------- C13
LS = 'iOpt/method/listener.py'
CO = 'iOpt/output_system/console/console_output.py'
SP = 'iOpt/output_system/painters/static_painter.py'
DP = 'iOpt/output_system/painters/dynamic_painter.py'
fire('c13-base-sig', 'C13', LS, 'Listener.OnMethodStop', 'def OnMethodStop(self, searchData: SearchData, solution: Solution, status: bool):',
     'def OnMethodStop(self, searchData: SearchData):', 'R13.1')
fire('c13-base-missing', 'C13', LS, 'Listener', '    def OnRefrash(self, searchData: SearchData):\n        pass\n',
     '', None, also=[(LS, 'Listener', '    def BeforeMethodStart(self, searchData: SearchData):\n        pass\n\n', '')])
fire('c13-callsite-extra-arg', 'C13', P, 'Process.DoGlobalIteration', 'listener.OnEndIteration(savedNewPoints, self.GetResults())',
     'listener.OnEndIteration(savedNewPoints, self.GetResults(), number)', 'R13.1')
fire('c13-override-sig', 'C13', LS, 'StaticPaintListener.OnMethodStop',
     'def OnMethodStop(self, searchData: SearchData,\n                     solution: Solution, status: bool):',
     'def OnMethodStop(self, searchData: SearchData,\n                     solution: Solution):', 'R13.1')
fire('c13-duck-attr', 'C13', LS, 'ConsoleFullOutputListener.BeforeMethodStart',
     'FunctionConsoleFullOutput(method.task.problem, method.parameters)', 'FunctionConsoleFullOutput(method.problem, method.parameters)',
     'R13.2')
fire('c13-duck-method', 'C13', CO, 'FunctionConsoleFullOutput.printIterPointInfo', 'value = savedNewPoints[0].GetZ()',
     'value = savedNewPoints[0].GetValue()', 'R13.2')
fire('c13-before-after-seed', 'C13', P, 'Process.DoGlobalIteration',
     '                for listener in self.__listeners:\n                    listener.BeforeMethodStart(self.method)\n                self.method.FirstIteration()',
     '                self.method.FirstIteration()\n                for listener in self.__listeners:\n                    listener.BeforeMethodStart(self.method)',
     'R13.3')
fire('c13-before-every-call', 'C13', P, 'Process.DoGlobalIteration',
     '        savedNewPoints = []\n', '        savedNewPoints = []\n        for listener in self.__listeners:\n            listener.BeforeMethodStart(self.method)\n',
     'R13.3')
fire('c13-append-old', 'C13', P, 'Process.DoGlobalIteration', 'savedNewPoints.append(newpoint)', 'savedNewPoints.append(oldpoint)',
     'R13.3')
fire('c13-no-append', 'C13', P, 'Process.DoGlobalIteration', '                savedNewPoints.append(newpoint)\n', '', 'R13.3')
fire('c13-end-inside-loop', 'C13', P, 'Process.DoGlobalIteration',
     '                self.method.FinalizeIteration()\n',
     '                self.method.FinalizeIteration()\n                for listener in self.__listeners:\n                    listener.OnEndIteration(savedNewPoints, self.GetResults())\n',
     'R13.3')
fire('c13-end-break', 'C13', P, 'Process.DoGlobalIteration',
     '            listener.OnEndIteration(savedNewPoints, self.GetResults())',
     '            listener.OnEndIteration(savedNewPoints, self.GetResults())\n            break', 'R13.3')
fire('c13-end-first-only', 'C13', P, 'Process.DoGlobalIteration',
     '        for listener in self.__listeners:\n            listener.OnEndIteration', '        for listener in self.__listeners[:1]:\n            listener.OnEndIteration',
     'R13.3')
fire('c13-stop-skipped-on-exception', 'C13', P, 'Process.Solve',
     "            print('Exception was thrown')", "            print('Exception was thrown')\n            return self.GetResults()",
     'R13.3')
fire('c13-stop-before-refine', 'C13', P, 'Process.Solve',
     '        if self.parameters.refineSolution:\n            self.DoLocalRefinement(-1)\n\n        result = self.GetResults()\n        result.solvingTime = (datetime.now() - startTime).total_seconds()\n\n        for listener in self.__listeners:\n            status = self.method.CheckStopCondition()\n            listener.OnMethodStop(self.searchData, self.GetResults(), status)\n',
     '        for listener in self.__listeners:\n            status = self.method.CheckStopCondition()\n            listener.OnMethodStop(self.searchData, self.GetResults(), status)\n\n        if self.parameters.refineSolution:\n            self.DoLocalRefinement(-1)\n\n        result = self.GetResults()\n        result.solvingTime = (datetime.now() - startTime).total_seconds()\n',
     'R13.3')
fire('c13-seed-item-wrong', 'C13', M, 'Method.FirstIteration',
     '        self.searchData.InsertFirstDataItem(left, right)\n        self.searchData.InsertDataItem(middle, right)',
     '        self.searchData.InsertDataItem(middle, right)\n        self.searchData.InsertFirstDataItem(left, right)',
     None)
fire('c13-list-copied', 'C13', P, 'Process.__init__', 'self.__listeners = listeners', 'self.__listeners = list(listeners)',
     'R13.4')
fire('c13-console-swapped', 'C13', CO, 'FunctionConsoleFullOutput.printFinalResult',
     '            solution.numberOfGlobalTrials,\n            solution.numberOfLocalTrials,', '            solution.numberOfLocalTrials,\n            solution.numberOfGlobalTrials,',
     'R13.5')
fire('c13-console-label', 'C13', CO, 'ConsoleOutputer.printResult',
     '"global iteration count: ", numberOfGlobalTrials', '"global iteration count: ", numberOfLocalTrials', 'R13.5')
fire('c13-console-value', 'C13', CO, 'FunctionConsoleFullOutput.printFinalResult',
     'bestTrialValue = solution.bestTrials[0].functionValues[0].value', 'bestTrialValue = solution.bestTrials[0].functionValues[-1].value',
     'R13.5')
fire('c13-painter-nocopy', 'C13', SP, 'StaticVisualization1D.drawObjFunction', 'copy = self.optimum.copy()', 'copy = self.optimum',
     'R13.6')
fire('c13-painter-nd-nocopy', 'C13', DP, 'AnimateVisualizationND.drawObjFunction', 'copy = optimum.copy()', 'copy = optimum',
     'R13.6')
fire('c13-painter-holder', 'C13', SP, 'FunctionStaticNDPainter.PaintLL', '                fv = FunctionValue()\n                fv = sv1d.objFunc(x_, fv)',
     '                fv = self.solution.bestTrials[0].functionValues[0]\n                fv = sv1d.objFunc(x_, fv)', 'R13.6')
fire('c13-listener-sorts', 'C13', CO, 'FunctionConsoleFullOutput.printIterPointInfo', 'value = savedNewPoints[0].GetZ()',
     'value = savedNewPoints[0].GetZ()\n        savedNewPoints[0].SetZ(round(value, 8))', 'R13.6')
fire('c13-console-mutates-solution', 'C13', CO, 'FunctionConsoleFullOutput.printFinalResult',
     '        bestTrialValue = solution.bestTrials[0].functionValues[0].value\n',
     '        bestTrialValue = solution.bestTrials[0].functionValues[0].value\n        solution.solvingTime = round(solution.solvingTime, 3)\n',
     'R13.6')
twin('c13-kw-call', 'C13', P, 'Process.Solve', 'listener.OnMethodStop(self.searchData, self.GetResults(), status)',
     'listener.OnMethodStop(self.searchData, solution=self.GetResults(), status=status)')
twin('c13-painter-nparray', 'C13', SP, 'StaticVisualization1D.drawObjFunction', 'copy = self.optimum.copy()',
     'copy = np.array(self.optimum)')
twin('c13-status-hoisted', 'C13', P, 'Process.Solve',
     '        for listener in self.__listeners:\n            status = self.method.CheckStopCondition()\n            listener.OnMethodStop',
     '        status = self.method.CheckStopCondition()\n        for listener in self.__listeners:\n            listener.OnMethodStop')
fire('c13-early-return-skips-end', 'C13', P, 'Process.DoGlobalIteration',
     '            else:\n                newpoint, oldpoint = self.method.CalculateIterationPoint()',
     '            else:\n                if self.method.CheckStopCondition():\n                    return\n'
     '                newpoint, oldpoint = self.method.CalculateIterationPoint()', 'R13.3',
     why='trials made earlier in the batch are never reported')
twin('c13-early-break-keeps-end', 'C13', P, 'Process.DoGlobalIteration',
     '            else:\n                newpoint, oldpoint = self.method.CalculateIterationPoint()',
     '            else:\n                if self.method.CheckStopCondition():\n                    break\n'
     '                newpoint, oldpoint = self.method.CalculateIterationPoint()',
     why='break leaves the loop but the notification still happens: C13 is indifferent (C11 objects)')

# ----------------------------------------------------------------------------- C05
fire('c05-bounds-dropped', 'C05', P, 'Process.DoLocalRefinement', "options={'maxiter': self.localMethodIterationCount}, bounds=bounds)",
     "options={'maxiter': self.localMethodIterationCount})", 'R05.4')
fire('c05-bounds-swapped', 'C05', P, 'Process.DoLocalRefinement',
     'Bounds(self.task.problem.lowerBoundOfFloatVariables, self.task.problem.upperBoundOfFloatVariables)',
     'Bounds(self.task.problem.upperBoundOfFloatVariables, self.task.problem.lowerBoundOfFloatVariables)', 'R05.4')
fire('c05-method-bfgs', 'C05', P, 'Process.DoLocalRefinement', "x0=startPoint, method='Nelder-Mead'", "x0=startPoint, method='BFGS'", 'R05.4')
fire('c05-x0-elsewhere', 'C05', P, 'Process.DoLocalRefinement', 'startPoint = result.bestTrials[0].point.floatVariables',
     'startPoint = self.task.problem.lowerBoundOfFloatVariables', 'R05.5')
fire('c05-callable-other-point', 'C05', P, 'Process.problemCalculate', 'point = Point(y, [])',
     'point = Point(2 * y, [])', 'R05.5')
fire('c05-r-after', 'C05', EV, 'Evolvent.__GetYonX',
     '            r *= 0.5\n            it = l\n            for i in range(0, self.numberOfFloatVariables):\n                iu[i] *= iw[i]\n                iw[i] *= -iv[i]\n                self.yValues[i] += r * iu[i]\n',
     '            it = l\n            for i in range(0, self.numberOfFloatVariables):\n                iu[i] *= iw[i]\n                iw[i] *= -iv[i]\n                self.yValues[i] += r * iu[i]\n            r *= 0.5\n',
     'R05.2')
fire('c05-r0-one', 'C05', EV, 'Evolvent.__GetYonX', '        r = 0.5\n        it = 0\n', '        r = 1.0\n        it = 0\n', 'R05.2')
fire('c05-r-slow', 'C05', EV, 'Evolvent.__GetYonX', '            r *= 0.5\n            it = l', '            r *= 0.75\n            it = l',
     'R05.2')
fire('c05-orientation-sum', 'C05', EV, 'Evolvent.__GetYonX', '                iu[i] *= iw[i]\n', '                iu[i] += iw[i]\n',
     'R05.2')
fire('c05-orientation-digit', 'C05', EV, 'Evolvent.__CalculateNode', '                u[i] = j\n', '                u[i] = j * 2\n',
     'R05.2')
fire('c05-orientation-float', 'C05', EV, 'Evolvent.__CalculateNode', '                k2 = -1\n', '                k2 = -iff\n',
     'R05.2')
fire('c05-affine-plus', 'C05', EV, 'Evolvent.__TransformP2D',
     'self.upperBoundOfFloatVariables[i] - self.lowerBoundOfFloatVariables[i]) + \\',
     'self.upperBoundOfFloatVariables[i] + self.lowerBoundOfFloatVariables[i]) + \\', 'R05.3')
fire('c05-affine-nocentre', 'C05', EV, 'Evolvent.__TransformP2D',
     '(self.upperBoundOfFloatVariables[i] + self.lowerBoundOfFloatVariables[i]) / 2',
     '(self.upperBoundOfFloatVariables[i] + self.lowerBoundOfFloatVariables[i])', 'R05.3')
fire('c05-bounds-swapped-solver', 'C05', SV, 'Solver.__init__',
     'Evolvent(problem.lowerBoundOfFloatVariables, problem.upperBoundOfFloatVariables,',
     'Evolvent(problem.upperBoundOfFloatVariables, problem.lowerBoundOfFloatVariables,', 'R05.3')
fire('c05-init-swapped', 'C05', EV, 'Evolvent.__init__', 'self.lowerBoundOfFloatVariables = np.copy(lowerBoundOfFloatVariables)',
     'self.lowerBoundOfFloatVariables = np.copy(upperBoundOfFloatVariables)', 'R05.3')
fire('c05-point-shifted', 'C05', P, 'Process.DoGlobalIteration', '                self.method.CalculateFunctionals(newpoint)\n',
     '                newpoint.point.floatVariables = newpoint.point.floatVariables * 1.001\n                self.method.CalculateFunctionals(newpoint)\n',
     'R05.1')
fire('c05-eval-old', 'C05', P, 'Process.DoGlobalIteration', 'self.method.CalculateFunctionals(newpoint)',
     'self.method.CalculateFunctionals(oldpoint)', None)
twin('c05-affine-rewritten', 'C05', EV, 'Evolvent.__TransformP2D',
     '            self.yValues[i] = self.yValues[i] * (\n                        self.upperBoundOfFloatVariables[i] - self.lowerBoundOfFloatVariables[i]) + \\\n                        (self.upperBoundOfFloatVariables[i] + self.lowerBoundOfFloatVariables[i]) / 2',
     '            lo, hi = self.lowerBoundOfFloatVariables[i], self.upperBoundOfFloatVariables[i]\n            self.yValues[i] = 0.5 * (hi + lo) + (hi - lo) * self.yValues[i]')
twin('c05-r-div2', 'C05', EV, 'Evolvent.__GetYonX', '            r *= 0.5\n            it = l', '            r = r / 2\n            it = l')
twin('c05-bounds-kw', 'C05', P, 'Process.DoLocalRefinement',
     'Bounds(self.task.problem.lowerBoundOfFloatVariables, self.task.problem.upperBoundOfFloatVariables)',
     'Bounds(lb=self.task.problem.lowerBoundOfFloatVariables, ub=self.task.problem.upperBoundOfFloatVariables)')
_NM_CALL = "options={'maxiter': self.localMethodIterationCount}, bounds=bounds)"
fire('c05-carried-simplex', 'C05', P, 'Process.DoLocalRefinement', _NM_CALL,
     "options={'maxiter': self.localMethodIterationCount, 'initial_simplex': getattr(self, '_simplex', None)}, bounds=bounds)\n"
     "        self._simplex = nelder_mead.final_simplex[0]", 'R05.6',
     why='getattr form is opaque to the carried-state test but the override is not computed from x0')
fire('c05-carried-simplex-attr', 'C05', P, 'Process.DoLocalRefinement', _NM_CALL,
     "options={'maxiter': self.localMethodIterationCount, 'initial_simplex': self.lastSimplex}, bounds=bounds)\n"
     "        self.lastSimplex = nelder_mead.final_simplex[0]", 'R05.6',
     also=[(P, 'Process.__init__', 'self.localMethodIterationCount = 0', 'self.localMethodIterationCount = 0\n        self.lastSimplex = None')])
fire('c05-carried-start', 'C05', P, 'Process.DoLocalRefinement', 'startPoint = result.bestTrials[0].point.floatVariables',
     'startPoint = result.bestTrials[0].point.floatVariables if self.lastStart is None else self.lastStart\n'
     '        self.lastStart = startPoint', None,
     also=[(P, 'Process.__init__', 'self.localMethodIterationCount = 0', 'self.localMethodIterationCount = 0\n        self.lastStart = None')])
twin('c05-simplex-from-x0', 'C05', P, 'Process.DoLocalRefinement', _NM_CALL,
     "options={'maxiter': self.localMethodIterationCount, 'initial_simplex': np.vstack((startPoint, startPoint + 0.01))}, bounds=bounds)",
     also=[(P, None, 'import scipy', 'import numpy as np\nimport scipy')])
twin('c05-options-local', 'C05', P, 'Process.DoLocalRefinement',
     "        nelder_mead = scipy.optimize.minimize(self.problemCalculate, x0=startPoint, method='Nelder-Mead',\n                                              options={'maxiter': self.localMethodIterationCount}, bounds=bounds)",
     "        opts = {'maxiter': self.localMethodIterationCount}\n        opts['xatol'] = self.parameters.eps\n"
     "        nelder_mead = scipy.optimize.minimize(self.problemCalculate, x0=startPoint, method='Nelder-Mead',\n                                              options=opts, bounds=bounds)")

# ----------------------------------------------------------------------------- C07
fire('c07-isclose', 'C07', EV, 'Evolvent.__GetYonX', 'if _x == 1.0:', 'if math.isclose(_x, 1.0):', 'R07.1')
fire('c07-npisclose', 'C07', EV, 'Evolvent.__GetYonX', 'if _x == 1.0:', 'if np.isclose(d, 1.0):', None)
fire('c07-abs-tol', 'C07', EV, 'Evolvent.__GetYonX', 'if _x == 1.0:', 'if abs(_x - 1.0) < 1e-12:', None)
fire('c07-end-digit', 'C07', EV, 'Evolvent.__GetYonX', 'iis = self.nexpExtended - 1.0', 'iis = self.nexpExtended', 'R07.2')
fire('c07-end-remainder', 'C07', EV, 'Evolvent.__GetYonX', '                iis = self.nexpExtended - 1.0\n                d = 0.0',
     '                iis = self.nexpExtended - 1.0\n                d = 1.0', 'R07.2')
fire('c07-digit-round', 'C07', EV, 'Evolvent.__GetYonX', 'iis = int(d)', 'iis = round(d)', 'R07.2')
fire('c07-no-remainder', 'C07', EV, 'Evolvent.__GetYonX', '                iis = int(d)\n                d -= iis\n',
     '                iis = int(d)\n', 'R07.2')
fire('c07-radix-wrong', 'C07', EV, 'Evolvent.__GetYonX', 'd *= self.nexpExtended', 'd *= self.numberOfFloatVariables', 'R07.2')
fire('c07-radix-triple', 'C07', EV, 'Evolvent.__init__', 'self.nexpExtended += self.nexpExtended', 'self.nexpExtended += 2 * self.nexpExtended',
     'R07.3')
fire('c07-radix-loop', 'C07', EV, 'Evolvent.__init__', 'for i in range(0, self.numberOfFloatVariables):\n            self.nexpExtended',
     'for i in range(1, self.numberOfFloatVariables):\n            self.nexpExtended', 'R07.3')
fire('c07-radix-start', 'C07', EV, 'Evolvent.__init__', 'self.nexpExtended: np.double = 1.0', 'self.nexpExtended: np.double = 2.0',
     'R07.3')
twin('c07-ge-one', 'C07', EV, 'Evolvent.__GetYonX', 'if _x == 1.0:', 'if 1.0 == _x:')
twin('c07-digit-split', 'C07', EV, 'Evolvent.__GetYonX', '                d *= self.nexpExtended\n                iis = int(d)\n                d -= iis\n',
     '                d = d * self.nexpExtended\n                iis = int(d)\n                d = d - iis\n')

# ----------------------------------------------------------------------------- C09
fire('c09-n1-forward', 'C09', EV, 'Evolvent.__GetYonX', 'self.yValues[0] = _x - 0.5', 'self.yValues[0] = _x - 0.25', 'R09.1')
fire('c09-n1-inverse', 'C09', EV, 'Evolvent.__GetXonY', 'x = self.yValues[0] + 0.5', 'x = self.yValues[0] + 0.25', 'R09.1')
fire('c09-d2p-factor', 'C09', EV, 'Evolvent.__TransformD2P',
     '                        (self.upperBoundOfFloatVariables[i] - self.lowerBoundOfFloatVariables[i])',
     '                        (self.upperBoundOfFloatVariables[i] + self.lowerBoundOfFloatVariables[i])', 'R09.2')
fire('c09-d2p-centre', 'C09', EV, 'Evolvent.__TransformD2P',
     'self.upperBoundOfFloatVariables[i] + self.lowerBoundOfFloatVariables[i]) / 2) / \\',
     'self.upperBoundOfFloatVariables[i] + self.lowerBoundOfFloatVariables[i])) / \\', 'R09.2')
fire('c09-inverse-levels', 'C09', EV, 'Evolvent.__GetXonY', 'for j in range(0, self.evolventDensity):',
     'for j in range(0, self.evolventDensity - 1):', None)
fire('c09-inverse-radix', 'C09', EV, 'Evolvent.__GetXonY', 'r1 = r1 / self.nexpExtended', 'r1 = r1 / 2', 'R09.3')
fire('c09-inverse-weight', 'C09', EV, 'Evolvent.__GetXonY', '            r1 = r1 / self.nexpExtended\n            x += r1 * iis',
     '            x += r1 * iis\n            r1 = r1 / self.nexpExtended', 'R09.3')
fire('c09-inverse-start', 'C09', EV, 'Evolvent.__GetXonY', '        r1 = 1.0\n        x = 0.0', '        r1 = 1.0\n        x = 0.5', 'R09.3')
fire('c09-siblings', 'C09', EV, 'Evolvent.GetPreimages', '        self.__TransformD2P()\n        x = self.__GetXonY()',
     '        x = self.__GetXonY()', 'R09.4')
fire('c09-dtype', 'C09', EV, 'Evolvent.GetInverseImage', 'self.yValues = np.array(y, dtype=np.double)', 'self.yValues = np.copy(y)',
     'R17.3')
twin('c09-n1-half', 'C09', EV, 'Evolvent.__GetXonY', 'x = self.yValues[0] + 0.5', 'x = 1 / 2 + self.yValues[0]')
twin('c09-weight-mult', 'C09', EV, 'Evolvent.__GetXonY', '            r1 = r1 / self.nexpExtended\n            x += r1 * iis',
     '            r1 /= self.nexpExtended\n            x = x + iis * r1')

# ----------------------------------------------------------------------------- C20
fire('c20-density-dropped', 'C20', SV, 'Solver.__init__', 'problem.numberOfFloatVariables, parameters.evolventDensity)',
     'problem.numberOfFloatVariables)', 'R20.1')
fire('c20-density-const', 'C20', SV, 'Solver.__init__', 'problem.numberOfFloatVariables, parameters.evolventDensity)',
     'problem.numberOfFloatVariables, 10)', 'R20.1')
fire('c20-params-ignore', 'C20', 'iOpt/solver_parametrs.py', 'SolverParameters.__init__', 'self.evolventDensity = evolventDensity',
     'self.evolventDensity = 10', 'R20.1')
fire('c20-ctor-ignore', 'C20', EV, 'Evolvent.__init__', 'self.evolventDensity = evolventDensity', 'self.evolventDensity = 10',
     'R20.2')
fire('c20-loop-const', 'C20', EV, 'Evolvent.__GetYonX', 'for j in range(0, self.evolventDensity):', 'for j in range(0, 10):', None)
fire('c20-loop-capped', 'C20', EV, 'Evolvent.__GetXonY', 'for j in range(0, self.evolventDensity):',
     'for j in range(0, min(self.evolventDensity, 10)):', None)
fire('c20-density-rewritten', 'C20', EV, 'Evolvent.SetBounds', '        self.upperBoundOfFloatVariables = np.copy(upperBoundOfFloatVariables)',
     '        self.upperBoundOfFloatVariables = np.copy(upperBoundOfFloatVariables)\n        self.evolventDensity = 10', 'R20.3')
twin('c20-density-kw', 'C20', SV, 'Solver.__init__', 'problem.numberOfFloatVariables, parameters.evolventDensity)',
     'problem.numberOfFloatVariables, evolventDensity=parameters.evolventDensity)')
twin('c20-loop-range1', 'C20', EV, 'Evolvent.__GetYonX', 'for j in range(0, self.evolventDensity):', 'for j in range(self.evolventDensity):')

# ----------------------------------------------------------------------------- C11
fire('c11-random-tiebreak', 'C11', M, 'Method.CalculateNextPointCoordinate', '            x = 0.5 * (xl + xr)\n        if x <= xl',
     '            x = 0.5 * (xl + xr) + 0.0 * np.random.rand()\n        if x <= xl', 'R11.1')
fire('c11-time-seed', 'C11', M, 'Method.__init__', '        self.stop: bool = False\n',
     '        import time\n        self.stop: bool = False\n        self.seed = time.time()\n', 'R11.1')
fire('c11-id-order', 'C11', SD, 'CharacteristicsQueue.Insert', 'self.__baseQueue.insert(dataItem, key)',
     'self.__baseQueue.insert(dataItem, key + 1e-18 * (id(dataItem) % 7))', 'R11.1')
fire('c11-clock-in-search', 'C11', P, 'Process.Solve', '        startTime = datetime.now()\n',
     '        startTime = datetime.now()\n        self.method.parameters.r = 2.0 + startTime.microsecond * 1e-12\n', 'R11.1')
fire('c11-carried-local', 'C11', P, 'Process.DoGlobalIteration',
     '                newpoint, oldpoint = self.method.CalculateIterationPoint()\n                savedNewPoints.append(newpoint)\n',
     '                if oldpoint is None:\n                    newpoint, oldpoint = self.method.CalculateIterationPoint()\n                else:\n                    newpoint, oldpoint = self.method.CalculateIterationPoint()\n                savedNewPoints.append(newpoint)\n',
     'R11.2', also=[(P, 'Process.DoGlobalIteration', '        savedNewPoints = []\n', '        savedNewPoints = []\n        oldpoint = None\n')])
fire('c11-number-used', 'C11', P, 'Process.DoGlobalIteration', '                self.method.FinalizeIteration()\n',
     '                self.method.FinalizeIteration()\n                if number > 10:\n                    self.method.recalc = True\n',
     'R11.2')
fire('c11-stop-in-driver', 'C11', P, 'Process.DoGlobalIteration', '                self.method.FinalizeIteration()\n',
     '                self.method.FinalizeIteration()\n                if self.method.CheckStopCondition():\n                    break\n',
     'R11.2')
fire('c11-range-plus', 'C11', P, 'Process.DoGlobalIteration', 'for _ in range(number):', 'for _ in range(number + 1):', 'R11.2')
fire('c11-stop-side-effect', 'C11', M, 'Method.CheckStopCondition', '            self.stop = True\n',
     '            self.stop = True\n            self.recalc = True\n', 'R11.3')
fire('c11-stop-read', 'C11', M, 'Method.CalculateIterationPoint', '        if self.recalc is True:',
     '        if self.recalc is True or self.stop:', 'R11.3')
fire('c11-flag-reset', 'C11', P, 'Process.Solve', '        startTime = datetime.now()\n',
     '        startTime = datetime.now()\n        self.__first_iteration = True\n', 'R11.4')
fire('c11-flag-not-cleared', 'C11', P, 'Process.DoGlobalIteration', '                self.__first_iteration = False\n', '',
     'R11.4')
fire('c11-flag-starts-false', 'C11', P, 'Process.__init__', 'self.__first_iteration = True', 'self.__first_iteration = False',
     'R11.4')
fire('c11-posttest', 'C11', P, 'Process.Solve',
     '            while not self.method.CheckStopCondition():\n                self.DoGlobalIteration()',
     '            while True:\n                self.DoGlobalIteration()\n                if self.method.CheckStopCondition():\n                    break',
     'R03.5')
fire('c11-accuracy-reset', 'C11', P, 'Process.Solve', '        startTime = datetime.now()\n',
     '        startTime = datetime.now()\n        self.searchData.solution.solutionAccuracy = 1.0\n', 'R03.6')
twin('c11-flag-truthy', 'C11', P, 'Process.DoGlobalIteration', 'if self.__first_iteration is True:', 'if self.__first_iteration:')
twin('c11-local-temp', 'C11', P, 'Process.DoGlobalIteration',
     '                newpoint, oldpoint = self.method.CalculateIterationPoint()\n',
     '                pair = self.method.CalculateIterationPoint()\n                newpoint, oldpoint = pair\n')
fire('c11-solve-forces-recalc', 'C11', P, 'Process.Solve', '        startTime = datetime.now()\n',
     '        startTime = datetime.now()\n        self.method.recalc = True\n', 'R11.7')
fire('c11-solve-resets-accuracy', 'C11', P, 'Process.Solve', '        startTime = datetime.now()\n',
     '        startTime = datetime.now()\n        self.searchData.solution.solutionAccuracy = 1.0\n', None)
fire('c11-solve-clears-queue', 'C11', P, 'Process.Solve', '        startTime = datetime.now()\n',
     '        startTime = datetime.now()\n        self.searchData.ClearQueue()\n', 'R11.7')
twin('c11-solve-own-counter', 'C11', P, 'Process.Solve', '        startTime = datetime.now()\n',
     '        startTime = datetime.now()\n        self.solveCalls = 1\n')
twin('c11-solve-local-flag', 'C11', P, 'Process.Solve', '        result = self.GetResults()\n',
     '        result = self.GetResults()\n        refined = bool(self.parameters.refineSolution)\n')

# ----------------------------------------------------------------------------- C18
HG = PR + 'Hill/hill_generation.py'
fire('c18-bounds-equal', 'C18', PR + 'rastrigin.py', 'Rastrigin.__init__', 'self.upperBoundOfFloatVariables.fill(1.8)',
     'self.upperBoundOfFloatVariables.fill(-2.2)', 'R18.1')
fire('c18-bounds-reversed', 'C18', PR + 'xsquared.py', 'XSquared.__init__', 'self.lowerBoundOfFloatVariables.fill(-1)',
     'self.lowerBoundOfFloatVariables.fill(2)', 'R18.1')
fire('c18-len-mismatch', 'C18', PR + 'shekel4.py', 'Shekel4.__init__',
     'self.upperBoundOfFloatVariables = np.ndarray(shape=(self.dimension,), dtype=np.double)',
     'self.upperBoundOfFloatVariables = np.ndarray(shape=(self.dimension + 1,), dtype=np.double)', 'R18.1')
fire('c18-dimension-mismatch', 'C18', PR + 'grishagin.py', 'Grishagin.__init__', 'self.numberOfFloatVariables = self.dimension',
     'self.numberOfFloatVariables = 3', 'R18.1')
fire('c18-gkls-len', 'C18', PR + 'GKLS.py', 'GKLS.__init__', 'self.upperBoundOfFloatVariables = dimension * [1]',
     'self.upperBoundOfFloatVariables = (dimension - 1) * [1]', 'R18.1')
fire('c18-two-objectives', 'C18', PR + 'hill.py', 'Hill.__init__', 'self.numberOfObjectives = 1', 'self.numberOfObjectives = 2',
     'R18.1')
fire('c18-strongin-bound-missing', 'C18', PR + 'stronginC3.py', 'StronginC3.__init__',
     '        self.upperBoundOfFloatVariables[1] = 3\n', '', 'R18.1')
fire('c18-opt-outside', 'C18', PR + 'shekel4.py', 'Shekel4.__init__', 'pointfv.fill(4)', 'pointfv.fill(14)', 'R18.2')
fire('c18-opt-strongin', 'C18', PR + 'stronginC3.py', 'StronginC3.__init__', 'pointfv[1] = 0.941176', 'pointfv[1] = 3.941176',
     'R18.2')
fire('c18-opt-column', 'C18', PR + 'hill.py', 'Hill.__init__', 'pointfv[0] = hillGen.minHill[self.fn][1]',
     'pointfv[0] = hillGen.minHill[self.fn][0]', 'R18.2')
fire('c18-opt-shekel-box', 'C18', PR + 'shekel.py', 'Shekel.__init__', 'self.upperBoundOfFloatVariables.fill(10)',
     'self.upperBoundOfFloatVariables.fill(5)', 'R18.2')
fire('c18-opt-len', 'C18', PR + 'rastrigin.py', 'Rastrigin.__init__',
     'pointfv = np.ndarray(shape=(self.dimension), dtype=np.double)', 'pointfv = np.ndarray(shape=(1), dtype=np.double)', 'R18.2')
fire('c18-table-value', 'C18', PR + 'grishagin_function/grishagin_generation.py', None,
     '    0.603052, 0.408337,  # f(min1)=-13.51436', '    1.603052, 0.408337,  # f(min1)=-13.51436', 'R18.2')
fire('c18-table-ragged', 'C18', PR + 'Shekel4/shekel4_generation.py', None, '    [7, 3.6, 7, 3.6],', '    [7, 3.6, 7],', None)
twin('c18-fill-float', 'C18', PR + 'xsquared.py', 'XSquared.__init__', 'self.upperBoundOfFloatVariables.fill(1)',
     'self.upperBoundOfFloatVariables.fill(1.0)')
twin('c18-gkls-comp', 'C18', PR + 'GKLS.py', 'GKLS.__init__', 'self.lowerBoundOfFloatVariables = dimension * [-1]',
     'self.lowerBoundOfFloatVariables = [-1 for _ in range(dimension)]')
_HILL_RES = '        res: np.double = 0\n        for i in range(hillGen.NUM_HILL_COEFF):'
fire('c18-hill-half-open-penalty', 'C18', PR + 'hill.py', 'Hill.Calculate', _HILL_RES,
     '        if not (self.lowerBoundOfFloatVariables[0] <= point.floatVariables[0] < self.upperBoundOfFloatVariables[0]):\n'
     '            functionValue.value = 1E+100\n            return functionValue\n' + _HILL_RES, 'R18.5')
fire('c18-hill-open-penalty', 'C18', PR + 'hill.py', 'Hill.Calculate', _HILL_RES,
     '        if point.floatVariables[0] <= self.lowerBoundOfFloatVariables[0] or point.floatVariables[0] >= self.upperBoundOfFloatVariables[0]:\n'
     '            functionValue.value = 1E+100\n            return functionValue\n' + _HILL_RES, 'R18.5')
twin('c18-hill-closed-penalty', 'C18', PR + 'hill.py', 'Hill.Calculate', _HILL_RES,
     '        if not (self.lowerBoundOfFloatVariables[0] <= point.floatVariables[0] <= self.upperBoundOfFloatVariables[0]):\n'
     '            functionValue.value = 1E+100\n            return functionValue\n' + _HILL_RES)
fire('c18-gkls-right-boundary-excluded', 'C18', GK, 'GKLSFunction.CalculateDFunction',
     'x[i] > self.GKLS_domain_right[i] + GKLSFunction.GKLS_PRECISION)):', 'x[i] >= self.GKLS_domain_right[i])):', 'R18.5',
     also=[(GK, 'GKLSFunction.CalculateDFunction', 'if ((x[i] < self.GKLS_domain_left[i] - GKLSFunction.GKLS_PRECISION) or (', 'if ((x[i] <= self.GKLS_domain_left[i]) or (')])

# ----------------------------------------------------------------------------- generic behaviour-preserving edits
# prop '*': every claimed property's checker must stay silent on these
def gtwin(id, file, func, old, new, why='', also=None):
    CORPUS.append(Edit(id, '*', file, func, old, new, 'silent', None, why, also))


gtwin('g-print-in-loop', P, 'Process.DoGlobalIteration', '                self.method.FinalizeIteration()\n',
      '                self.method.FinalizeIteration()\n                print("iteration", self.method.GetIterationsCount())\n')
gtwin('g-rename-locals', M, 'Method.CalculateGlobalR', '        zl = left_point.GetZ()\n        zr = curr_point.GetZ()\n',
      '        zl = left_point.GetZ()\n        zr = curr_point.GetZ()\n        z_left, z_right = zl, zr\n        zl, zr = z_left, z_right\n')
gtwin('g-helper-rM', M, 'Method.CalculateGlobalR', 'globalR = 2 * deltax - 4 * (zr - self.Z[v]) / (r * self.M[v])',
      'globalR = 2 * deltax - 4 * (zr - self.Z[v]) / self._rM(v)',
      also=[(M, 'Method', '    def FinalizeIteration(self) -> None:', '    def _rM(self, v):\n        return self.parameters.r * self.M[v]\n\n    def FinalizeIteration(self) -> None:')])
gtwin('g-delta-module-function', M, 'Method.CalculateDelta', 'return pow(rx - lx, 1.0 / dimension)', 'return _holder_delta(lx, rx, dimension)',
      also=[(M, None, 'class Method:', 'def _holder_delta(lx, rx, dimension):\n    return pow(rx - lx, 1.0 / dimension)\n\n\nclass Method:')])
gtwin('g-new-attribute', M, 'Method.__init__', '        self.stop: bool = False\n', '        self.stop: bool = False\n        self.name = "AGP"\n')
gtwin('g-results-local', P, 'Process.DoGlobalIteration',
      '        for listener in self.__listeners:\n            listener.OnEndIteration(savedNewPoints, self.GetResults())',
      '        current = self.GetResults()\n        for listener in self.__listeners:\n            listener.OnEndIteration(savedNewPoints, current)')
gtwin('g-optimum-local-index', M, 'Method.UpdateOptimum', '        if self.best is None or self.best.GetIndex() < point.GetIndex():',
      '        idx = point.GetIndex()\n        if self.best is None or self.best.GetIndex() < idx:')
gtwin('g-finalize-print', M, 'Method.FinalizeIteration', '        self.iterationsCount += 1',
      '        self.iterationsCount += 1\n        if self.iterationsCount % 1000 == 0:\n            print("iterations:", self.iterationsCount)')
gtwin('g-new-listener', LS, None, '# moode: objective function, approximation, only points',
      'class CountingListener(Listener):\n    def __init__(self):\n        self.calls = 0\n\n    def OnEndIteration(self, savedNewPoints, solution):\n        self.calls += 1\n\n\n# moode: objective function, approximation, only points')
gtwin('g-renew-left-local', M, 'Method.RenewSearchData',
      '        oldpoint.delta = Method.CalculateDelta(newpoint.GetX(), oldpoint.GetX(), self.dimension)\n        newpoint.delta = Method.CalculateDelta(oldpoint.GetLeft().GetX(), newpoint.GetX(), self.dimension)\n\n        self.CalculateM(newpoint, oldpoint.GetLeft())\n        self.CalculateM(oldpoint, newpoint)\n\n        self.CalculateGlobalR(newpoint, oldpoint.GetLeft())',
      '        left = oldpoint.GetLeft()\n        oldpoint.delta = Method.CalculateDelta(newpoint.GetX(), oldpoint.GetX(), self.dimension)\n        newpoint.delta = Method.CalculateDelta(left.GetX(), newpoint.GetX(), self.dimension)\n\n        self.CalculateM(newpoint, left)\n        self.CalculateM(oldpoint, newpoint)\n\n        self.CalculateGlobalR(newpoint, left)')
gtwin('g-count-local', SD, 'SearchData.GetCount', '        return len(self._allTrials)', '        n = len(self._allTrials)\n        return n')
gtwin('g-image-local', EV, 'Evolvent.GetImage', '        return np.copy(self.yValues)', '        res = np.copy(self.yValues)\n        return res')
gtwin('g-rastrigin-local', PR + 'rastrigin.py', 'Rastrigin.Calculate', '        sum: np.double = 0\n',
      '        sum: np.double = 0\n        xs = point.floatVariables\n')
gtwin('g-solver-reorder', SV, 'Solver.__init__',
      '        self.evolvent = Evolvent(problem.lowerBoundOfFloatVariables, problem.upperBoundOfFloatVariables,\n                                 problem.numberOfFloatVariables, parameters.evolventDensity)\n        self.task = OptimizationTask(problem)\n',
      '        self.task = OptimizationTask(problem)\n        self.evolvent = Evolvent(problem.lowerBoundOfFloatVariables, problem.upperBoundOfFloatVariables,\n                                 problem.numberOfFloatVariables, parameters.evolventDensity)\n')
gtwin('g-stop-locals', M, 'Method.CheckStopCondition',
      '        if self.min_delta < self.parameters.eps or self.iterationsCount >= self.parameters.itersLimit:',
      '        accurate = self.min_delta < self.parameters.eps\n        exhausted = self.iterationsCount >= self.parameters.itersLimit\n        if accurate or exhausted:')
gtwin('g-solve-result-early', P, 'Process.Solve', '        result = self.GetResults()\n        result.solvingTime',
      '        result = self.searchData.solution\n        result.solvingTime')
gtwin('g-insert-no-flag', SD, 'SearchData.InsertDataItem',
      '        flag = True\n        if rightDataItem is None:\n            rightDataItem = self.FindDataItemByOneDimensionalPoint(newDataItem.GetX())\n            flag = False\n',
      '        hinted = rightDataItem is not None\n        flag = hinted\n        if not hinted:\n            rightDataItem = self.FindDataItemByOneDimensionalPoint(newDataItem.GetX())\n')
gtwin('g-new-problem', PR + 'xsquared.py', None, 'class XSquared(Problem):',
      'class XCubedAbs(Problem):\n    def __init__(self, dimension: int):\n        super(XCubedAbs, self).__init__()\n        self.dimension = dimension\n        self.numberOfFloatVariables = dimension\n        self.numberOfObjectives = 1\n        self.numberOfConstraints = 0\n        self.floatVariableNames = np.ndarray(shape=(self.dimension), dtype=str)\n        for i in range(self.dimension):\n            self.floatVariableNames[i] = i\n        self.lowerBoundOfFloatVariables = np.ndarray(shape=(self.dimension), dtype=np.double)\n        self.lowerBoundOfFloatVariables.fill(-1)\n        self.upperBoundOfFloatVariables = np.ndarray(shape=(self.dimension), dtype=np.double)\n        self.upperBoundOfFloatVariables.fill(2)\n        self.knownOptimum = np.ndarray(shape=(1), dtype=Trial)\n        pointfv = np.ndarray(shape=(self.dimension), dtype=np.double)\n        pointfv.fill(0)\n        KOpoint = Point(pointfv, [])\n        KOfunV = np.ndarray(shape=(1), dtype=FunctionValue)\n        KOfunV[0] = FunctionValue()\n        KOfunV[0].value = 0\n        self.knownOptimum[0] = Trial(KOpoint, KOfunV)\n\n    def Calculate(self, point: Point, functionValue: FunctionValue) -> FunctionValue:\n        s = 0.0\n        for i in range(self.dimension):\n            s += abs(point.floatVariables[i]) ** 3\n        functionValue.value = s\n        return functionValue\n\n\nclass XSquared(Problem):')

gtwin('g-evolvent-factory-fresh', SV, 'Solver.__init__', _EV_NEW,
      'self.evolvent = Evolvent.ForProblem(problem, parameters.evolventDensity)',
      also=[(EV, 'Evolvent', '    def SetBounds(self,',
             '    @classmethod\n    def ForProblem(cls, problem, m=10):\n'
             '        return cls(problem.lowerBoundOfFloatVariables, problem.upperBoundOfFloatVariables,\n'
             '                   problem.numberOfFloatVariables, m)\n\n    def SetBounds(self,')],
      why='a class-method factory that builds a fresh evolvent per call')
gtwin('g-solve-own-counter', P, 'Process.Solve', '        startTime = datetime.now()\n',
      '        startTime = datetime.now()\n        self.solveCalls = 1\n')
gtwin('g-refine-options-local', P, 'Process.DoLocalRefinement',
      "        nelder_mead = scipy.optimize.minimize(self.problemCalculate, x0=startPoint, method='Nelder-Mead',\n                                              options={'maxiter': self.localMethodIterationCount}, bounds=bounds)",
      "        opts = {'maxiter': self.localMethodIterationCount}\n"
      "        nelder_mead = scipy.optimize.minimize(self.problemCalculate, x0=startPoint, method='Nelder-Mead',\n                                              options=opts, bounds=bounds)")
gtwin('g-density-local-alias', EV, 'Evolvent.__GetYonX', '        for j in range(0, self.evolventDensity):',
      '        levels = self.evolventDensity\n        for j in range(0, levels):')
gtwin('g-density-local-alias-inverse', EV, 'Evolvent.__GetXonY', '        for j in range(0, self.evolventDensity):',
      '        levels = self.evolventDensity\n        for j in range(levels):')
gtwin('g-batch-local-alias', P, 'Process.DoGlobalIteration', '        for _ in range(number):',
      '        iterations = number\n        for _ in range(iterations):')
gtwin('g-stop-bound-method-alias', P, 'Process.Solve', '            while not self.method.CheckStopCondition():',
      '            shouldStop = self.method.CheckStopCondition\n            while not shouldStop():')
gtwin('g-method-local-alias-in-driver', P, 'Process.DoGlobalIteration', '        savedNewPoints = []\n',
      '        savedNewPoints = []\n        method = self.method\n',
      also=[(P, 'Process.DoGlobalIteration', '                newpoint, oldpoint = self.method.CalculateIterationPoint()',
             '                newpoint, oldpoint = method.CalculateIterationPoint()')])
gtwin('g-dimension-local-in-newpoint', M, 'Method.CalculateNextPointCoordinate',
      'pow(abs(dif) / self.M[v], self.task.problem.numberOfFloatVariables)',
      'pow(abs(dif) / self.M[v], N)',
      also=[(M, 'Method.CalculateNextPointCoordinate', '        if idl == idr:', '        N = self.task.problem.numberOfFloatVariables\n        if idl == idr:')])
twin('c03-while-traversal', 'C03', SD, 'SearchData.RefillQueue',
     '        for itr in self:\n            self._RGlobalQueue.Insert(itr.globalR, itr)',
     '        itr = self.GetLastItem()\n        while itr is not None:\n            itr = itr.GetLeft()\n        for itr in self:\n            self._RGlobalQueue.Insert(itr.globalR, itr)',
     why='a neighbour-link traversal terminates')
twin('c19-lookup-backward-correct', 'C19', SD, 'SearchData.FindDataItemByOneDimensionalPoint',
     '        for item in self:\n            if item.GetX() > x:\n                return item\n        return None',
     '        last = self.GetLastItem()\n        for item in self:\n            if item.GetX() > x:\n                return item\n        return None')
fire('c13-shared-listener-default', 'C13', SV, 'Solver.__init__', 'parameters: SolverParameters = SolverParameters()\n                 ):',
     'parameters: SolverParameters = SolverParameters(),\n                 listeners: List[Listener] = []\n                 ):', 'R13.7',
     also=[(SV, 'Solver.__init__', 'self.__listeners: List[Listener] = []', 'self.__listeners: List[Listener] = listeners')])
twin('c13-initial-listeners-copied', 'C13', SV, 'Solver.__init__', 'parameters: SolverParameters = SolverParameters()\n                 ):',
     'parameters: SolverParameters = SolverParameters(),\n                 listeners: List[Listener] = ()\n                 ):',
     also=[(SV, 'Solver.__init__', 'self.__listeners: List[Listener] = []', 'self.__listeners: List[Listener] = list(listeners)')])
fire('c11-recalc-per-call', 'C11', P, 'Process.DoGlobalIteration', '        for listener in self.__listeners:\n            listener.OnEndIteration',
     '        self.method.RecalcAllCharacteristics()\n        for listener in self.__listeners:\n            listener.OnEndIteration', 'R11.2',
     also=[(M, 'Method.CalculateIterationPoint', '        if self.recalc is True:\n            self.RecalcAllCharacteristics()\n', '')])
fire('c18-gkls-one-sided', 'C18', GK, 'GKLSFunction.GKLS_arg_generate',
     "             self.GKLS_domain_right[self.GKLS_dim - 1] - GKLSFunction.GKLS_PRECISION) or\n                (self.GKLS_minima.local_min[1][self.GKLS_dim - 1] <\n                 self.GKLS_domain_left[self.GKLS_dim - 1] + GKLSFunction.GKLS_PRECISION)):",
     "             self.GKLS_domain_right[self.GKLS_dim - 1] - GKLSFunction.GKLS_PRECISION)):", 'R18.4')
fire('c06-delta-before-eval', 'C06', M, 'Method.CalculateIterationPoint', '        return new, old',
     '        old.delta = Method.CalculateDelta(newx, old.GetX(), self.dimension)\n        new.delta = Method.CalculateDelta(old.GetLeft().GetX(), newx, self.dimension)\n        return new, old',
     'R06.9', also=[(M, 'Method.RenewSearchData', '        oldpoint.delta = Method.CalculateDelta(newpoint.GetX(), oldpoint.GetX(), self.dimension)\n        newpoint.delta = Method.CalculateDelta(oldpoint.GetLeft().GetX(), newpoint.GetX(), self.dimension)\n', '')])
twin('c02-delta-in-selection', 'C02', M, 'Method.CalculateIterationPoint', '        return new, old',
     '        old.delta = Method.CalculateDelta(newx, old.GetX(), self.dimension)\n        new.delta = Method.CalculateDelta(old.GetLeft().GetX(), newx, self.dimension)\n        return new, old',
     why='placement rule unchanged in fault-free runs: the lengths are refreshed earlier in the same iteration',
     also=[(M, 'Method.RenewSearchData', '        oldpoint.delta = Method.CalculateDelta(newpoint.GetX(), oldpoint.GetX(), self.dimension)\n        newpoint.delta = Method.CalculateDelta(oldpoint.GetLeft().GetX(), newpoint.GetX(), self.dimension)\n', '')])
twin('c05-affine-vectorised', 'C05', EV, 'Evolvent.__TransformP2D',
     '        for i in range(0, self.numberOfFloatVariables):\n            self.yValues[i] = self.yValues[i] * (\n                        self.upperBoundOfFloatVariables[i] - self.lowerBoundOfFloatVariables[i]) + \\\n                        (self.upperBoundOfFloatVariables[i] + self.lowerBoundOfFloatVariables[i]) / 2',
     '        self.yValues = self.yValues * (self.upperBoundOfFloatVariables - self.lowerBoundOfFloatVariables) + \\\n            (self.upperBoundOfFloatVariables + self.lowerBoundOfFloatVariables) / 2')
fire('c05-affine-cached', 'C05', EV, 'Evolvent.__TransformP2D',
     '        for i in range(0, self.numberOfFloatVariables):\n            self.yValues[i] = self.yValues[i] * (\n                        self.upperBoundOfFloatVariables[i] - self.lowerBoundOfFloatVariables[i]) + \\\n                        (self.upperBoundOfFloatVariables[i] + self.lowerBoundOfFloatVariables[i]) / 2',
     '        self.yValues = self.yValues * self.boxSize + self.boxCenter', 'R05.3',
     also=[(EV, 'Evolvent.__init__', '        self.evolventDensity = evolventDensity\n',
            '        self.evolventDensity = evolventDensity\n        self.boxSize = self.upperBoundOfFloatVariables - self.lowerBoundOfFloatVariables\n        self.boxCenter = (self.upperBoundOfFloatVariables + self.lowerBoundOfFloatVariables) / 2\n')])
fire('c03-default-number', 'C03', P, 'Process.DoGlobalIteration', 'def DoGlobalIteration(self, number: int = 1):',
     'def DoGlobalIteration(self, number: int = 2):', 'R03.5')
fire('c06-right-not-requeued', 'C06', SD, 'SearchData.InsertDataItem',
     '        if flag:\n            self._RGlobalQueue.Insert(rightDataItem.globalR, rightDataItem)\n', '', 'R06.1')
fire('c19-right-not-requeued', 'C19', SD, 'SearchData.InsertDataItem',
     '        if flag:\n            self._RGlobalQueue.Insert(rightDataItem.globalR, rightDataItem)\n', '', 'R19.1')

# ----------------------------------------------------------------------------- kept patches (seeded/ and seeded/twins/)
dtwin('g-evolvent-lazy-caches-coherent', '*', 'seeded/twins/evolvent-lazy-coefficient-caches-coherent.diff',
      why='vectorised transforms with lazily cached coefficients, both caches invalidated by SetBounds')
dfire('c17-stale-inverse-cache', 'C17', 'seeded/r3-C17-stale-inverse-coefficient-cache/patch.diff', 'R17.6')
dfire('c09-stale-inverse-cache', 'C09', 'seeded/r3-C17-stale-inverse-coefficient-cache/patch.diff', 'R09.2')
dtwin('c05-stale-inverse-cache-forward-unaffected', 'C05', 'seeded/r3-C17-stale-inverse-coefficient-cache/patch.diff',
      why='only the inverse coefficient cache is stale: the forward map (C05) is unaffected')
dtwin('c07-stale-inverse-cache-forward-unaffected', 'C07', 'seeded/r3-C17-stale-inverse-coefficient-cache/patch.diff',
      why='only the inverse coefficient cache is stale: the forward map (C07) is unaffected')

# ----------------------------------------------------------------------------- everything kept under seeded/
# every independently produced breaking change must make the checker of its own property fire, and every kept
# behaviour-preserving refactoring must leave every checker silent
import glob as _glob
import os as _os
import re as _re

_VERIF = _os.path.dirname(_os.path.dirname(_os.path.abspath(__file__)))
for _d in sorted(_glob.glob(_os.path.join(_VERIF, 'seeded', 'r[0-9]*-C[0-9][0-9]-*'))):
    _m = _re.match(r'(r\d+)-(C\d\d)-(.*)', _os.path.basename(_d))
    if _m and _os.path.exists(_os.path.join(_d, 'patch.diff')):
        dfire(f'seed-{_m.group(1)}-{_m.group(2)}-{_m.group(3)}'[:60], _m.group(2),
              _os.path.relpath(_os.path.join(_d, 'patch.diff'), _VERIF), None,
              why='independently produced breaking change (seeded/' + _os.path.basename(_d) + ')')
for _f in sorted(_glob.glob(_os.path.join(_VERIF, 'seeded', 'benign*', '*', '*.diff'))):
    _rel = _os.path.relpath(_f, _VERIF)
    dtwin('benign-' + _rel.replace('seeded/', '').replace('/', '-').replace('.diff', ''), '*', _rel,
          why='independently produced behaviour-preserving refactoring')
# breaking variants of accepted refactorings (an accepted idiom with one thing wrong): seeded/variants/Cxx-*.diff
for _f in sorted(_glob.glob(_os.path.join(_VERIF, 'seeded', 'variants', 'C[0-9][0-9]-*.diff'))):
    _b = _os.path.basename(_f)
    dfire('variant-' + _b.replace('.diff', '')[:60], _b[:3], _os.path.relpath(_f, _VERIF), None,
          why='an accepted refactoring with one breaking edit (made with bin/mk_variant)')
dtwin('c05-second-evolvent-same-box', 'C05', 'seeded/variants/C20-factory-builds-second-evolvent.diff',
      why='the second evolvent is built from task.problem, the same box: the affine map (C05) is unaffected')
dtwin('c07-second-evolvent-same-box', 'C07', 'seeded/variants/C20-factory-builds-second-evolvent.diff',
      why='the second evolvent is built from task.problem, the same box: the bounds binding (C07) is unaffected')
fire('c07-cells-shift-raw-density', 'C07', EV, 'Evolvent.__init__', '        self.nexpValue = 0  # nexpExtended\n',
     '        self.nexpValue = 0  # nexpExtended\n        self.cellCount = 1 << (self.numberOfFloatVariables * self.evolventDensity)\n', 'R07.6')
twin('c07-cells-shift-int-normalised', 'C07', EV, 'Evolvent.__init__', '        self.nexpValue = 0  # nexpExtended\n',
     '        self.nexpValue = 0  # nexpExtended\n        self.cellCount = 1 << int(self.numberOfFloatVariables * self.evolventDensity)\n')
twin('c07-nodes-shift-dimension-only', 'C07', EV, 'Evolvent.__init__', '        self.nexpValue = 0  # nexpExtended\n',
     '        self.nexpValue = 0  # nexpExtended\n        self.nodeMask = (1 << self.numberOfFloatVariables) - 1\n')
dtwin('c12-seterr-restored-in-finally', 'C12', 'seeded/twins/seterr-restored-in-finally.diff',
      why='process-wide numpy error mode changed and restored on every exit (try/finally)')
dtwin('c12-errstate-context-manager', 'C12', 'seeded/twins/errstate-context-manager.diff',
      why='np.errstate context manager: no process-wide state survives the block')


def dnoalarm(id, prop, diff, why=''):
    """A kept behaviour-preserving patch of a form some rule cannot decide: no checker may report a violation
    (exit 0 or "could not decide", never an alarm)."""
    CORPUS.append(Edit(id, prop, '@diff', None, diff, '', 'noalarm', None, why, None))


for _f in sorted(_glob.glob(_os.path.join(_VERIF, 'seeded', 'undecided', '*.diff'))):
    _rel = _os.path.relpath(_f, _VERIF)
    dnoalarm('undecided-' + _os.path.basename(_f).replace('.diff', '')[:60], '*', _rel,
             why='behaviour-preserving refactoring of a form at least one rule declares undecided (exit 2): '
                 'never a violation')
dtwin('c20-level-table-rebuilt-with-density', 'C20', 'seeded/twins/level-table-rebuilt-with-configured-density.diff',
      why='table-driven forward descent whose table always has self.evolventDensity rows')
dtwin('c09-level-table-rebuilt-with-density', 'C09', 'seeded/twins/level-table-rebuilt-with-configured-density.diff',
      why='table-driven forward descent whose table always has self.evolventDensity rows')
dnoalarm('level-table-rebuilt-with-density-noalarm', '*', 'seeded/twins/level-table-rebuilt-with-configured-density.diff',
         why='the cube bound is undecided for step tables (exit 2), never a violation')
dtwin('c18-function-number-check-inclusive', '*', 'seeded/twins/function-number-check-inclusive.diff',
      why='the function number is normalised with an inclusive range: every valid member is constructed as itself')
fire('c13-stop-status-undefined', 'C13', P, 'Process.Solve', '        status = self.method.CheckStopCondition()\n', '', 'R13.3',
     why='found by mutation sampling: the status handed to OnMethodStop is no longer assigned (NameError with a listener)')
fire('c19-base-request-no-refill', 'C19', SD, 'SearchData.GetDataItemWithMaxGlobalR',
     '        if self._RGlobalQueue.IsEmpty():\n            self.RefillQueue()\n', '        if self._RGlobalQueue.IsEmpty():\n            pass\n', 'R19.6',
     why='found by mutation sampling: the empty bounded queue is popped without a refill')
fire('c19-dual-request-no-refill-in-loop', 'C19', SD, 'SearchDataDualQueue.GetDataItemWithMaxLocalR',
     '            if self.__RLocalQueue.IsEmpty():\n                self.RefillQueue()\n', '            if self.__RLocalQueue.IsEmpty():\n                pass\n', 'R19.6',
     why='found by mutation sampling')
fire('c06-setindex-stores-nothing', 'C06', SD, 'SearchDataItem.SetIndex', '        self.__index = index', '        pass', 'R06.12',
     why='found by mutation sampling')
fire('c06-setz-stores-elsewhere', 'C06', SD, 'SearchDataItem.SetZ', '        self.__z = z', '        self.z = z', 'R06.12')
fire('c19-queue-clear-forwards-nothing', 'C19', SD, 'CharacteristicsQueue.Clear', '        self.__baseQueue.clear()', '        pass', 'R19.9',
     why='found by mutation sampling')
fire('c19-iter-raises-for-nonempty', 'C19', SD, 'SearchData.__iter__', '        if self.curIter is None:\n            raise StopIteration\n        else:\n            return self',
     '        if self.curIter is not None:\n            raise StopIteration\n        else:\n            return self', 'R19.4',
     why='found by mutation sampling')
dtwin('c12-geterr-before-seterr', 'C12', 'seeded/twins/geterr-before-seterr-restored-in-finally.diff',
      why='the caller\'s error mode is read before the change and restored in finally')
# feature additions (not refactorings): new functionality written against the pinned tree by independent authors.
# Save/restore of the search state in three designs: no property is affected, every checker stays silent.
for _f in sorted(_glob.glob(_os.path.join(_VERIF, 'seeded', 'features', 'persistence-design-*.diff'))):
    dtwin('feature-' + _os.path.basename(_f).replace('.diff', ''), '*', _os.path.relpath(_f, _VERIF),
          why='save/restore of the search state added as new entry points: the solving API is untouched')
# SolverParameters.startPoint honoured by the seeding routine: the first trial is no longer at x = 1/2, which is what
# C02 states - C02 must report it, every other checker stays silent
_SP = 'seeded/features/startpoint-first-trial-at-nearest-grid-point.diff'
dfire('feature-startpoint-c02', 'C02', _SP, 'R02.1',
      why='the first trial is placed at the grid point nearest to startPoint instead of x = 1/2 (C02 as stated)')
for _p in ('C03', 'C04', 'C05', 'C06', 'C07', 'C09', 'C11', 'C12', 'C13', 'C15', 'C16', 'C17', 'C18', 'C19', 'C20'):
    dtwin(f'feature-startpoint-{_p.lower()}', _p, _SP,
          why='only the position of the first trial changes: this property is unaffected')
dtwin('c04-checkpoint-saves-value-and-z', 'C04', 'seeded/twins/checkpoint-saves-value-and-z-separately.diff',
      why='the value and z of every trial are saved under their own keys and restored from them (R04.9 agrees)')
dtwin('c09-inverse-rejects-raw-point', '*', 'seeded/twins/inverse-rejects-raw-point-outside-raw-bounds.diff',
      why='the inverse queries validate the raw point against the raw bounds: no point of the box is rejected (R09.7)')
fire('c07-image-rounded-method', 'C07', EV, 'Evolvent.GetImage', 'return np.copy(self.yValues)',
     'return self.yValues.round(12)', 'R07.8')
fire('c07-image-float32', 'C07', EV, 'Evolvent.GetImage', 'return np.copy(self.yValues)',
     'return np.copy(self.yValues).astype(np.float32)', 'R07.8')
fire('c07-image-clipped-to-decimal-box', 'C07', EV, 'Evolvent.GetImage', 'return np.copy(self.yValues)',
     'return np.clip(np.copy(self.yValues), -1e6, 1e6)', 'R07.8')
twin('c07-image-array-float64', 'C07', EV, 'Evolvent.GetImage', 'return np.copy(self.yValues)',
     'return np.array(self.yValues, dtype=np.double)')
twin('c07-image-copy-method-astype64', 'C07', EV, 'Evolvent.GetImage', 'return np.copy(self.yValues)',
     'return self.yValues.copy().astype(np.float64)')
fire('c09-assert-transformed-in-cube', 'C09', EV, 'Evolvent.GetInverseImage', '        self.__TransformD2P()\n',
     '        self.__TransformD2P()\n        assert np.all(np.abs(self.yValues) <= 0.5), "point outside the domain"\n', 'R09.7')
twin('c09-length-check-before-transform', 'C09', EV, 'Evolvent.__TransformD2P',
     '        for i in range(0, self.numberOfFloatVariables):\n',
     '        if len(self.yValues) < self.numberOfFloatVariables:\n            raise ValueError("too few coordinates")\n        for i in range(0, self.numberOfFloatVariables):\n')
fire('c16-handler-reports-through-warnings', 'C16', P, 'Process.Solve', "print('Exception was thrown')",
     "import warnings\n            warnings.warn('the objective raised; the search was stopped')", 'R16.7')
twin('c16-handler-reports-through-logging', 'C16', P, 'Process.Solve', "print('Exception was thrown')",
     "import logging\n            logging.getLogger(__name__).warning('the objective raised; the search was stopped')")
dtwin('c13-end-iteration-from-finally-after-eval', '*', 'seeded/twins/end-iteration-from-finally-records-after-evaluation.diff',
      why='OnEndIteration is sent from a finally: block, but the new item is recorded after its evaluation: the list '
          'holds evaluated trials only (R13.9)')
dtwin('c18-fn-setter-rebuilds-everything', '*', 'seeded/twins/fn-setter-rebuilds-optimum-and-coefficient-rows.diff',
      why='the member-number setter re-derives the known optimum and the cached coefficient rows (R18.9)')
dtwin('c12-console-rows-bounded-by-point', '*', 'seeded/twins/console-rows-bounded-by-the-point-itself.diff',
      why='one console row per point of the call, the coordinate loop bounded by the length of the point itself (R12.6)')
dtwin('c17-setbounds-validates-then-commits', '*', 'seeded/twins/setbounds-validates-then-commits.diff',
      why='SetBounds validates converted copies held in locals and assigns both bounds only after every check passed (R17.9)')
dtwin('c20-density-validation-accepts-numpy-integers', '*', 'seeded/twins/density-validation-accepts-numpy-integers.diff',
      why='the constructor validates the density (integral floats converted, non-integers / non-positive values replaced '
          'by the default) and its type test lets numpy integers through (R20.7)')
dnoalarm('c04-second-evaluator-at-item-point', 'C04', 'seeded/twins/startpoint-trial-evaluated-at-item-point.diff',
         why='a second routine evaluates the objective, at the point of the item whose holder it fills: R04.4 holds; '
             'the remaining rules are undecided with two evaluators (exit 2), never a violation')
dtwin('c15-hill-optional-holder', '*', 'seeded/twins/hill-calculate-optional-holder.diff',
      why='the value holder of Hill.Calculate is optional; a supplied holder is still filled and returned (R15.3)')
fire('c15-hill-accumulates-into-holder', 'C15', 'iOpt/problems/hill.py', 'Hill.Calculate', '        functionValue.value = res\n',
     '        functionValue.value = functionValue.value + res\n', 'R15.3')
fire('c18-hill-accumulates-into-holder', 'C18', 'iOpt/problems/hill.py', 'Hill.Calculate', '        functionValue.value = res\n',
     '        functionValue.value = functionValue.value + res\n', 'R15.3')
fire('c02-holder-exponent-other-dimension', 'C02', M, 'Method.__init__',
     'self.dimension = task.problem.numberOfFloatVariables', 'self.dimension = task.problem.numberOfFloatVariables + 1', 'R06.4')
fire('c09-setbounds-keeps-caller-arrays', 'C09', EV, 'Evolvent.SetBounds',
     'self.lowerBoundOfFloatVariables = np.copy(lowerBoundOfFloatVariables)',
     'self.lowerBoundOfFloatVariables = np.asarray(lowerBoundOfFloatVariables)', 'R09.8')
fire('c13-before-start-never-delivered', 'C13', P, 'Process.DoGlobalIteration',
     '                    listener.BeforeMethodStart(self.method)\n', '                    pass\n', 'R13.3',
     why='found by mutation sampling: the loop over the listeners is kept but the call is gone')
fire('c13-method-stop-never-delivered', 'C13', P, 'Process.Solve',
     '            listener.OnMethodStop(self.searchData, self.GetResults(), status)\n', '            pass\n', 'R13.3',
     why='found by mutation sampling: the loop over the listeners is kept but the call is gone')
fire('c19-dual-ctor-arguments-exchanged', 'C19', SD, 'SearchDataDualQueue.__init__', 'super().__init__(problem, maxlen)',
     'super().__init__(maxlen, problem)', 'R19.10', why='found by mutation sampling (argument swap)')
dtwin('c16-trial-timer-exit-false', '*', 'seeded/twins/trial-timer-exit-returns-false.diff',
      why='a stopwatch context manager around the evaluation whose __exit__ returns False and whose clock values stay '
          'in attributes nobody on the search path reads (R16.8, R11.1)')
dtwin('c03-errstate-ignore-around-objective', '*', 'seeded/twins/errstate-ignore-around-objective.diff',
      why='np.errstate(... "ignore") around the objective call manufactures no exception (R03.10)')
