"""Role discovery: anchors are found by what the code *does* (effects, callees),
with today's names only as a cross-check printed in the evidence."""
from __future__ import annotations

import ast
from typing import Dict, List, Optional, Set

from .index import AnalysisError, ClassInfo, FuncInfo, Index
from .pta import PTA, Mutation


class RoleMissing(Exception):
    """No implementer of a role the property needs: reported as a violation."""

    def __init__(self, role: str, why: str):
        super().__init__(f'role "{role}" has no implementer: {why}')
        self.role, self.why = role, why


class Roles:
    def __init__(self, ix: Index, pta: PTA):
        self.ix, self.pta = ix, pta
        self._memo: Dict[str, object] = {}
        self._g = pta.call_graph()
        self._rg: Dict[str, Set[str]] = {}
        for a, bs in self._g.items():
            for b in bs:
                self._rg.setdefault(b, set()).add(a)

    # -- helpers ----------------------------------------------------------
    def fq(self, f: FuncInfo) -> str:
        return self.pta._fq(f)

    def f(self, q: str) -> FuncInfo:
        return self.ix.funcs[q]

    def callees_of(self, f: FuncInfo) -> List[FuncInfo]:
        return [self.f(q) for q in sorted(self._g.get(self.fq(f), ()))]

    def callers_of(self, f: FuncInfo) -> List[FuncInfo]:
        return [self.f(q) for q in sorted(self._rg.get(self.fq(f), ()))]

    def listener_methods(self) -> Set[str]:
        base = self.ix.find_cls('Listener')
        out: Set[str] = set()
        if base is None:
            return out
        for c in [base] + base.all_subclasses():
            for m in c.methods.values():
                out.add(self.fq(m))
        return out

    def reach(self, root: FuncInfo, through_listeners: bool = False) -> Set[str]:
        stop = None if through_listeners else (lambda q, ls=self.listener_methods(): q in ls)
        return self.pta.reachable([root], stop=stop)

    def memo(self, name, fn):
        if name not in self._memo:
            self._memo[name] = fn()
        return self._memo[name]

    def _unique(self, role: str, cands: List[FuncInfo], why: str) -> FuncInfo:
        cands = sorted(set(cands), key=lambda f: f.qualname)
        if not cands:
            raise RoleMissing(role, why)
        if len(cands) > 1:
            raise AnalysisError(f'role "{role}" is ambiguous: {[c.short for c in cands]} ({why})')
        return cands[0]

    def mutations(self) -> List[Mutation]:
        """Mutation sites, one per AST node (constructor contexts merged)."""
        def build():
            seen: Dict[int, Mutation] = {}
            for m in self.pta.mutations:
                k = id(m.node)
                if k in seen:
                    seen[k].bases |= m.bases
                else:
                    mm = Mutation(m.func, m.node, m.kind, m.field, m.base_expr, set(m.bases), m.detail, m.init_self)
                    seen[k] = mm
            return list(seen.values())
        return self.memo('mutations', build)

    # -- public API anchors ----------------------------------------------
    def api(self, name: str) -> FuncInfo:
        return self.ix.func(f'Solver.{name}')

    def _delegate(self, api_name: str, role: str) -> FuncInfo:
        a = self.api(api_name)
        cs = [c for c in self.callees_of(a) if c.kind == 'function' and c.name != '__init__']
        # hops inside the Solver class itself (a delegating property / private helper) are looked through
        for _ in range(3):
            if len(set(cs)) == 1 and cs[0].cls is a.cls:
                cs = [c for c in self.callees_of(cs[0]) if c.kind == 'function' and c.name != '__init__']
            else:
                break
        return self._unique(role, cs, f'non-trivial callee of Solver.{api_name}')

    @property
    def solve_driver(self) -> FuncInfo:
        return self.memo('solve_driver', lambda: self._delegate('Solve', 'solve driver'))

    @property
    def iter_driver(self) -> FuncInfo:
        return self.memo('iter_driver', lambda: self._delegate('DoGlobalIteration', 'iteration driver'))

    @property
    def refine_driver(self) -> FuncInfo:
        return self.memo('refine_driver', lambda: self._delegate('DoLocalRefinement', 'local refinement'))

    @property
    def results_getter(self) -> FuncInfo:
        return self.memo('results_getter', lambda: self._delegate('GetResults', 'results getter'))

    # -- evaluation -------------------------------------------------------
    @property
    def problem_calcs(self) -> List[FuncInfo]:
        def build():
            base = self.ix.cls('Problem')
            out = []
            for c in [base] + base.all_subclasses():
                m = c.methods.get('Calculate')
                if m is not None:
                    out.append(m)
            if not out:
                raise RoleMissing('objective evaluation', 'no Problem.Calculate')
            return out
        return self.memo('problem_calcs', build)

    @property
    def evaluators(self) -> List[FuncInfo]:
        """Functions with a call site that may dispatch to Problem.Calculate."""
        def build():
            pcs = {self.fq(p) for p in self.problem_calcs}
            out = []
            for q, cs in self._g.items():
                if cs & pcs and q not in pcs:
                    out.append(self.f(q))
            return sorted(out, key=lambda f: f.qualname)
        return self.memo('evaluators', build)

    @property
    def global_reach(self) -> Set[str]:
        return self.memo('global_reach', lambda: self.reach(self.iter_driver))

    def task_wrapper_candidates(self) -> List[FuncInfo]:
        # a private helper the wrapper was split into (`_Evaluate`) stands for the routine it was extracted from
        out = []
        for e in self.evaluators:
            if self.fq(e) in self.global_reach:
                l = self.lift(e)
                if l not in out:
                    out.append(l)
        return out

    @property
    def task_wrapper(self) -> FuncInfo:
        def build():
            cands = self.task_wrapper_candidates()
            return self._unique('task wrapper', cands,
                                'caller of Problem.Calculate reachable from the iteration driver')
        return self.memo('task_wrapper', build)

    def in_tw(self, f) -> bool:
        """f is the task wrapper or a private helper it was split into."""
        fam = self.memo('tw_family', lambda: set(self.helpers_of(self.task_wrapper)))
        return f in fam

    @property
    def eval_routine(self) -> FuncInfo:
        def build():
            cands = [c for c in self.callers_of(self.task_wrapper) if self.fq(c) in self.global_reach]
            return self._unique('evaluation routine', cands, 'caller of the task wrapper on the global path')
        return self.memo('eval_routine', build)

    # -- search data ------------------------------------------------------
    def sd_method(self, name: str) -> List[FuncInfo]:
        base = self.ix.cls('SearchData')
        out = []
        for c in [base] + base.all_subclasses():
            if name in c.methods:
                out.append(c.methods[name])
        if not out:
            raise RoleMissing(f'SearchData.{name}', 'public container operation missing')
        return out

    def callers_of_any(self, fs: List[FuncInfo], within: Optional[Set[str]] = None) -> List[FuncInfo]:
        out = []
        for f in fs:
            for c in self.callers_of(f):
                if within is None or self.fq(c) in within:
                    out.append(c)
        return sorted(set(out), key=lambda f: f.qualname)

    def _outside_container(self, fs: List[FuncInfo]) -> List[FuncInfo]:
        """Callers found inside the container classes themselves (convenience wrappers) are replaced by their
        callers: the role belongs to the routine of the method layer that uses the container."""
        sdc = self.ix.cls('SearchData')
        out, todo, seen = [], list(fs), set()
        while todo:
            f = todo.pop()
            if self.fq(f) in seen:
                continue
            seen.add(self.fq(f))
            if f.cls is not None and (f.cls is sdc or f.cls.is_subclass_of(sdc)):
                todo.extend(c for c in self.callers_of(f) if self.fq(c) in self.global_reach)
            else:
                out.append(f)
        return sorted(set(out), key=lambda f: f.qualname)

    @property
    def seeding(self) -> FuncInfo:
        return self.memo('seeding', lambda: self._unique(
            'seeding routine',
            sorted({self.lift(f) for f in self._outside_container(
                self.callers_of_any(self.sd_method('InsertFirstDataItem'), self.global_reach))},
                key=lambda f: f.qualname),
            'caller of InsertFirstDataItem on the global path'))

    def best_requesters(self) -> List[FuncInfo]:
        """Callers of the best-interval request on the global path, outside the container classes."""
        return self._outside_container(
            self.callers_of_any(self.sd_method('GetDataItemWithMaxGlobalR'), self.global_reach))

    @property
    def selection(self) -> FuncInfo:
        def build():
            cs = self.best_requesters()
            if len(set(cs)) > 1:
                # the selection routine is the requester that builds the new search item; any other requester is
                # reported by the who-may-pop rule (R02.10) instead of hiding behind an ambiguity
                item = self.ix.cls('SearchDataItem')
                makers = []
                for c in set(cs):
                    owners = {h.qualname for h in self.helpers_of(c)}
                    if any(o.kind == 'inst' and o.cls is not None and o.cls.is_subclass_of(item) and
                           o.scope == 'func' and o.owner in owners for o in self.pta._objs.values()):
                        makers.append(c)
                if len(makers) == 1:
                    cs = makers
            return self._unique('selection routine', cs, 'caller of GetDataItemWithMaxGlobalR on the global path')
        return self.memo('selection', build)

    @property
    def renewal(self) -> FuncInfo:
        def build():
            cs = [self.lift(c) for c in self.callers_of_any(self.sd_method('InsertDataItem'), self.global_reach)
                  if c.cls is not None and c.cls.name != 'SearchData'
                  and not c.cls.is_subclass_of(self.ix.cls('SearchData'))]
            cs = [c for c in cs if c is not self.seeding]
            if len(set(cs)) > 1:
                # the renewal routine is the caller that also refreshes interval lengths; any other caller is
                # reported by the completeness rule (R06.6) instead of hiding behind an ambiguity
                dw = {self.fq(m.func) for m in self.attr_writers('delta', self.ix.cls('SearchDataItem'))}
                pref = [c for c in cs if self.fq(c) in dw]
                if len(set(pref)) == 1:
                    cs = pref
            return self._unique('renewal routine', cs, 'caller of InsertDataItem on the per-iteration path')
        return self.memo('renewal', build)

    # -- writers discovered by effect -------------------------------------
    def attr_writers(self, field: str, cls: Optional[ClassInfo] = None, include_init: bool = False) -> List[Mutation]:
        out = []
        for m in self.mutations():
            if m.kind in ('attr', 'aug') and m.field == field:
                if m.init_self and not include_init:
                    continue
                if cls is not None and not any(o.cls is not None and o.cls.is_subclass_of(cls) for o in m.bases):
                    continue
                out.append(m)
        return out

    @property
    def method_cls(self) -> ClassInfo:
        return self.ix.cls('Method')

    @property
    def optimum_updater(self) -> FuncInfo:
        def build():
            ws = [self.lift(m.func) for m in self.attr_writers('best', self.method_cls)]
            ws = self._on_search_path(ws)
            return self._unique('optimum updater', ws, 'stores Method.best outside the constructor')
        return self.memo('optimum_updater', build)

    @property
    def characteristic_writer(self) -> FuncInfo:
        def build():
            item = self.ix.cls('SearchDataItem')
            count: Dict[str, int] = {}
            fs: Dict[str, FuncInfo] = {}
            for m in self.attr_writers('globalR', item):
                if isinstance(m.base_expr, ast.Name) and m.base_expr.id in m.func.param_names[1:]:
                    q = self.fq(m.func)
                    count[q] = count.get(q, 0) + 1
                    fs[q] = m.func
            if not fs:
                raise RoleMissing('characteristic writer', 'nobody stores .globalR on a parameter')
            # the routine that handles the most cases is the writer; any other site is reported by the
            # who-may-write rule (R02.2), not hidden behind an ambiguity
            best = max(count.values())
            top = [fs[q] for q, n in count.items() if n == best]
            return self._unique('characteristic writer', top, 'stores .globalR on a parameter (most cases)')
        return self.memo('characteristic_writer', build)

    def sub_writers(self, owner_cls: ClassInfo, field: str) -> List[Mutation]:
        """Subscript stores into <owner>.<field>[...]"""
        out = []
        for m in self.mutations():
            if m.kind in ('sub', 'aug', 'mutcall') and m.base_expr is not None and \
                    isinstance(m.base_expr, ast.Attribute) and m.base_expr.attr == field:
                objs = self.pta.expr_pts(m.func, m.base_expr.value)
                if any(o.cls is not None and o.cls.is_subclass_of(owner_cls) for o in objs):
                    out.append(m)
        return out

    @property
    def estimate_writer(self) -> FuncInfo:
        def build():
            ws = [self.lift(m.func) for m in self.sub_writers(self.method_cls, 'M') if m.func.name != '__init__']
            ws = self._on_search_path(ws)
            return self._unique('estimate writer', ws, 'subscript-stores into Method.M outside the constructor')
        return self.memo('estimate_writer', build)

    @property
    def full_recalc(self) -> FuncInfo:
        def build():
            cw = self.characteristic_writer
            refill = {self.fq(f) for f in self.sd_method('RefillQueue')}
            cands = []
            for c in self.callers_of(cw):
                if self._g.get(self.fq(c), set()) & refill and self.fq(c) in self.global_reach:
                    cands.append(c)
            if len(set(cands)) > 1:
                # the seeding routine may compute its own characteristics and refill; the full recomputation is
                # the other one
                try:
                    sdg = self.seeding
                    rest = [c for c in cands if c is not sdg]
                    if rest:
                        cands = rest
                except (RoleMissing, AnalysisError):
                    pass
            return self._unique('full recomputation', cands,
                                'calls the characteristic writer and RefillQueue')
        return self.memo('full_recalc', build)

    @property
    def stop_routine(self) -> FuncInfo:
        def build():
            cands = []
            drv = self.iter_driver
            for sd in self.helpers_of(self.solve_driver):
                for n in ast.walk(sd.node):
                    if not isinstance(n, ast.While):
                        continue
                    # the loop that performs the iterations
                    if not any(isinstance(c, ast.Call) and drv in self.pta.internal_callees(sd, c)
                               for b in n.body for c in ast.walk(b)):
                        continue
                    here = []
                    for c in ast.walk(n.test):
                        if isinstance(c, ast.Call):
                            here += self.pta.internal_callees(sd, c)
                    if not here:
                        # while True: if stop(): break / return
                        for st in n.body:
                            if isinstance(st, ast.If) and any(isinstance(x, (ast.Break, ast.Return))
                                                              for x in ast.walk(st)):
                                for c in ast.walk(st.test):
                                    if isinstance(c, ast.Call):
                                        here += self.pta.internal_callees(sd, c)
                    cands += [c for c in here if c is not drv]
            return self._unique('stop routine', cands, 'call tested by the loop of the solve driver')
        return self.memo('stop_routine', build)

    @property
    def new_point_routine(self) -> FuncInfo:
        """Callee of the selection routine whose result becomes the new item's curve coordinate."""
        def build():
            sel = self.selection
            item = self.ix.cls('SearchDataItem')
            cands = []
            assigned: Dict[str, List[FuncInfo]] = {}
            for n in ast.walk(sel.node):
                if isinstance(n, ast.Assign) and isinstance(n.value, ast.Call) and len(n.targets) == 1 and \
                        isinstance(n.targets[0], ast.Name):
                    assigned[n.targets[0].id] = self.pta.internal_callees(sel, n.value)
            for n in ast.walk(sel.node):
                if isinstance(n, ast.Call) and ('new', item.qualname) in self.pta.callees(sel, n):
                    a = n.args[1] if len(n.args) > 1 else next((k.value for k in n.keywords if k.arg == 'x'), None)
                    if isinstance(a, ast.Name):
                        cands += [c for c in assigned.get(a.id, []) if c.name != '__init__']
                    elif isinstance(a, ast.Call):
                        cands += self.pta.internal_callees(sel, a)
            cands = [c for c in cands if len(c.param_names) >= 2]
            if not cands:
                cands = self._new_point_by_paths(sel, item)
            return self._unique('new-point routine', cands, 'its result is the curve coordinate of the new item '
                                                            'built by the selection routine')
        return self.memo('new_point_routine', build)

    def _new_point_by_paths(self, sel: FuncInfo, item: ClassInfo) -> List[FuncInfo]:
        """The same question asked on path summaries (item construction moved into a private helper)."""
        from .paths import Explorer, key_of
        ex = Explorer(self.ix, self.pta)
        out: List[FuncInfo] = []
        for p in ex.explore(sel):
            if p.outcome == 'raise':
                continue
            for ne in p.events:
                if ne.kind != 'new' or not ne.d['cls'].is_subclass_of(item):
                    continue
                a = ne.d['args']
                x = a[1] if len(a) > 1 else ne.d['kwargs'].get('x')
                if x is None:
                    continue
                for ce in p.events:
                    if ce.kind == 'call' and not ce.d.get('inlined') and ce.d.get('result') is not None and \
                            key_of(ce.d['result']) == key_of(x):
                        out += [c for c in ce.d['callees'] if isinstance(c, FuncInfo) and len(c.param_names) >= 2]
        return sorted(set(out), key=lambda f: f.qualname)

    def role_functions(self) -> Set[str]:
        """Qualified names of the functions that play a role of their own (anchors of the rules) plus the public
        operations of the containers, the evolvent queries, the objectives and the listeners."""
        def build():
            out: Set[str] = set()
            for name in ('eval_routine', 'task_wrapper', 'seeding', 'selection', 'renewal', 'optimum_updater',
                         'characteristic_writer', 'estimate_writer', 'full_recalc', 'stop_routine',
                         'new_point_routine', 'results_getter', 'refine_driver', 'iter_driver', 'solve_driver'):
                try:
                    out.add(self.fq(getattr(self, name)))
                except (RoleMissing, AnalysisError, KeyError):
                    pass
            # operations the property statements and the pinned tests name; other public methods of these classes
            # (convenience wrappers added later) are looked through like any other glue
            anchors = {
                'SearchData': ('InsertDataItem', 'InsertFirstDataItem', 'FindDataItemByOneDimensionalPoint',
                               'GetDataItemWithMaxGlobalR', 'GetDataItemWithMaxLocalR', 'RefillQueue', 'ClearQueue',
                               'GetCount', 'GetLastItem', '__iter__', '__next__', 'SaveProgress', 'LoadProgress'),
                'CharacteristicsQueue': None, 'SearchDataItem': None, 'Evolvent': None, 'OptimizationTask': None,
                'Solution': None, 'SolverParameters': None,
            }
            for cn, names in anchors.items():
                c = self.ix.find_cls(cn)
                if c is None:
                    continue
                for cc in [c] + c.all_subclasses():
                    for n, m in cc.methods.items():
                        if names is not None and n not in names:
                            continue
                        if not n.startswith('_') or (n.startswith('__') and n.endswith('__')):
                            out.add(self.fq(m))
            out |= {self.fq(p) for p in self.problem_calcs}
            out |= self.listener_methods()
            return out
        return self.memo('role_functions', build)

    def is_glue(self, f: FuncInfo) -> bool:
        """A function of the solver/method layer that is no anchor itself but through which an anchor is reached
        (Method.DoIteration bundling the five steps, Process._RunGlobalSearch ...): rules look through it."""
        q = self.fq(f)
        if f.kind != 'function' or q in self.role_functions() or f.name == '__init__':
            return False
        if not f.module.name.startswith(('iOpt.method', 'iOpt.solver')):
            return False
        memo = self._memo.setdefault('glue', {})
        if q not in memo:
            memo[q] = bool(self.reach(f) & self.role_functions())
        return memo[q]

    SOLVING_API = ('__init__', 'Solve', 'DoGlobalIteration', 'DoLocalRefinement', 'GetResults', 'AddListener',
                   'RefreshListener')

    def other_entry_points(self) -> List[FuncInfo]:
        """Public methods of the Solver that are not part of the solving API the properties speak about
        (state saving / restoring and the like)."""
        solver = self.ix.cls('Solver')
        return [f for n, f in sorted(solver.methods.items())
                if f.kind == 'function' and not n.startswith('_') and n not in self.SOLVING_API]

    def restore_only(self) -> Set[str]:
        """Functions reachable from the other entry points but from no operation of the solving API."""
        def build():
            solver = self.ix.cls('Solver')
            api = [f for n, f in solver.methods.items() if n in self.SOLVING_API]
            api_reach = self.pta.reachable(api, stop=None)
            # listeners are called from the API as well
            other = self.other_entry_points()
            oreach = self.pta.reachable(other, stop=None) if other else set()
            return {q for q in oreach if q not in api_reach}
        return self.memo('restore_only', build)

    def _on_search_path(self, fs: List[FuncInfo]) -> List[FuncInfo]:
        """Roles of the search are played on the search path (reachable from the iteration driver); routines that
        only a state-restoring entry point (LoadProgress ...) reaches are not candidates - unless nothing else is."""
        on = [f for f in fs if self.fq(f) in self.global_reach]
        return on or fs

    @staticmethod
    def _is_private(f: FuncInfo) -> bool:
        return f.name.startswith('_') and not (f.name.startswith('__') and f.name.endswith('__'))

    def lift(self, f: FuncInfo) -> FuncInfo:
        """A role found (by its effect) inside a private helper belongs to the routine the helper was extracted
        from: follow single callers of the same class / module upwards while the function is private."""
        seen = set()
        while self._is_private(f) and self.fq(f) not in seen:
            seen.add(self.fq(f))
            callers = [c for c in self.callers_of(f) if c is not f]
            if len(callers) != 1:
                break
            c = callers[0]
            same = (f.cls is None and c.module is f.module) or \
                (f.cls is not None and c.cls is not None and (f.cls.is_subclass_of(c.cls) or c.cls.is_subclass_of(f.cls)))
            if not same:
                break
            f = c
        return f

    def helpers_of(self, fn: FuncInfo) -> List[FuncInfo]:
        """fn and the private helpers extracted from it (same class, reachable only through fn)."""
        out = [fn]
        for q in sorted(self.dominated_closure({self.fq(fn)})):
            g = self.ix.funcs.get(q)
            if g is None or g is fn or g.kind != 'function':
                continue
            if g.name.startswith('_') and not (g.name.startswith('__') and g.name.endswith('__')) and \
                    g.cls is not None and fn.cls is not None and \
                    (g.cls.is_subclass_of(fn.cls) or fn.cls.is_subclass_of(g.cls)):
                out.append(g)
        return out

    def dominated_closure(self, allowed: Set[str]) -> Set[str]:
        """Close an allow-list under call-graph dominance: a function all of whose callers are allowed is allowed
        (a helper extracted from an allowed writer does not raise an alarm)."""
        out = set(allowed)
        changed = True
        while changed:
            changed = False
            for q, callers in self._rg.items():
                if q in out or not callers:
                    continue
                if all(c in out or c == q for c in callers):
                    out.add(q)
                    changed = True
        return out

    def binding_table(self) -> Dict[str, str]:
        out = {}
        for name in ('solve_driver', 'iter_driver', 'refine_driver', 'task_wrapper', 'eval_routine', 'seeding',
                     'selection', 'renewal', 'optimum_updater', 'characteristic_writer', 'estimate_writer',
                     'full_recalc', 'stop_routine', 'new_point_routine'):
            try:
                out[name] = getattr(self, name).short
            except (RoleMissing, AnalysisError) as e:
                out[name] = f'<{e}>'
        return out
