"""C04 - the reported optimum is the best trial actually evaluated (DESIGN.md section 3, C04)."""
from __future__ import annotations

import ast
import itertools

from ..algebra import FALSE, NONE, RF, TRUE, Lit
from ..index import AnalysisError, FuncInfo
from ..paths import TupleVal, atomv, key_of
from ..report import Ctx
from ..roles import RoleMissing
from . import common as C
from .common import attr, sub, var

LEVEL_TEXT = ('Static decision of the structural necessary conditions: every evaluation is followed by the optimum '
              'update of the same item before anyone is notified; the update predicate is exactly "none yet, or '
              'higher index, or same index and smaller value"; the result is published on every path; the recorded '
              'value is the holder the objective wrote for the same item and slot (also when a second routine of the search path '
              'calls the objective directly: it evaluates at the point of the item whose holder it fills); holders are owned per item; '
              'only the evaluation routine and the (coherent) local refinement write trial fields; the point object of '
              'every search item is allocated by the library for that item (never a caller-supplied or shared object); outside constructors only the optimum updater '
              'stores into the best-trial slot of the Solution (the solving path; state-restoring entry points are '
              'outside it); where state-saving / state-restoring routines exist and exchange the trial record through '
              'string keys that can be read from the code, every field is restored from the key that was filled from '
              'that field (writer / reader agreement; other storage designs are left out and counted); the coordinate array of '
              'an item point is not storage the evolvent keeps.')
EXPLANATION = ('Event traces of the iteration driver (seeding routine inlined) pair EVAL(p) with UPDATE_OPT(p); the '
               'optimum updater is checked path by path against the truth table of the three-way predicate over '
               'all worlds compatible with the path guards; wiring of point/holder/slot through the task wrapper '
               'is compared symbolically; ownership and who-may-write come from the points-to relation.')
TRUSTED = ['CPython ast', 'iva engine']


def _roles(ctx, rid, *names):
    roles = C.roles_of(ctx)
    out = []
    for n in names:
        try:
            out.append(getattr(roles, n))
        except RoleMissing as e:
            ctx.fail(rid, f'role {e.role}', 'iOpt/', str(e), key=f'{rid}::role::{e.role}')
            return None
    return out


def driver_explorer(ctx: Ctx, opaque):
    """Explorer of the iteration driver that inlines whatever leads to the evaluation routine."""
    roles = C.roles_of(ctx)
    er = roles.eval_routine
    opq = {roles.fq(f) for f in opaque}
    lst = roles.listener_methods()

    def inl(f: FuncInfo, st) -> bool:
        q = roles.fq(f)
        if q in opq or q in lst:
            return False
        return roles.fq(er) in roles.reach(f) or roles.is_glue(f)
    return ctx.explorer(inline=inl, max_paths=20000)


def r04_1(ctx: Ctx):
    rid = 'R04.1'
    ctx.rule(rid, 'every evaluation EVAL(p) is followed, before any notification or return, by UPDATE_OPT(p) for '
                  'the same p')
    got = _roles(ctx, rid, 'iter_driver', 'eval_routine', 'optimum_updater')
    if got is None:
        return
    drv, er, up = got
    roles = C.roles_of(ctx)
    lst = roles.listener_methods()
    ex = driver_explorer(ctx, [er, up])
    n = 0
    for p in C.normal_paths(ex.explore(drv)):
        evs = p.events
        for i, e in enumerate(evs):
            if e.kind == 'call' and er in e.d['callees'] and not e.d.get('inlined'):
                n += 1
                item = e.d['args'][0] if e.d['args'] else None
                ok = False
                why = 'the path ends without updating the optimum'
                for e2 in evs[i + 1:]:
                    if e2.kind != 'call':
                        continue
                    if up in e2.d['callees']:
                        a = e2.d['args'][0] if e2.d['args'] else None
                        # the evaluation routine returns its argument; both names denote the evaluated item
                        same = a is not None and item is not None and \
                            (key_of(a) == key_of(item) or key_of(a) == key_of(e.d['result']))
                        ok = same
                        why = 'the optimum is updated with a different item than the one just evaluated'
                        break
                    if any(isinstance(c, FuncInfo) and roles.fq(c) in lst for c in e2.d['callees']):
                        why = 'listeners are notified before the optimum is updated with the new trial'
                        break
                    if er in e2.d['callees']:
                        why = 'a second evaluation happens before the optimum is updated with the first'
                        break
                ctx.check(ok, rid, e.func.short, e.loc(), 'EVAL(p) is followed by UPDATE_OPT(p) before any notification',
                          f'after an evaluation {why}', key=f'{rid}::{e.func.short}::eval-then-update',
                          detail={'path': p.describe(60)})
    ctx.floor(rid, 'evaluation sites on paths of the iteration driver', n, 2)


def worlds_ok(action_rebind: bool, n_known, idx_signs, z_signs):
    """All worlds compatible with a path must allow its action."""
    n_vals = [n_known] if n_known is not None else [True, False]
    for nv in n_vals:
        if nv:
            if not action_rebind:
                return False, 'no optimum yet but the trial is not taken'
            continue
        for s in idx_signs:
            if s == 'neg':          # idx_best < idx_point
                if not action_rebind:
                    return False, 'the new trial satisfies more constraints (higher index) but is not taken'
            elif s == 'pos':
                if action_rebind:
                    return False, 'the new trial has a lower index than the current optimum but replaces it'
            else:
                for zs in z_signs:
                    if zs == 'neg' and not action_rebind:
                        return False, 'same index and a smaller value, but the trial is not taken'
                    if zs == 'pos' and action_rebind:
                        return False, 'same index and a larger value, but the trial replaces the optimum'
    return True, ''


def r04_2_3(ctx: Ctx):
    rid = 'R04.2'
    ctx.rule(rid, 'update predicate: best := point exactly when (no best yet) or (idx_best < idx_point) or '
                  '(idx_best = idx_point and z_point < z_best); <= accepted; z* table follows')
    ctx.rule('R04.3', 'publication: solution.bestTrials[0] := best on every normal path of the updater')
    got = _roles(ctx, rid, 'optimum_updater')
    if got is None:
        return
    up, = got
    from .c02 import z_field
    ex = ctx.explorer()
    item = ctx.ix.cls('SearchDataItem')
    selfv, pt = var(up.param_names[0]), var(up.param_names[1])
    best0 = attr(selfv, 'best')
    gI, gZ = item.lookup('GetIndex'), item.lookup('GetZ')
    ib, ip = C.getter_value(ex, gI, best0), C.getter_value(ex, gI, pt)
    zb, zp = C.getter_value(ex, gZ, best0), C.getter_value(ex, gZ, pt)
    Zf = z_field(ctx)
    n = 0
    for p in C.normal_paths(ex.explore(up)):
        n += 1
        lits = p.guards
        nlit = Lit('isnone', key=key_of(best0), pol=True)
        n_known = True if C.has_lit(lits, nlit) else (False if C.has_lit(lits, nlit.negate()) else None)
        idx_signs = C.sign_set(lits, ib - ip)
        z_signs = C.sign_set(lits, zp - zb)
        sts = C.stores_to(p, base=selfv, field='best', tkind='attr')
        loc = up.loc(sts[-1].node) if sts else up.loc()
        if sts and key_of(sts[-1].d['value']) != key_of(pt):
            ctx.fail(rid, up.short, loc, f'the optimum is rebound to {C.fmt(sts[-1].d["value"])}, not to the new trial',
                     key=ctx.key_for(rid, up, sts[-1].node))
            continue
        rebind = bool(sts)
        ok, why = worlds_ok(rebind, n_known, idx_signs, z_signs)
        ctx.check(ok, rid, up.short, loc,
                  f'path (best is None: {n_known}, idx_best-idx_point in {sorted(idx_signs)}, z_point-z_best in '
                  f'{sorted(z_signs)}) {"takes" if rebind else "keeps"} as the predicate demands',
                  f'optimum update predicate is wrong: {why} (guards: {[repr(l) for l in lits]})',
                  key=f'{rid}::{up.short}::predicate::{"take" if rebind else "keep"}',
                  detail={'guards': [repr(l) for l in lits]})
        if rebind:
            zt = [s for s in C.stores_to(p, tkind='sub') if key_of(s.d['base']) == key_of(attr(selfv, Zf))]
            okz = bool(zt) and isinstance(zt[-1].d['value'], RF) and zt[-1].d['value'].equals(zp) and \
                isinstance(zt[-1].d['field'], RF) and zt[-1].d['field'].equals(ip)
            ctx.check(okz, rid, up.short, loc, 'z* of the trial\'s index is set to the trial\'s value on every take',
                      'the best-value table z* is not set to the new optimum value when the optimum changes',
                      key=f'{rid}::{up.short}::zstar')
        # R04.3 publication
        sol_bt = attr(attr(attr(selfv, 'searchData'), 'solution'), 'bestTrials')
        pubs = [s for s in C.stores_to(p, tkind='sub') if key_of(s.d['base']) == key_of(sol_bt)]
        final_best = p.state.heap.get((key_of(selfv), 'best'), best0)
        okp = bool(pubs) and isinstance(pubs[-1].d['field'], RF) and pubs[-1].d['field'].const_value() == 0 and \
            key_of(pubs[-1].d['value']) == key_of(final_best) and \
            (not sts or p.events.index(pubs[-1]) > p.events.index(sts[-1]))
        ctx.check(okp, 'R04.3', up.short, up.loc(pubs[-1].node) if pubs else up.loc(),
                  'the current optimum is published in solution.bestTrials[0] on this path',
                  'a path of the optimum updater leaves solution.bestTrials[0] without the current optimum '
                  '(GetResults() inside callbacks would be stale)', key=f'R04.3::{up.short}::publish')
    ctx.floor(rid, 'normal paths of the optimum updater', n, 3)


def identity_perm(ctx: Ctx, tw: FuncInfo) -> dict:
    """Solver builds the task wrapper with the identity permutation: perm[c] == c."""
    cls = tw.cls
    init = cls.lookup('__init__') if cls else None
    if init is None:
        return {}
    ex = ctx.explorer()
    ident = False
    for p in C.normal_paths(ex.explore(init)):
        for s in p.stores():
            if s.d['tkind'] == 'sub' and isinstance(s.d['field'], RF) and isinstance(s.d['value'], RF) and \
                    s.d['field'].equals(s.d['value']):
                a = s.d['field'].single_atom()
                if isinstance(a, tuple) and a[0] == 'iter':
                    ident = True
            # self.perm = np.arange(n[, dtype=int]): 0, 1, ..., n-1
            if s.d['tkind'] == 'attr' and s.d['field'] == 'perm' and isinstance(s.d['value'], RF):
                va = s.d['value'].single_atom()
                if isinstance(va, tuple) and va and va[0] == 'call' and isinstance(va[1], str) and \
                        va[1].split('.')[-1] == 'arange' and len([x for x in va[2] if not (isinstance(x, tuple) and
                                                                                          len(x) == 2 and x[0] == 'dtype')]) == 1:
                    ident = True
            # perm[:] = np.arange(n): the whole vector is 0, 1, ..., n-1
            if s.d['tkind'] == 'sub' and isinstance(s.d['value'], RF):
                fk = key_of(s.d['field']) if isinstance(s.d['field'], RF) else s.d['field']
                va = s.d['value'].single_atom()
                none = ('const', 'None')
                if isinstance(fk, tuple) and len(fk) == 4 and fk[0] == 'slice' and fk[1] == none and fk[2] == none \
                        and fk[3] == none and isinstance(va, tuple) and va and va[0] == 'call' and \
                        isinstance(va[1], str) and va[1].split('.')[-1] == 'arange' and len(va[2]) == 1:
                    ident = True
    if not ident:
        return {}
    # the Solver relies on that branch: it passes no permutation
    sinit = ctx.ix.func('Solver.__init__')
    for p in C.normal_paths(ex.explore(sinit)):
        for ne in C.new_events(p, cls.name):
            if len(ne.d['args']) > 1 or 'perm' in ne.d['kwargs']:
                return {}
    return {'identity': True}


def r04_4(ctx: Ctx):
    rid = 'R04.4'
    ctx.rule(rid, 'value/point coherence: the objective is called with the item\'s own point and its own holder in '
                  'slot k; the result is stored back into slot k; the recorded z is .value of slot k')
    got = _roles(ctx, rid, 'eval_routine', 'task_wrapper')
    if got is None:
        return
    er, tw = got
    roles = C.roles_of(ctx)
    pcs = roles.problem_calcs
    ex = ctx.explorer(inline=lambda f, st: roles.in_tw(f))
    item = var(er.param_names[1])
    ident = identity_perm(ctx, tw)
    setz = ctx.ix.cls('SearchDataItem').lookup('SetZ')
    ctx.check(bool(ident), rid, tw.short, tw.loc(), 'the task wrapper uses the identity permutation of functions',
              'the function permutation of the task wrapper is not provably the identity: the slot written by the '
              'objective and the slot read back may differ', key=f'{rid}::{tw.short}::identity-perm')

    def slot_norm(v):
        if isinstance(v, RF):
            a = v.single_atom()
            if isinstance(a, tuple) and a and a[0] == 'sub':
                base = a[1]
                if isinstance(base, tuple) and base and base[0] == 'attr' and base[2] == 'perm' and ident:
                    return C.rf_from_key(a[2])
        return v
    fv = attr(item, 'functionValues')
    n = 0
    for p in C.normal_paths(ex.explore(er)):
        calls = C.call_events(p, among=pcs)
        if len(calls) != 1:
            # a path that records a value without (exactly) one evaluation of the objective for this item: the
            # recorded value is then not the objective at the recorded point
            zrec = [e for e in p.events if (e.kind == 'store' and e.d['tkind'] == 'attr' and
                                            e.d['field'] in ('_SearchDataItem__z', 'value')) or
                    (e.kind == 'call' and setz in e.d['callees'])]
            if zrec or not calls:
                ctx.fail(rid, er.short, er.loc(zrec[-1].node) if zrec else er.loc(),
                         f'a path of the evaluation routine records a trial value with {len(calls)} evaluations of the '
                         f'objective (guards: {[repr(g) for g in p.guards][:3]}): the value recorded for that trial '
                         f'is not the objective evaluated at its own point',
                         key=f'{rid}::{er.short}::value-without-evaluation')
            continue
        n += 1
        c = calls[0]
        a = c.d['args']
        loc = c.loc()
        ok_pt = len(a) >= 1 and isinstance(a[0], RF) and a[0].equals(attr(item, 'point'))
        ctx.check(ok_pt, rid, c.func.short, loc, 'the objective receives the item\'s own point',
                  f'the objective is evaluated at {C.fmt(a[0]) if a else "?"}, not at the point of the item being '
                  f'evaluated', key=f'{rid}::{c.func.short}::own-point')
        slot = None
        ok_h = False
        if len(a) >= 2 and isinstance(a[1], RF):
            ha = a[1].single_atom()
            if isinstance(ha, tuple) and ha[0] == 'sub' and ha[1] == key_of(fv):
                slot = slot_norm(C.rf_from_key(ha[2]))
                ok_h = True
        ctx.check(ok_h, rid, c.func.short, loc, 'the objective receives a holder of the item\'s own value list',
                  'the holder passed to the objective is not an element of the evaluated item\'s functionValues',
                  key=f'{rid}::{c.func.short}::own-holder')
        # result stored back in the same slot
        sts = [s for s in C.stores_to(p, tkind='sub') if key_of(s.d['base']) == key_of(fv)]
        ok_s = False
        result_dropped = False
        if sts and slot is not None:
            s = sts[-1]
            ok_s = key_of(s.d['value']) == key_of(c.d['result']) and isinstance(slot_norm(s.d['field']), RF) and \
                slot_norm(s.d['field']).equals(slot)
        elif not sts and ok_h:
            # nothing is stored back: acceptable only if the recorded value is read from the *returned* holder
            ok_s = True
            result_dropped = True
        ctx.check(ok_s, rid, c.func.short, loc, 'the returned holder is stored in the slot it was taken from',
                  'the holder returned by the objective is stored in a different slot than the one passed in',
                  key=f'{rid}::{c.func.short}::same-slot')
        # recorded z
        zs = [e for e in p.events if e.kind == 'store' and e.d['tkind'] == 'attr' and e.d['field'] == '_SearchDataItem__z']
        if not zs:
            zs = [e for e in p.events if e.kind == 'call' and setz in e.d['callees']]
        ok_z = False
        if zs and slot is not None:
            zv = zs[-1].d['value'] if zs[-1].kind == 'store' else (zs[-1].d['args'][0] if zs[-1].d['args'] else None)
            if isinstance(zv, RF):
                za = zv.single_atom()
                if isinstance(za, tuple) and za[0] == 'attr' and za[2] == 'value':
                    h = za[1]
                    if isinstance(h, tuple) and h[0] == 'sub' and h[1] == key_of(fv):
                        # read from the slot: it holds the objective's result only if the result was stored there
                        ok_z = slot_norm(C.rf_from_key(h[2])).equals(slot) and not result_dropped
                    elif h == key_of(c.d['result']):
                        ok_z = True
            ok_z = ok_z and p.events.index(zs[-1]) > p.events.index(c) and \
                key_of(zs[-1].d['base'] if zs[-1].kind == 'store' else zs[-1].d['recv']) in \
                (key_of(item), key_of(c.d['result']))
        ctx.check(ok_z, rid, er.short, er.loc(zs[-1].node) if zs else er.loc(),
                  'the recorded value z is .value of the slot the objective wrote, set after the call',
                  'the value recorded for the trial is not read from the holder the objective returned: '
                  + ('the result of Problem.Calculate is discarded and the value is read from the holder that was '
                     'passed in, which an objective returning a new holder never fills'
                     if result_dropped else 'it is not the slot the objective wrote, or it is recorded before the call'),
                  key=f'{rid}::{er.short}::z-from-slot')
    ctx.floor(rid, 'paths of the evaluation routine with one objective call', n, 1)


def r04_5(ctx: Ctx):
    rid = 'R04.5'
    ctx.rule(rid, 'holder ownership: no search item\'s value list or holder is a process-wide singleton '
                  '(default-argument / module / class object)')
    pta = ctx.pta
    item = ctx.ix.cls('SearchDataItem')
    n = 0
    for o in list(pta._objs.values()):
        if o.kind == 'inst' and o.cls is not None and o.cls.is_subclass_of(item):
            n += 1
            lists = pta.read_field(o, 'functionValues')
            holders = set()
            for l in lists:
                holders |= pta.elems(l, None, False)
            bad = [x for x in (lists | holders) if x.is_singleton_scope and x.kind not in ('cls', 'func', 'module')]
            ctx.check(not bad, rid, f'item allocated at {o.site}', o.site.rsplit(':', 1)[0],
                      'value list and holders are per-item objects',
                      f'the item\'s value list/holder is a process-wide singleton: '
                      f'{[b.describe() for b in bad[:2]]}: values of different trials overwrite each other',
                      key=f'{rid}::{o.site.split(":")[0]}::shared-holder::{bad[0].site if bad else ""}')
    ctx.floor(rid, 'SearchDataItem allocation sites', n, 2)


def evaluated_at(ctx: Ctx, p, value):
    """The coordinates at which the objective was evaluated to produce `value` on path p: the argument of the
    (opaque) probing routine, or - when that routine is inlined - the coordinates of the fresh Point handed to
    Problem.Calculate whose holder's .value this is."""
    ce = C.call_event_of_result(p, value)
    if ce is not None and ce.d['args']:
        return ce.d['args'][0]
    va = value.single_atom() if isinstance(value, RF) else None
    if isinstance(va, tuple) and len(va) == 4 and va[0] == 'attr' and va[2] == 'value':
        roles = C.roles_of(ctx)
        pcs = roles.problem_calcs
        for e in p.events:
            if e.kind == 'call' and not e.d.get('inlined') and any(c in e.d['callees'] for c in pcs):
                a0, a1 = C.arg(e, 0, 'point'), C.arg(e, 1, 'functionValue')
                if va[1] in (key_of(e.d['result']), key_of(a1) if a1 is not None else None):
                    ne = C.new_event_of(p, a0) if a0 is not None else None
                    if ne is not None:
                        return C.arg(ne, 0, 'floatVariables')
    return None


TRIAL_FIELDS = {'point', 'floatVariables', 'discreteVariables', 'value', 'functionValues',
                '_SearchDataItem__z', '_SearchDataItem__index', '_SearchDataItem__x'}


def r04_6(ctx: Ctx):
    rid = 'R04.6'
    ctx.rule(rid, 'who may write trial fields after construction: the evaluation routine (through the task wrapper, '
                  'the objective and the item setters) and the local refinement, which rewrites point and value '
                  'together')
    got = _roles(ctx, rid, 'eval_routine', 'task_wrapper', 'refine_driver')
    if got is None:
        return
    er, tw, rf = got
    roles = C.roles_of(ctx)
    pcs = {roles.fq(p) for p in roles.problem_calcs}
    classes = [ctx.ix.cls(n) for n in ('Trial', 'Point', 'FunctionValue')]
    item = ctx.ix.cls('SearchDataItem')
    setters = {roles.fq(item.lookup(n)) for n in ('SetZ', 'SetIndex') if item.lookup(n)}
    allowed = {roles.fq(er), roles.fq(tw), roles.fq(rf)} | pcs | setters
    allowed |= {roles.fq(h) for h in roles.helpers_of(tw)}       # private helpers the task wrapper was split into
    n = 0
    trial_containers = set()
    for o in list(ctx.pta._objs.values()):
        if o.cls is not None and o.kind == 'inst' and any(o.cls.is_subclass_of(c) for c in classes + [item]) and \
                o.site.startswith(('iOpt/method', 'iOpt/solver', 'iOpt/solution')):
            for fld in ('functionValues', 'floatVariables'):
                trial_containers |= {x for x in ctx.pta.read_field(o, fld) if x.kind in ('list', 'ndarray')}
    for m in roles.mutations():
        if m.init_self:
            continue
        q = roles.fq(m.func)
        in_lib = m.func.module.name.startswith(('iOpt.method', 'iOpt.solver', 'iOpt.output_system', 'iOpt.solution',
                                                'iOpt.trial'))
        if not in_lib:
            continue
        hit = False
        if m.kind in ('attr', 'aug') and m.field in TRIAL_FIELDS:
            hit = any(o.cls is not None and any(o.cls.is_subclass_of(c) for c in classes) for o in m.bases)
        elif m.kind in ('sub', 'mutcall', 'aug', 'del', 'inplace') and isinstance(m.base_expr, ast.Attribute) and \
                m.base_expr.attr in ('functionValues', 'floatVariables'):
            objs = ctx.pta.expr_pts(m.func, m.base_expr.value)
            hit = any(o.cls is not None and any(o.cls.is_subclass_of(c) for c in classes) for o in objs)
        elif m.kind in ('sub', 'mutcall', 'aug', 'del', 'inplace') and isinstance(m.base_expr, ast.Name):
            # through a local alias of a trial's value list / coordinate array
            hit = bool(set(m.bases) & trial_containers)
        if not hit:
            continue
        n += 1
        ctx.check(q in allowed, rid, m.func.short, m.loc(), f'writer of a trial field is an allowed routine: {m.text()[:60]}',
                  f'a trial field is written outside the evaluation routine and the local refinement: {m.text()}',
                  key=ctx.key_for(rid, m.func, m.node))
    ctx.floor(rid, 'write sites of trial fields in the library', n, 3)
    # setters are conduits: called only from the evaluation routine
    for sq in setters:
        for (caller, _nid) in ctx.pta.callers.get(sq, ()):
            if caller not in allowed:
                f = ctx.ix.funcs.get(caller)
                ctx.fail(rid, f.short if f else caller, f.loc() if f else '',
                         f'{sq.split(":")[1]} is called outside the evaluation routine: the recorded value of a trial '
                         f'can change after it was evaluated', key=f'{rid}::{caller}::calls::{sq.split(":")[1]}')
    r04_8(ctx)
    # the local refinement rewrites point and value together
    ex = ctx.explorer()
    n2 = 0
    for p in C.normal_paths(ex.explore(rf)):
        def on_existing(s) -> bool:
            # stores into objects created on this very path (constructors of the probe's Point / holder, inlined)
            # do not rewrite a trial
            b = s.d['base'].single_atom() if isinstance(s.d['base'], RF) else None
            return not (isinstance(b, tuple) and b and b[0] == 'fresh')
        pts = [s for s in p.stores() if s.d['tkind'] == 'attr' and s.d['field'] == 'floatVariables' and on_existing(s)]
        vals = [s for s in p.stores() if s.d['tkind'] == 'attr' and s.d['field'] == 'value' and on_existing(s)]
        if not pts and not vals:
            continue
        n2 += 1
        ok = len(pts) == 1 and len(vals) == 1
        if ok:
            at = evaluated_at(ctx, p, vals[0].d['value'])
            ok = at is not None and key_of(at) == key_of(pts[0].d['value']) and \
                p.events.index(pts[0]) < p.events.index(vals[0])
            # same trial: the holder belongs to the trial whose point is rewritten
            if ok:
                pb = pts[0].d['base'].single_atom()       # <trial>.point
                hb = vals[0].d['base'].single_atom()      # <trial>.functionValues[k]
                trial_p = pb[1] if isinstance(pb, tuple) and pb[0] == 'attr' and pb[2] == 'point' else None
                trial_v = None
                if isinstance(hb, tuple) and hb[0] == 'sub' and isinstance(hb[1], tuple) and hb[1][0] == 'attr' \
                        and hb[1][2] == 'functionValues':
                    trial_v = hb[1][1]
                ok = trial_p is not None and C.strip_versions(trial_p) == C.strip_versions(trial_v)
        ctx.check(ok, rid, rf.short, rf.loc(vals[0].node) if vals else rf.loc(),
                  'the refinement stores the objective at the very point it stores, for the same trial',
                  'the local refinement does not rewrite point and value coherently (value must be the objective '
                  'at the stored point of the same trial)', key=f'{rid}::{rf.short}::coherent-rewrite')
    ctx.floor(rid, 'rewriting paths of the local refinement', n2, 1, explained_by=('R04.8',))


def r04_8(ctx: Ctx):
    """The record (Method.best) and the published optimum (the best-trial slot of the Solution) are two names of
    one object, kept so by the optimum updater (R04.3).  Whoever else stores into the slot publishes something the
    record does not know: the next update compares against the old record and overwrites the slot with a worse
    trial (or the slot keeps a trial that was never the record)."""
    rid = 'R04.8'
    ctx.rule(rid, 'who may publish: outside constructors only the optimum updater stores into the best-trial slot of '
                  'the Solution (element store or re-binding of the list); improvements found elsewhere are written '
                  'into the published trial itself (R04.6)')
    roles = C.roles_of(ctx)
    try:
        up = roles.optimum_updater
    except RoleMissing as e:
        ctx.fail(rid, f'role {e.role}', 'iOpt/', str(e), key=f'{rid}::role::{e.role}')
        return
    sol = ctx.ix.cls('Solution')
    slots = set()
    for o in ctx.pta._objs.values():
        if o.cls is not None and o.cls.is_subclass_of(sol) and o.kind in ('inst', 'ext_inst'):
            slots |= {x for x in ctx.pta.read_field(o, 'bestTrials') if x.kind in ('list', 'ndarray', 'tuple')}
    n = 0
    for m in roles.mutations():
        if m.init_self or not m.func.module.name.startswith('iOpt.'):
            continue
        hit = False
        if m.kind in ('attr', 'aug') and m.field == 'bestTrials':
            hit = any(o.cls is not None and o.cls.is_subclass_of(sol) for o in m.bases)
        elif m.kind in ('sub', 'mutcall', 'del', 'inplace', 'aug') and set(m.bases) & slots:
            hit = True
        if not hit:
            continue
        n += 1
        ctx.check(roles.lift(m.func) is up, rid, m.func.short, m.loc(),
                  f'the best-trial slot is written by the optimum updater: {m.text()[:60]}',
                  f'{m.func.short} stores into the best-trial slot of the Solution ({m.text()[:70]}) although it is '
                  f'not the optimum updater: the record Method.best does not follow, so the next update of the '
                  f'optimum compares against the old record and replaces the published trial by a worse one',
                  key=ctx.key_for(rid, m.func, m.node))
    ctx.floor(rid, 'stores into the best-trial slot outside constructors', n, 1)


def r04_7(ctx: Ctx):
    rid = 'R04.7'
    ctx.rule(rid, 'point ownership: the point object of every search item the library creates is allocated by the '
                  'library for that item (never a caller-supplied / default / module object), because the library '
                  'rewrites trial points in place (local refinement) and the recorded value must stay the objective '
                  'at the recorded point')
    pta = ctx.pta
    item = ctx.ix.cls('SearchDataItem')
    pcls = ctx.ix.cls('Point')
    roles = C.roles_of(ctx)
    # objects the library writes through as a trial point (attribute store .floatVariables / element stores)
    written = set()
    wsites = []
    for m in roles.mutations():
        if m.init_self or not m.func.module.name.startswith(('iOpt.method', 'iOpt.solver')):
            continue
        if m.kind in ('attr', 'aug') and m.field in ('floatVariables', 'discreteVariables'):
            written |= {o for o in m.bases}
            wsites.append(m.loc())
        elif m.kind in ('sub', 'mutcall', 'aug', 'del', 'inplace') and isinstance(m.base_expr, ast.Attribute) and \
                m.base_expr.attr in ('floatVariables', 'discreteVariables'):
            written |= set(ctx.pta.expr_pts(m.func, m.base_expr.value))
            wsites.append(m.loc())
    n = 0
    for o in list(pta._objs.values()):
        if o.kind != 'inst' or o.cls is None or not o.cls.is_subclass_of(item):
            continue
        if not o.site.startswith(('iOpt/method', 'iOpt/solver')):
            continue
        n += 1
        pts = pta.read_field(o, 'point')
        foreign = [x for x in pts if x.kind in ('ext_inst', 'param', 'field') or x.scope in ('external',) or
                   x.is_singleton_scope]
        hazard = [x for x in foreign if x in written or any(w.kind == 'ext_inst' and w.cls is pcls for w in written)]
        ctx.check(not hazard, rid, f'item allocated at {o.site}', o.site.rsplit(':', 1)[0],
                  'the item\'s point is an object allocated by the library for this item',
                  f'the point of a search item is a caller-supplied / shared object ({[x.describe() for x in hazard[:2]]}) '
                  f'and the library rewrites trial points in place at {sorted(set(wsites))[:3]}: the caller\'s object '
                  f'(and every other trial or solver using it) changes with it, so a reported value no longer is the '
                  f'objective at the reported point',
                  key=f'{rid}::{o.site.split(":")[0]}::foreign-point::{hazard[0].site if hazard else ""}')
    ctx.floor(rid, 'search items created by the library', n, 1)
    # the coordinate array of an item's point is the item's own: not an array the evolvent keeps as its working
    # storage (a later query of the evolvent would rewrite the recorded point of an evaluated trial)
    evc = ctx.ix.find_cls('Evolvent')
    if evc is not None:
        kept = set()
        for o in list(pta._objs.values()):
            if o.kind in ('inst', 'ext_inst') and o.cls is not None and o.cls.is_subclass_of(evc):
                for k, v in pta.pts.items():
                    if k[0] == 'F' and k[1] is o:
                        kept |= {x for x in v if x.kind in ('ndarray', 'list')}
        for o in list(pta._objs.values()):
            if o.kind != 'inst' or o.cls is None or not o.cls.is_subclass_of(item) or \
                    not o.site.startswith(('iOpt/method', 'iOpt/solver')):
                continue
            arrs = set()
            for pt in pta.read_field(o, 'point'):
                arrs |= {x for x in pta.read_field(pt, 'floatVariables') if x.kind in ('ndarray', 'list')}
            shared = sorted(arrs & kept, key=lambda x: x.describe())
            ctx.check(not shared, rid, f'item allocated at {o.site}', o.site.rsplit(':', 1)[0],
                      'the coordinate array of the item\'s point is not storage of the evolvent',
                      f'the coordinate array of a search item\'s point is an array the evolvent keeps '
                      f'({shared[0].describe() if shared else ""}): the next query of the evolvent (an inverse image asked '
                      f'by a listener, the next trial) rewrites the recorded point of an evaluated trial, so a reported '
                      f'value no longer is the objective at the reported point',
                      key=f'{rid}::{o.site.split(":")[0]}::point-is-evolvent-storage')


def r04_9(ctx: Ctx):
    """A restored best trial reports the value it had: the state-restoring routines give every field of the trial
    record back from the key the saving routine filled from that field (iva/rules/persist.py)."""
    from . import persist
    persist.rule_restore_agreement(ctx, 'R04.9')


def r04_direct_evaluators(ctx: Ctx, cands):
    """More than one routine of the search path calls Problem.Calculate.  Whatever else that means (the counters:
    C03), the reported value equals the objective at the reported point only if each such call evaluates at the point
    of the very item in whose holder it records the value."""
    rid = 'R04.4'
    roles = C.roles_of(ctx)
    pcs = {roles.fq(x) for x in roles.problem_calcs}
    n = 0
    for c in cands:
        for p in C.normal_paths(ctx.explorer(raw=True, unroll=1, max_paths=4000).explore(c)):
            for ev in p.events:
                if ev.kind != 'call' or ev.func is not c or \
                        not any(isinstance(x, FuncInfo) and roles.fq(x) in pcs for x in ev.d['callees']):
                    continue
                n += 1
                args = list(ev.d['args'])
                if len(args) < 2 or not all(isinstance(a, RF) for a in args[:2]):
                    raise AnalysisError(f'{rid}: the arguments of the evaluation in {c.short} cannot be read')
                pt, holder = args[0], args[1]
                ha = holder.single_atom()
                # holder = <item>.functionValues[k]
                item_k = None
                if isinstance(ha, tuple) and ha[0] == 'sub' and isinstance(ha[1], tuple) and ha[1][0] == 'attr' and \
                        ha[1][2] == 'functionValues':
                    item_k = ha[1][1]
                pa = pt.single_atom()
                ok = item_k is not None and isinstance(pa, tuple) and pa[0] == 'attr' and pa[2] == 'point' and \
                    C.strip_versions(pa[1]) == C.strip_versions(item_k)
                if not ok and item_k is not None:
                    # the item's point may be held under another name on the path: compare with the heap
                    stored = p.state.heap.get((item_k, 'point'))
                    ok = stored is not None and key_of(stored) == key_of(pt)
                ctx.check(ok, rid, c.short, c.loc(ev.node),
                          'the objective is evaluated at the point of the item whose holder receives the value',
                          f'{c.short} evaluates the objective at {C.fmt(pt)[:60]} and records the value in '
                          f'{C.fmt(holder)[:60]}: the holder belongs to an item whose point is a different object, so the '
                          f'recorded value is not the objective at the recorded point',
                          key=f'{rid}::{c.short}::evaluates-elsewhere')
    ctx.floor(rid, 'direct evaluation calls of the search path', n, 2)


def check(ctx: Ctx):
    cands = C.roles_of(ctx).task_wrapper_candidates()
    if len(cands) > 1:
        ctx.rule('R04.4', 'several routines of the search path call Problem.Calculate: each evaluates at the point of the '
                          'item in whose holder it records the value')
        r04_direct_evaluators(ctx, cands)
    for rid, fn in (('R04.1', r04_1), ('R04.2', r04_2_3), ('R04.4', r04_4), ('R04.5', r04_5), ('R04.6', r04_6),
                    ('R04.7', r04_7)):
        if C.want(ctx, rid) or (rid == 'R04.2' and C.want(ctx, 'R04.3')):
            fn(ctx)
    if C.want(ctx, 'R04.9'):
        r04_9(ctx)
    ctx.assume('Problem.Calculate returns the holder it was given with the value stored in it (decided under C15)')
