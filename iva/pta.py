"""E3 - field-based inclusion (Andersen-style) points-to analysis with an
on-the-fly call graph, plus the mutation-site table used by the effect rules.

Flow- and context-insensitive, allocation-site heap abstraction:
  * one object per allocation site (constructor call, display, copy, numpy
    allocation, arithmetic result, external call result);
  * one object I(C) per repository class for instances supplied from outside;
  * one object P(f, p) per parameter for unknown values supplied from outside,
    with lazily materialised fields;
  * allocation sites inside parameter defaults / module bodies / class bodies
    are process-wide singletons and carry scope 'default' / 'module' / 'class'.
Lists and tuples are index-sensitive for constant non-negative indices.
"""
from __future__ import annotations

import ast
import os
from typing import Dict, Iterable, List, Optional, Set, Tuple

from .index import AnalysisError, ClassInfo, FuncInfo, Index, ModuleInfo, mangle

# ----------------------------------------------------------------------------
# abstract objects
# ----------------------------------------------------------------------------


class Obj:
    """Interned abstract object: identity is object identity (see PTA._mk)."""
    __slots__ = ('kind', 'site', 'cls', 'scope', 'owner', 'extra', 'uid')

    def __init__(self, kind, site, cls=None, scope='func', owner=None, extra=None, uid=0):
        self.kind = kind        # inst ext_inst list tuple dict set ndarray ext arith param field bm cls func
        #                         module extmod extmeth builtin
        self.site = site        # 'file:line:col[:tag]' or a descriptive string
        self.cls = cls          # ClassInfo for inst/ext_inst/clone-of-inst
        self.scope = scope      # func | default | module | class | external
        self.owner = owner      # qualname of the code unit holding the allocation site
        self.extra = extra
        self.uid = uid

    def __repr__(self):
        c = f':{self.cls.name}' if self.cls else ''
        return f'<{self.kind}{c}@{self.site}>'

    @property
    def is_singleton_scope(self):
        return self.scope in ('default', 'module', 'class', 'memo')

    @property
    def is_clone(self):
        return bool(self.extra) and self.extra[0] == 'clone'

    def describe(self) -> str:
        c = f' {self.cls.name}' if self.cls else ''
        return f'{self.kind}{c} allocated at {self.site} (scope {self.scope})'


CONTAINER_KINDS = ('list', 'tuple', 'dict', 'set')
ARRAYISH_KINDS = ('ndarray', 'ext', 'param', 'field', 'arith', 'clone_ext')

LIST_MUTATORS = {'append', 'extend', 'insert', 'pop', 'remove', 'clear', 'sort', 'reverse', 'update', 'fill',
                 'put', 'resize', 'itemset', 'setdefault', 'popitem', 'add', 'discard', 'setflags',
                 'partition', 'appendleft', 'popleft', 'difference_update', 'intersection_update',
                 'symmetric_difference_update'}
STORING_MUTATORS = {'append', 'extend', 'insert', 'update', 'add', 'setdefault', 'appendleft', 'fill', 'put'}
PURE_METHODS = {'copy', 'reshape', 'ravel', 'flatten', 'tolist', 'min', 'max', 'sum', 'mean', 'astype', 'index',
                'count', 'get', 'keys', 'values', 'items', 'format', 'join', 'split', 'strip', 'total_seconds',
                'startswith', 'endswith', 'lower', 'upper', 'replace', 'all', 'any', 'dot', 'argmin', 'argmax',
                'transpose', 'squeeze', 'item', 'round', 'std', 'var', 'cumsum', 'prod', 'view', 'isdigit',
                'encode', 'decode', 'is_empty', 'conjugate', 'nonzero', 'clip', 'repeat', 'take', 'swapaxes',
                'rstrip', 'lstrip', 'title', 'find', 'zfill', 'ljust', 'rjust', 'center', 'bit_length'}
ALIAS_METHODS = {'reshape', 'ravel', 'transpose', 'squeeze', 'view', 'swapaxes'}      # may return a view
COPY_METHODS = {'copy', 'flatten', 'astype', 'tolist'}
ALIAS_ATTRS = {'T', 'flat', 'real', 'imag', 'base'}

# external functions: canonical dotted name -> behaviour
EXT_SHALLOW_COPY = {'numpy.copy', 'numpy.array', 'copy.copy', 'builtins.list', 'builtins.tuple',
                    'builtins.sorted', 'builtins.set', 'builtins.dict', 'builtins.frozenset',
                    'builtins.reversed', 'numpy.sort', 'numpy.flip'}
EXT_ALIAS = {'numpy.asarray', 'numpy.ravel', 'numpy.reshape', 'numpy.transpose', 'numpy.squeeze',
             'numpy.atleast_1d', 'numpy.atleast_2d', 'numpy.asanyarray', 'numpy.ascontiguousarray',
             'builtins.iter', 'builtins.enumerate', 'builtins.zip', 'numpy.nditer', 'builtins.next',
             'numpy.swapaxes', 'numpy.moveaxis', 'numpy.expand_dims', 'numpy.broadcast_to'}
EXT_DEEPCOPY = {'copy.deepcopy'}
EXT_NDARRAY_FRESH = {'numpy.zeros', 'numpy.ones', 'numpy.empty', 'numpy.full', 'numpy.ndarray', 'numpy.arange',
                     'numpy.linspace', 'numpy.zeros_like', 'numpy.ones_like', 'numpy.empty_like',
                     'numpy.full_like', 'numpy.eye', 'numpy.identity'}
EXT_CALLBACK = {'scipy.optimize.minimize': [0], 'builtins.map': [0], 'builtins.filter': [0],
                'scipy.optimize.minimize_scalar': [0], 'scipy.optimize.differential_evolution': [0],
                'scipy.optimize.basinhopping': [0], 'scipy.optimize.dual_annealing': [0]}
EXT_INPLACE_FUNCS = {'numpy.put': 0, 'numpy.copyto': 0, 'numpy.fill_diagonal': 0, 'numpy.place': 0,
                     'numpy.putmask': 0, 'random.shuffle': 0, 'numpy.random.shuffle': 0,
                     'builtins.setattr': 0, 'builtins.delattr': 0, 'numpy.clip': None, 'numpy.add.at': 0,
                     'numpy.put_along_axis': 0}
# models of external classes that matter to this repository: method -> behaviour
EXT_CLASS_MODELS = {
    'depq.DEPQ': {
        'insert': ('store', [(0, 'item', 'item'), (1, 'priority', 'prio')]),
        'popfirst': ('take', ['item', 'prio'], True),
        'poplast': ('take', ['item', 'prio'], True),
        'first': ('take', ['item'], False),
        'last': ('take', ['item'], False),
        'high': ('take', ['prio'], False),
        'low': ('take', ['prio'], False),
        'clear': ('mut',),
        'remove': ('mut',),
        'addfirst': ('store', [(0, 'item', 'item'), (1, 'priority', 'prio')]),
        'addlast': ('store', [(0, 'item', 'item'), (1, 'priority', 'prio')]),
        'extend': ('mut',),
        'is_empty': ('pure',),
        'size': ('pure',),
        'count': ('pure',),
        'set_maxlen': ('mut',),
    },
    # diagnostics: a logging call writes to handlers outside the program state the properties speak about, keeps
    # none of its arguments and returns nothing that is used (TRUSTED: __repr__/__str__ of logged objects are pure)
    'logging.Logger': {m: ('pure',) for m in ('debug', 'info', 'warning', 'warn', 'error', 'exception', 'critical',
                                              'log', 'isEnabledFor', 'getEffectiveLevel', 'hasHandlers')},
}
EXT_FACTORIES = {'logging.getLogger': 'logging.Logger'}
PURE_EXT_FUNCS = {'logging.debug', 'logging.info', 'logging.warning', 'logging.warn', 'logging.error',
                  'logging.exception', 'logging.critical', 'logging.log', 'warnings.warn'}
PURE_BUILTINS = {'len', 'int', 'float', 'abs', 'min', 'max', 'pow', 'range', 'print', 'str', 'isinstance',
                 'bool', 'round', 'sum', 'repr', 'type', 'id', 'hash', 'divmod', 'ord', 'chr', 'issubclass',
                 'callable', 'hasattr', 'format', 'any', 'all', 'bin', 'hex', 'complex', 'bytes', 'input',
                 'open', 'object', 'slice', 'vars', 'dir'}
DYNAMIC_BUILTINS = {'exec', 'eval', 'globals', 'locals', '__import__', 'compile'}


class Mutation:
    """A site that may change an existing object."""
    __slots__ = ('func', 'node', 'kind', 'field', 'base_expr', 'bases', 'detail', 'init_self')

    def __init__(self, func, node, kind, field, base_expr, bases, detail='', init_self=False):
        self.func = func            # FuncInfo containing the site
        self.node = node            # ast node (statement or call)
        self.kind = kind            # attr | sub | aug | mutcall | extcall | del | inplace
        self.field = field          # attribute name / '[]' / ('idx',k) / method name
        self.base_expr = base_expr  # ast expr of the object written through (may be None)
        self.bases = bases          # set[Obj]
        self.detail = detail
        self.init_self = init_self  # attribute store on self inside __init__ (object under construction)

    def loc(self):
        return self.func.loc(self.node)

    def text(self):
        try:
            return ' '.join(ast.unparse(self.node).split())
        except Exception:
            return '?'

    def __repr__(self):
        return f'<Mut {self.kind} {self.field} at {self.loc()} in {self.func.short}>'


class PTA:
    def __init__(self, index: Index, max_passes: int = 40, skip=frozenset()):
        self.ix = index
        # functions whose bodies are left out (state-restoring routines: analysed by their own rules on the full
        # relation, see report.Ctx.pta); calls to them bind arguments and return nothing
        self.skip = frozenset(skip)
        self.pts: Dict[tuple, Set[Obj]] = {}
        self.changed = False
        self.mutations: List[Mutation] = []
        self.calls: Dict[Tuple[str, int], Set] = {}          # (caller qualname, id(call node)) -> callees
        self.call_nodes: Dict[Tuple[str, int], ast.Call] = {}
        self.callers: Dict[str, Set[Tuple[str, int]]] = {}     # callee qualname -> call sites
        self.ext_calls: Dict[Tuple[str, int], Set[str]] = {}   # external dotted names called per site
        self.diag_calls: Set[Tuple[str, int]] = set()            # sites that are logging calls
        self.unknown_pure_methods: Set[str] = set()
        self.unsupported: List[str] = []
        self.dynamic: List[str] = []
        self.global_writes: List[Tuple[FuncInfo, ast.AST, str]] = []   # 'global X' assignments inside functions
        self._objs: Dict[tuple, Obj] = {}
        self._locals_cache: Dict[str, Set[str]] = {}
        self._pver: Dict[int, str] = {}
        self._globals_decl: Dict[str, Set[str]] = {}
        self._literal_cache: Dict[int, bool] = {}
        self.passes = 0
        self.max_passes = max_passes
        self._cur: Optional[FuncInfo] = None
        self._vq: Optional[str] = None                        # variable namespace of the unit being analysed
        self._active: Set[str] = set()
        self._ctxs: Dict[str, Set[str]] = {}                  # fq -> context-qualified namespaces (__init__)
        self._default_ctx: Optional[str] = None
        self.solve()

    # ------------------------------------------------------------------
    # object factories
    # ------------------------------------------------------------------
    def _mk(self, key, kind, site, cls=None, scope='func', owner=None, extra=None) -> Obj:
        o = self._objs.get(key)
        if o is None:
            o = Obj(kind, site, cls, scope, owner, extra, uid=len(self._objs) + 1)
            self._objs[key] = o
        return o

    def _site(self, node: ast.AST, tag: str = '') -> str:
        f = self._cur
        s = f'{f.module.relpath}:{getattr(node, "lineno", 0)}:{getattr(node, "col_offset", 0)}'
        return s + (':' + tag if tag else '')

    def _scope(self) -> Tuple[str, str]:
        if self._default_ctx:
            return 'default', self._default_ctx
        f = self._cur
        if f.kind == 'module':
            return 'module', f.qualname
        if f.kind == 'classbody':
            return 'class', f.qualname
        if any(d.split('.')[-1] in ('lru_cache', 'cache') for d in getattr(f, 'decorators', ())):
            # a memoised function hands the same object to every caller with equal arguments: what it allocates
            # lives as long as the process
            return 'memo', f.qualname
        return 'func', f.qualname

    def alloc(self, kind: str, node: ast.AST, cls: Optional[ClassInfo] = None, tag: str = '', extra=None) -> Obj:
        key = ('a', kind, self._cur.module.name, id(node), tag, cls.qualname if cls else None,
               self._default_ctx)
        o = self._objs.get(key)
        if o is None:
            scope, owner = self._scope()
            o = self._mk(key, kind, self._site(node, tag), cls, scope, owner, extra)
        return o

    def inst_ext(self, c: ClassInfo) -> Obj:
        return self._mk(('I', c.qualname), 'ext_inst', f'I({c.name})', c, 'external', '<external>')

    def param_obj(self, f: FuncInfo, p: str) -> Obj:
        return self._mk(('P', self._fq(f), p), 'param', f'P({f.short}.{p})', None, 'external', '<external>')

    def field_obj(self, o: Obj, fld) -> Obj:
        depth = o.extra[3] + 1 if (o.kind == 'field' and o.extra and o.extra[0] == 'of') else 1
        if depth > 4:
            return o            # collapse deep chains of unknown external structure (x.left.left.left...)
        return self._mk(('fld', o.uid, str(fld)), 'field', f'{o.site}.{fld}', None, o.scope, o.owner,
                        extra=('of', o, str(fld), depth))

    def cls_obj(self, c: ClassInfo) -> Obj:
        return self._mk(('C', c.qualname), 'cls', f'class {c.qualname}', c, 'class', c.qualname)

    def func_obj(self, f: FuncInfo) -> Obj:
        return self._mk(('Fn', self._fq(f)), 'func', f'def {f.qualname}', None, 'module', f.module.name,
                        extra=('f', f))

    def bm_obj(self, f: FuncInfo, recv: Obj) -> Obj:
        return self._mk(('bm', self._fq(f), recv.uid), 'bm', f'bm {f.qualname} of {recv.site}', None,
                        recv.scope, recv.owner, extra=('bm', f, recv))

    def mod_obj(self, m: ModuleInfo) -> Obj:
        return self._mk(('M', m.name), 'module', f'module {m.name}', None, 'module', m.name, extra=('m', m))

    def extmod_obj(self, dotted: str) -> Obj:
        return self._mk(('X', dotted), 'extmod', dotted, None, 'module', '<external>', extra=('x', dotted))

    def extmeth_obj(self, recv: Obj, name: str) -> Obj:
        return self._mk(('xm', recv.uid, name), 'extmeth', f'{recv.site}.{name}()', None, recv.scope,
                        recv.owner, extra=('xm', recv, name))

    def builtin_obj(self, name: str) -> Obj:
        return self._mk(('B', name), 'builtin', name, None, 'module', '<builtins>', extra=('b', name))

    def clone_obj(self, node: ast.AST, o: Obj) -> Obj:
        while o.is_clone:
            o = o.extra[1]
        # opaque external structure (unknown objects and their lazily materialised fields / method results) is
        # copied into ONE abstract copy per deepcopy site: copies of copies of unknown things would otherwise
        # breed new unknown things without bound
        opaque = o.kind in ('field', 'ext', 'param', 'extmeth', 'arith')
        key = ('cl', self._cur.module.name, id(node), 'opaque' if opaque else o.uid)
        got = self._objs.get(key)
        if got is not None:
            return got
        scope, owner = self._scope()
        kind = o.kind if o.kind in ('inst', 'list', 'tuple', 'dict', 'set', 'ndarray') else \
            ('inst' if o.kind == 'ext_inst' else 'ext')
        return self._mk(key, kind, self._site(node, 'deepcopy'), o.cls, scope, owner,
                        extra=('clone', o, self._cur.module.name, id(node)))

    # ------------------------------------------------------------------
    # pts helpers
    # ------------------------------------------------------------------
    def get(self, var: tuple) -> Set[Obj]:
        return self.pts.get(var, _EMPTY)

    def add(self, var: tuple, objs: Iterable[Obj]):
        s = self.pts.get(var)
        if s is None:
            s = self.pts[var] = set()
        n = len(s)
        s.update(objs)
        if len(s) != n:
            self.changed = True

    def F(self, o: Obj, fld) -> tuple:
        return ('F', o, fld)

    def read_field(self, o: Obj, fld: str) -> Set[Obj]:
        """Attribute read o.fld (fld already mangled)."""
        out = set(self.get(('F', o, fld)))
        if o.cls is not None and o.kind in ('inst', 'ext_inst'):
            for c in o.cls.mro():
                out |= self.get(('F', self.cls_obj(c), fld))
        if o.is_clone:
            src = o.extra[1]
            for so in self.read_field(src, fld):
                out.add(self._clone_of(o, so))
        if not out and o.kind in ('param', 'field', 'ext', 'extmod'):
            out.add(self.field_obj(o, fld))
        return out

    def _clone_of(self, clone: Obj, so: Obj) -> Obj:
        if so.kind in ('cls', 'func', 'module', 'extmod', 'builtin', 'bm', 'extmeth'):
            return so
        while so.is_clone:
            so = so.extra[1]            # a clone of a clone is a clone of the original
        opaque = so.kind in ('field', 'ext', 'param', 'arith')
        key = ('cl', clone.extra[2], clone.extra[3], 'opaque' if opaque else so.uid)
        got = self._objs.get(key)
        if got is not None:
            return got
        kind = so.kind if so.kind in ('inst', 'list', 'tuple', 'dict', 'set', 'ndarray') else \
            ('inst' if so.kind == 'ext_inst' else 'ext')
        return self._mk(key, kind, clone.site, so.cls, clone.scope, clone.owner,
                        extra=('clone', so, clone.extra[2], clone.extra[3]))

    def elems(self, o: Obj, idx=None, with_self_view: bool = True) -> Set[Obj]:
        """Subscript read / iteration element."""
        out = set()
        if idx is not None:
            out |= self.get(('F', o, ('idx', idx)))
            out |= self.get(('F', o, '[]'))
        else:
            for (k, oo, fld), v in self._fields_of(o):
                if fld == '[]' or (isinstance(fld, tuple) and fld[0] == 'idx'):
                    out |= v
        if o.is_clone:
            for so in self.elems(o.extra[1], idx, False):
                out.add(self._clone_of(o, so))
        if o.kind in ARRAYISH_KINDS:
            if with_self_view and not any(x.kind in ('inst', 'ext_inst') or x.kind in CONTAINER_KINDS
                                          for x in out):
                out.add(o)            # a[i] of a numeric array may be a view of a
            if o.kind in ('param', 'field', 'ext') and not (out - {o}):
                out.add(self.field_obj(o, '[]'))
        return out

    def _fields_of(self, o: Obj):
        idx = self._field_index.get(o)
        if idx is None:
            return []
        return [(k, self.pts[k]) for k in idx if k in self.pts]

    # ------------------------------------------------------------------
    # scoping
    # ------------------------------------------------------------------
    def locals_of(self, f: FuncInfo) -> Set[str]:
        q = f.qualname + ('@setter' if f.is_setter else '')
        if q in self._locals_cache:
            return self._locals_cache[q]
        names: Set[str] = set()
        gl: Set[str] = set()
        if f.kind == 'function':
            a = f.node.args
            for p in list(a.posonlyargs) + list(a.args) + list(a.kwonlyargs):
                names.add(p.arg)
            if a.vararg:
                names.add(a.vararg.arg)
            if a.kwarg:
                names.add(a.kwarg.arg)

            def walk(n):
                for ch in ast.iter_child_nodes(n):
                    if isinstance(ch, (ast.FunctionDef, ast.AsyncFunctionDef, ast.ClassDef)):
                        names.add(ch.name)
                        continue
                    if isinstance(ch, ast.Lambda):
                        # lambda parameters live in the enclosing function's frame for this analysis (flow- and
                        # context-insensitive anyway); a clash with a local of the same name only merges them
                        for p_ in list(ch.args.posonlyargs) + list(ch.args.args) + list(ch.args.kwonlyargs):
                            names.add(p_.arg)
                        walk(ch)
                        continue
                    if isinstance(ch, ast.Name) and isinstance(ch.ctx, (ast.Store, ast.Del)):
                        names.add(ch.id)
                    elif isinstance(ch, (ast.Global, ast.Nonlocal)):
                        gl.update(ch.names)
                    elif isinstance(ch, ast.ExceptHandler) and ch.name:
                        names.add(ch.name)
                    elif isinstance(ch, (ast.Import, ast.ImportFrom)):
                        for al in ch.names:
                            names.add((al.asname or al.name).split('.')[0])
                    walk(ch)
            walk(f.node)
            names -= gl
            names |= self._param_versions(f, names)
        self._locals_cache[q] = names
        self._globals_decl[q] = gl
        return names

    def _param_versions(self, f: FuncInfo, names: Set[str]) -> Set[str]:
        """Straight-line re-binding of a parameter (`bound = np.array(bound, dtype=...)` as a statement of the function
        body itself, the idiom of a converting / validating helper) is given a variable of its own: uses after the
        statement see the new binding only.  Exact when the parameter is re-bound nowhere else and is not captured by
        a nested function; any other shape keeps the flow-insensitive treatment."""
        out: Set[str] = set()
        if not isinstance(f.node, (ast.FunctionDef, ast.AsyncFunctionDef)):
            return out
        params = [p for p in f.param_names]
        body = f.node.body
        for pn in params:
            tops = [st for st in body if isinstance(st, ast.Assign) and len(st.targets) == 1 and
                    isinstance(st.targets[0], ast.Name) and st.targets[0].id == pn]
            if not tops:
                continue
            stores = [n for n in ast.walk(f.node) if isinstance(n, ast.Name) and n.id == pn and
                      isinstance(n.ctx, (ast.Store, ast.Del))]
            if len(stores) != len(tops):
                continue            # also re-bound inside a branch / loop / with-target / augmented: not straight-line
            if any(isinstance(n, (ast.AugAssign, ast.NamedExpr)) and isinstance(n.target, ast.Name) and n.target.id == pn
                   for n in ast.walk(f.node)):
                continue
            nested = [n for n in ast.walk(f.node) if n is not f.node and
                      isinstance(n, (ast.FunctionDef, ast.AsyncFunctionDef, ast.Lambda, ast.ClassDef))]
            if any(isinstance(x, ast.Name) and x.id == pn for n in nested for x in ast.walk(n)):
                continue
            # version k for every Name node positioned after the k-th re-binding statement
            ends = [(st.end_lineno, st.end_col_offset) for st in tops]
            for n in ast.walk(f.node):
                if not (isinstance(n, ast.Name) and n.id == pn):
                    continue
                if isinstance(n.ctx, ast.Store):
                    k = [i for i, st in enumerate(tops) if st.targets[0] is n]
                    ver = k[0] + 1 if k else 0
                else:
                    ver = sum(1 for e_ in ends if (n.lineno, n.col_offset) >= e_)
                if ver:
                    self._pver[id(n)] = f'{pn}#{ver}'
                    out.add(f'{pn}#{ver}')
        return out

    def _vname(self, n: ast.Name) -> str:
        return self._pver.get(id(n), n.id)

    def var_for_name(self, name: str, f: FuncInfo) -> Optional[tuple]:
        """Pointer variable written by a Name store in f."""
        if f.kind == 'module':
            return ('G', f.module.name, name)
        if f.kind == 'classbody':
            return ('F', self.cls_obj(f.cls), mangle(f.cls.name, name))
        if name in self.locals_of(f):
            return ('L', self._vq if f is self._cur else self._fq(f), name)
        q = self._fq(f)
        if name in self._globals_decl.get(q, ()):
            return ('G', f.module.name, name)
        return None

    def _fq(self, f: FuncInfo) -> str:
        return f.qualname + ('@setter' if f.is_setter else '')

    # ------------------------------------------------------------------
    # fixpoint
    # ------------------------------------------------------------------
    def solve(self):
        funcs = self.ix.all_functions()
        self._field_index: Dict[Obj, Set[tuple]] = {}
        while True:
            self.passes += 1
            if self.passes > self.max_passes:
                raise AnalysisError('points-to analysis did not converge')
            self.changed = False
            self.mutations = []
            self.global_writes = []
            self._rebuild_field_index()
            for f in funcs:
                if self.skip and self._fq(f) in self.skip:
                    continue
                self.analyse_unit(f)
            if os.environ.get('IVA_TRACE'):
                print(f'[pta] pass {self.passes}: {len(self.pts)} vars, {len(self._objs)} objs', flush=True)
            if not self.changed:
                break
            if len(self._objs) > 60000:
                raise AnalysisError(f'points-to analysis is not converging ({len(self._objs)} abstract objects '
                                    f'after {self.passes} passes): unknown external structure is breeding objects')
        self._rebuild_field_index()

    def _rebuild_field_index(self):
        idx: Dict[Obj, Set[tuple]] = {}
        for k in self.pts:
            if k[0] == 'F':
                idx.setdefault(k[1], set()).add(k)
        self._field_index = idx

    def analyse_unit(self, f: FuncInfo):
        self._cur = f
        self._vq = self._fq(f)
        self._default_ctx = None
        if f.kind == 'function':
            self.seed_params(f)
            self.eval_defaults(f)
        body = f.node.body
        self.exec_block(body)

    def _closed_world(self, f: FuncInfo) -> bool:
        """A private function (_name / __name) that the repository itself calls: all its callers are known, so its
        parameters need no placeholder object for values 'supplied from outside'."""
        n = f.name
        if f.is_setter:
            # attribute assignment from outside the library is not modelled for plain attributes either: a setter
            # sees the values the library itself assigns
            return True
        if not n.startswith('_') or (n.startswith('__') and n.endswith('__')):
            return False
        called = getattr(self, '_called_names', None)
        if called is None:
            called = set()
            for m in self.ix.modules.values():
                for nd in ast.walk(m.tree):
                    if isinstance(nd, ast.Call):
                        if isinstance(nd.func, ast.Attribute):
                            called.add(nd.func.attr)
                        elif isinstance(nd.func, ast.Name):
                            called.add(nd.func.id)
            self._called_names = called
        return n in called

    def seed_params(self, f: FuncInfo):
        q = self._fq(f)
        names = f.param_names
        closed = self._closed_world(f)
        for i, p in enumerate(f.params):
            var = ('L', q, p.arg)
            if i == 0 and f.cls is not None and not f.is_static:
                if f.is_classmethod:
                    self.add(var, [self.cls_obj(f.cls)])
                else:
                    objs = [self.inst_ext(f.cls)] + [self.inst_ext(s) for s in f.cls.all_subclasses()
                                                     if s.lookup(f.name) is f or f.name == '__init__']
                    self.add(var, objs)
                continue
            if p.annotation is not None and _ann_text(p.annotation) in SCALAR_ANNOTATIONS:
                continue
            classes = self.ix.annotation_classes(f.module, p.annotation)
            if classes:
                objs = []
                for c in classes:
                    objs.append(self.inst_ext(c))
                    objs += [self.inst_ext(s) for s in c.all_subclasses()]
                self.add(var, objs)
            else:
                elem = self.ix.annotation_elem_classes(f.module, p.annotation)
                if closed and not elem:
                    continue
                po = self.param_obj(f, p.arg)
                self.add(var, [po])
                for c in elem:
                    self.add(('F', po, '[]'), [self.inst_ext(c)] + [self.inst_ext(s) for s in c.all_subclasses()])
        for p in f.kwonly:
            self.add(('L', q, p.arg), [self.param_obj(f, p.arg)])
        a = f.node.args
        if a.vararg:
            self.add(('L', q, a.vararg.arg), [self.param_obj(f, a.vararg.arg)])
        if a.kwarg:
            self.add(('L', q, a.kwarg.arg), [self.param_obj(f, a.kwarg.arg)])

    def eval_defaults(self, f: FuncInfo):
        q = self._fq(f)
        for pname, dexpr in f.defaults().items():
            self._default_ctx = f'{f.qualname}({pname}=)'
            # defaults are evaluated in the *enclosing* scope at def time
            saved = self._cur
            self._cur = f.cls.body if f.cls is not None else f.module.body
            try:
                # keep the file of the def for the site string
                objs = self.ev(dexpr)
            finally:
                self._cur = saved
                self._default_ctx = None
            self.add(('L', q, pname), objs)
            self.add(('D', q, pname), objs)

    def default_objs(self, f: FuncInfo, pname: str) -> Set[Obj]:
        return self.get(('D', self._fq(f), pname))

    # ------------------------------------------------------------------
    # statements
    # ------------------------------------------------------------------
    def exec_block(self, stmts: List[ast.stmt]):
        for st in stmts:
            self.exec_stmt(st)

    def exec_stmt(self, st: ast.stmt):
        f = self._cur
        if isinstance(st, ast.Assign):
            v = self.ev(st.value)
            for t in st.targets:
                self.assign(t, v, st, st.value)
        elif isinstance(st, ast.AnnAssign):
            if st.value is not None:
                v = self.ev(st.value)
                self.assign(st.target, v, st, st.value)
        elif isinstance(st, ast.AugAssign):
            v = self.ev(st.value)
            t = st.target
            if isinstance(t, ast.Name):
                cur = self.ev(ast.Name(id=t.id, ctx=ast.Load(), lineno=t.lineno, col_offset=t.col_offset))
                # x += y mutates x in place when x is a list/array
                muts = {o for o in cur if o.kind in CONTAINER_KINDS or o.kind == 'ndarray'}
                if muts:
                    self.mutations.append(Mutation(f, st, 'aug', '[]', t, muts, 'in-place operator on a name'))
                    for o in muts:
                        if o.kind in CONTAINER_KINDS:
                            for vo in v:
                                self.add(('F', o, '[]'), self.elems(vo))
                fresh = self.alloc('arith', st, tag='aug')
                self.assign(t, {fresh} | muts, st, None, record=False)
            else:
                self.assign(t, v | {self.alloc('arith', st, tag='aug')}, st, None, kind='aug')
        elif isinstance(st, ast.Expr):
            self.ev(st.value)
        elif isinstance(st, ast.Return):
            if st.value is not None:
                self.add(('R', self._vq), self.ev(st.value))
        elif isinstance(st, (ast.If, ast.While)):
            if f.kind == 'module' and isinstance(st, ast.If) and _is_main_guard(st.test):
                return          # script entry point: never executed when the library is imported
            self.ev(st.test)
            self.exec_block(st.body)
            self.exec_block(st.orelse)
        elif isinstance(st, ast.For):
            it = self.ev(st.iter)
            self.assign(st.target, self.iter_elems(it, st.iter), st, None, record=False)
            self.exec_block(st.body)
            self.exec_block(st.orelse)
        elif isinstance(st, ast.With):
            for item in st.items:
                v = self.ev(item.context_expr)
                # context-manager protocol of repository classes: __enter__ gives the bound value, __exit__ is called
                entered: Set[Obj] = set()
                proto = False
                for o in v:
                    if o.kind in ('inst', 'ext_inst') and o.cls is not None:
                        en, exi = o.cls.lookup('__enter__'), o.cls.lookup('__exit__')
                        if en is not None:
                            proto = True
                            self.bind_call(en, o, [], {}, item.context_expr)
                            entered |= self.get(('R', self._fq(en)))
                        if exi is not None:
                            self.bind_call(exi, o, [set(), set(), set()], {}, item.context_expr)
                if item.optional_vars is not None:
                    self.assign(item.optional_vars, entered if proto else v, st, None, record=False)
            self.exec_block(st.body)
        elif isinstance(st, ast.Try):
            self.exec_block(st.body)
            for h in st.handlers:
                if h.type is not None:
                    self.ev(h.type)
                if h.name:
                    var = self.var_for_name(h.name, f)
                    if var:
                        self.add(var, [self.alloc('ext', h, tag='exc')])
                self.exec_block(h.body)
            self.exec_block(st.orelse)
            self.exec_block(st.finalbody)
        elif isinstance(st, ast.Raise):
            if st.exc is not None:
                self.ev(st.exc)
            if st.cause is not None:
                self.ev(st.cause)
        elif isinstance(st, ast.Assert):
            self.ev(st.test)
            if st.msg is not None:
                self.ev(st.msg)
        elif isinstance(st, ast.Delete):
            for t in st.targets:
                if isinstance(t, ast.Subscript):
                    b = self.ev(t.value)
                    self.mutations.append(Mutation(f, st, 'del', '[]', t.value, b, 'del x[i]'))
                elif isinstance(t, ast.Attribute):
                    b = self.ev(t.value)
                    self.mutations.append(Mutation(f, st, 'del', mangle(f.cls.name if f.cls else None, t.attr),
                                                   t.value, b, 'del x.a'))
        elif isinstance(st, (ast.Import, ast.ImportFrom)):
            if f.kind == 'function':
                # function-local import: bind the local name to the module / imported object
                for al in st.names:
                    if isinstance(st, ast.Import):
                        local = al.asname or al.name.split('.')[0]
                        dotted = al.name if al.asname else al.name.split('.')[0]
                        objs = {self.mod_obj(self.ix.modules[dotted])} if dotted in self.ix.modules \
                            else {self.extmod_obj(dotted)}
                    else:
                        local = al.asname or al.name
                        mod = st.module or ''
                        if mod in self.ix.modules:
                            r = self.ix.resolve_global(self.ix.modules[mod], al.name)
                            objs = self.objs_of_resolution(r) if r is not None else set()
                            if not objs and (mod + '.' + al.name) in self.ix.modules:
                                objs = {self.mod_obj(self.ix.modules[mod + '.' + al.name])}
                        else:
                            objs = {self.extmod_obj((mod + '.' + al.name) if mod else al.name)}
                    var = self.var_for_name(local, f)
                    if var and objs:
                        self.add(var, objs)
        elif isinstance(st, (ast.Pass, ast.Break, ast.Continue, ast.Nonlocal)):
            pass
        elif isinstance(st, ast.Global):
            pass
        elif isinstance(st, (ast.FunctionDef, ast.AsyncFunctionDef, ast.ClassDef)):
            if f.kind == 'function':
                note = f'{f.loc(st)}: nested definition {st.name} in {f.short} is not analysed'
                if note not in self.unsupported:
                    self.unsupported.append(note)
        elif isinstance(st, ast.Match):
            sv = self.ev(st.subject)
            for c in st.cases:
                for pn in ast.walk(c.pattern):
                    if isinstance(pn, ast.MatchAs) and pn.name:
                        var = self.var_for_name(pn.name, f)
                        if var:
                            self.add(var, sv)      # a capture holds (a component of) the subject
                    if isinstance(pn, ast.MatchValue):
                        self.ev(pn.value)
                if c.guard is not None:
                    self.ev(c.guard)
                self.exec_block(c.body)
        else:
            note = f'{f.loc(st)}: unsupported statement {type(st).__name__}'
            if note not in self.unsupported:
                self.unsupported.append(note)

    def iter_elems(self, objs: Set[Obj], node: ast.AST) -> Set[Obj]:
        out: Set[Obj] = set()
        for o in objs:
            if o.kind in ('inst', 'ext_inst') and o.cls is not None:
                it = o.cls.lookup('__iter__')
                nx = o.cls.lookup('__next__')
                if it is not None:
                    self.bind_call(it, o, [], {}, node)
                    for io in self.get(('R', self._fq(it))):
                        if io.cls is not None:
                            n2 = io.cls.lookup('__next__')
                            if n2 is not None:
                                self.bind_call(n2, io, [], {}, node)
                                out |= self.get(('R', self._fq(n2)))
                    continue
                if nx is not None:
                    self.bind_call(nx, o, [], {}, node)
                    out |= self.get(('R', self._fq(nx)))
                    continue
            out |= self.elems(o)
        return out

    def assign(self, target: ast.expr, v: Set[Obj], st: ast.AST, value_expr: Optional[ast.expr],
               record: bool = True, kind: Optional[str] = None):
        f = self._cur
        if isinstance(target, ast.Name):
            var = self.var_for_name(self._vname(target), f)
            if var is None:
                note = f'{f.loc(st)}: store to unresolved name {target.id}'
                if note not in self.unsupported:
                    self.unsupported.append(note)
                return
            if var[0] == 'G' and f.kind == 'function':
                self.global_writes.append((f, st, target.id))
            self.add(var, v)
        elif isinstance(target, ast.Attribute):
            bases = self.ev(target.value)
            cname = f.cls.name if f.cls else None
            fld = mangle(cname, target.attr)
            init_self = (f.kind == 'function' and f.name == '__init__' and isinstance(target.value, ast.Name)
                         and f.param_names and target.value.id == f.param_names[0])
            via_setter = set()
            for o in bases:
                if o.kind in ('inst', 'ext_inst') and o.cls is not None:
                    setter = o.cls.lookup_setter(target.attr)
                    if setter is not None:
                        self.bind_call(setter, o, [v], {}, st)
                        via_setter.add(o)
                        continue
                    # descriptor protocol: a class attribute whose object defines __set__ receives the store
                    descs = [d for d in self._class_attr_objs(o.cls, fld) if d.kind in ('inst', 'ext_inst')
                             and d.cls is not None and d.cls.lookup('__set__') is not None]
                    if descs:
                        for d in descs:
                            self.bind_call(d.cls.lookup('__set__'), d, [{o}, v], {}, st)
                        via_setter.add(o)
                        continue
                if o.kind == 'module':
                    m = o.extra[1]
                    self.add(('G', m.name, target.attr), v)
                    continue
                self.add(('F', o, fld), v)
            if record and (set(bases) - via_setter or not bases):
                self.mutations.append(Mutation(f, st, kind or 'attr', fld, target.value, set(bases) - via_setter,
                                               init_self=init_self))
        elif isinstance(target, ast.Subscript):
            bases = self.ev(target.value)
            self.ev(target.slice)
            idx = _const_index(target.slice)
            for o in bases:
                if idx is not None and o.kind in CONTAINER_KINDS:
                    self.add(('F', o, ('idx', idx)), v)
                else:
                    self.add(('F', o, '[]'), v)
            if record:
                self.mutations.append(Mutation(f, st, kind or 'sub', '[]', target.value, set(bases)))
        elif isinstance(target, (ast.Tuple, ast.List)):
            for i, t in enumerate(target.elts):
                if isinstance(t, ast.Starred):
                    part = set()
                    for o in v:
                        part |= self.elems(o, None, False)
                    lst = self.alloc('list', t, tag='star')
                    self.add(('F', lst, '[]'), part)
                    self.assign(t.value, {lst}, st, None, record=record)
                    continue
                part = set()
                for o in v:
                    if o.kind in ('inst', 'ext_inst') and o.cls and (o.cls.lookup('__iter__') or o.cls.lookup('__next__')):
                        part |= self.iter_elems({o}, st)
                    else:
                        part |= self.elems(o, i, False)
                self.assign(t, part, st, None, record=record)
        elif isinstance(target, ast.Starred):
            self.assign(target.value, v, st, None, record=record)
        else:
            note = f'{f.loc(st)}: unsupported assignment target {type(target).__name__}'
            if note not in self.unsupported:
                self.unsupported.append(note)

    # ------------------------------------------------------------------
    # expressions
    # ------------------------------------------------------------------
    def ev(self, e: ast.expr) -> Set[Obj]:
        f = self._cur
        if isinstance(e, ast.Constant):
            return set()
        if isinstance(e, ast.Name):
            return self.ev_name(self._vname(e))
        if isinstance(e, ast.Attribute):
            return self.ev_attr(e)
        if isinstance(e, ast.Subscript):
            bases = self.ev(e.value)
            self.ev(e.slice)
            out: Set[Obj] = set()
            if isinstance(e.slice, ast.Slice):
                lst = None
                for o in bases:
                    if o.kind in CONTAINER_KINDS:
                        if lst is None:
                            lst = self.alloc(o.kind, e, tag='slice')
                        self.add(('F', lst, '[]'), self.elems(o, None, False))
                    else:
                        out.add(o)
                        out |= self.elems(o, None, True)
                if lst is not None:
                    out.add(lst)
                return out
            idx = _const_index(e.slice)
            for o in bases:
                if o.kind in ('cls', 'extmod', 'builtin'):       # typing subscripts: List[int]
                    out.add(o)
                    continue
                out |= self.elems(o, idx if o.kind in CONTAINER_KINDS else None, True)
            return out
        if isinstance(e, ast.Call):
            return self.ev_call(e)
        if isinstance(e, ast.BinOp):
            l = self.ev(e.left)
            r = self.ev(e.right)
            if isinstance(e.op, (ast.Add, ast.Mult)) and any(o.kind in ('list', 'tuple') for o in l | r):
                # list concatenation / repetition: fresh list sharing the elements
                kind = 'list' if any(o.kind == 'list' for o in l | r) else 'tuple'
                lst = self.alloc(kind, e, tag='concat')
                for o in l | r:
                    if o.kind in ('list', 'tuple'):
                        self.add(('F', lst, '[]'), self.elems(o, None, False))
                return {lst}
            return {self.alloc('arith', e)}
        if isinstance(e, ast.UnaryOp):
            self.ev(e.operand)
            if isinstance(e.op, ast.Not):
                return set()
            return {self.alloc('arith', e)}
        if isinstance(e, ast.BoolOp):
            out = set()
            for v in e.values:
                out |= self.ev(v)
            return out
        if isinstance(e, ast.Compare):
            self.ev(e.left)
            for c in e.comparators:
                self.ev(c)
            return set()
        if isinstance(e, ast.IfExp):
            self.ev(e.test)
            return self.ev(e.body) | self.ev(e.orelse)
        if isinstance(e, (ast.List, ast.Tuple, ast.Set)):
            if self._is_literal(e):
                kind = 'list' if isinstance(e, ast.List) else ('tuple' if isinstance(e, ast.Tuple) else 'set')
                o = self.alloc(kind, e)
                self._literal_children(e, o)
                return {o}
            kind = 'list' if isinstance(e, ast.List) else ('tuple' if isinstance(e, ast.Tuple) else 'set')
            o = self.alloc(kind, e)
            for i, el in enumerate(e.elts):
                if isinstance(el, ast.Starred):
                    for so in self.ev(el.value):
                        self.add(('F', o, '[]'), self.elems(so, None, False))
                else:
                    v = self.ev(el)
                    if v:
                        self.add(('F', o, ('idx', i) if kind != 'set' else '[]'), v)
            return {o}
        if isinstance(e, ast.Dict):
            o = self.alloc('dict', e)
            for k, v in zip(e.keys, e.values):
                if k is not None:
                    self.ev(k)
                vv = self.ev(v)
                if vv:
                    self.add(('F', o, '[]'), vv)
            return {o}
        if isinstance(e, (ast.ListComp, ast.SetComp, ast.GeneratorExp, ast.DictComp)):
            for g in e.generators:
                it = self.ev(g.iter)
                self.assign(g.target, self.iter_elems(it, g.iter), e, None, record=False)
                for c in g.ifs:
                    self.ev(c)
            kind = 'dict' if isinstance(e, ast.DictComp) else ('set' if isinstance(e, ast.SetComp) else 'list')
            o = self.alloc(kind, e)
            if isinstance(e, ast.DictComp):
                self.ev(e.key)
                v = self.ev(e.value)
            else:
                v = self.ev(e.elt)
            if v:
                self.add(('F', o, '[]'), v)
            return {o}
        if isinstance(e, ast.JoinedStr):
            for v in e.values:
                self.ev(v)
            return set()
        if isinstance(e, ast.FormattedValue):
            self.ev(e.value)
            if e.format_spec is not None:
                self.ev(e.format_spec)
            return set()
        if isinstance(e, ast.Lambda):
            self.ev(e.body)
            return {self.alloc('ext', e, tag='lambda', extra=('lam', e, self._vq, self._cur))}
        if isinstance(e, ast.Starred):
            out = set()
            for o in self.ev(e.value):
                out |= self.elems(o, None, False)
            return out
        if isinstance(e, ast.NamedExpr):
            v = self.ev(e.value)
            self.assign(e.target, v, e, e.value, record=False)
            return v
        if isinstance(e, ast.Slice):
            for p in (e.lower, e.upper, e.step):
                if p is not None:
                    self.ev(p)
            return set()
        note = f'{f.loc(e)}: unsupported expression {type(e).__name__}'
        if note not in self.unsupported:
            self.unsupported.append(note)
        return set()

    def _is_literal(self, e: ast.expr) -> bool:
        k = id(e)
        got = self._literal_cache.get(k)
        if got is not None:
            return got
        ok = True
        stack = [e]
        while stack:
            n = stack.pop()
            if isinstance(n, (ast.List, ast.Tuple, ast.Set)):
                stack.extend(n.elts)
            elif isinstance(n, ast.Constant):
                continue
            elif isinstance(n, ast.UnaryOp) and isinstance(n.operand, ast.Constant):
                continue
            else:
                ok = False
                break
        self._literal_cache[k] = ok
        return ok

    def _literal_children(self, e, o: Obj):
        """Nested literal rows: one summary child object per nesting level (tables have thousands of rows)."""
        kids = [el for el in e.elts if isinstance(el, (ast.List, ast.Tuple, ast.Set))]
        if not kids:
            return
        first = kids[0]
        kind = 'list' if isinstance(first, ast.List) else ('tuple' if isinstance(first, ast.Tuple) else 'set')
        child = self.alloc(kind, first, tag='rows')
        self.add(('F', o, '[]'), [child])
        self._literal_children(first, child)

    def ev_name(self, name: str) -> Set[Obj]:
        f = self._cur
        if f.kind == 'function' and name in self.locals_of(f):
            return set(self.get(('L', self._vq, name)))
        if f.kind == 'classbody':
            v = self.get(('F', self.cls_obj(f.cls), mangle(f.cls.name, name)))
            if v or name in f.cls.methods:
                if name in f.cls.methods:
                    return {self.func_obj(f.cls.methods[name])}
                return set(v)
        return self.ev_global(f.module, name)

    def ev_global(self, m: ModuleInfo, name: str) -> Set[Obj]:
        r = self.ix.resolve_global(m, name)
        if r is None:
            return {self.builtin_obj(name)}
        return self.objs_of_resolution(r)

    def objs_of_resolution(self, r) -> Set[Obj]:
        if isinstance(r, ClassInfo):
            return {self.cls_obj(r)}
        if isinstance(r, FuncInfo):
            return {self.func_obj(r)}
        if isinstance(r, ModuleInfo):
            return {self.mod_obj(r)}
        if isinstance(r, tuple):
            if r[0] == 'global':
                return set(self.get(('G', r[1].name, r[2])))
            if r[0] == 'ext':
                return {self.extmod_obj(r[1])}
            if r[0] == 'missing':
                return {self.extmod_obj(f'{r[1]}.{r[2]}')}
        return set()

    def ev_attr(self, e: ast.Attribute, callpos: bool = False) -> Set[Obj]:
        f = self._cur
        # super().m
        if isinstance(e.value, ast.Call) and isinstance(e.value.func, ast.Name) and e.value.func.id == 'super' \
                and f.cls is not None:
            out = set()
            mro = f.cls.mro()[1:]
            target = None
            for c in mro:
                if e.attr in c.methods:
                    target = c.methods[e.attr]
                    break
            if target is not None and f.param_names:
                for so in self.get(('L', self._vq, f.param_names[0])):
                    out.add(self.bm_obj(target, so))
            return out
        bases = self.ev(e.value)
        cname = f.cls.name if f.cls else None
        fld = mangle(cname, e.attr)
        out: Set[Obj] = set()
        for o in bases:
            out |= self.attr_of(o, e.attr, fld, e, callpos)
        return out

    def _nt_field_index(self, attr: str) -> Optional[int]:
        tab = getattr(self, '_nt_fields', None)
        if tab is None:
            tab = {}
            for c in self.ix.classes.values():
                for i, n in enumerate(c.namedtuple_fields or ()):
                    tab.setdefault(n, set()).add(i)
            self._nt_fields = tab
        idx = tab.get(attr)
        return next(iter(idx)) if idx and len(idx) == 1 else None

    def _class_attr_objs(self, c: ClassInfo, fld: str) -> Set[Obj]:
        out: Set[Obj] = set()
        for cc in c.mro():
            out |= self.get(('F', self.cls_obj(cc), fld))
        return out

    def attr_of(self, o: Obj, attr: str, fld: str, node: ast.AST, callpos: bool = False) -> Set[Obj]:
        if o.kind == 'module':
            m = o.extra[1]
            r = self.ix.resolve_global(m, attr)
            if r is None:
                sub = self.ix.modules.get(m.name + '.' + attr)
                return {self.mod_obj(sub)} if sub else set()
            return self.objs_of_resolution(r)
        if o.kind == 'extmod':
            return {self.extmod_obj(o.extra[1] + '.' + attr)}
        if o.kind == 'cls':
            c = o.cls
            m = c.lookup(attr)
            if m is not None:
                return {self.func_obj(m)}
            if c.namedtuple_fields is not None and attr == '_make' and callpos:
                return {self.extmeth_obj(o, attr)}
            out = set()
            for cc in c.mro():
                out |= self.get(('F', self.cls_obj(cc), fld))
            return out
        if o.kind in ('inst', 'ext_inst') and o.cls is not None:
            m = o.cls.lookup(attr)
            if m is not None:
                if m.is_property:
                    self.bind_call(m, o, [], {}, node)
                    return set(self.get(('R', self._fq(m))))
                if m.is_static:
                    return {self.func_obj(m)}
                return {self.bm_obj(m, o)}
            # descriptor protocol: a class attribute whose object defines __get__ answers the load
            descs = [d for d in self._class_attr_objs(o.cls, fld) if d.kind in ('inst', 'ext_inst')
                     and d.cls is not None and d.cls.lookup('__get__') is not None]
            if descs:
                out = set()
                for d in descs:
                    g = d.cls.lookup('__get__')
                    self.bind_call(g, d, [{o}, {self.cls_obj(o.cls)}], {}, node)
                    out |= set(self.get(('R', self._fq(g))))
                return out
            return self.read_field(o, fld)
        if o.kind in ('param', 'field'):
            if not callpos:
                if attr in ALIAS_ATTRS:
                    return {o} | self.read_field(o, fld)
                return self.read_field(o, fld)
            out = set(self.get(('F', o, fld)))
            # unknown receiver: name-based fallback for repository methods
            hit = False
            for c in self.ix.classes.values():
                if attr in c.methods and not attr.startswith('__'):
                    m = c.methods[attr]
                    if not m.is_static and not m.is_property:
                        out.add(self.bm_obj(m, self.inst_ext(c)))
                        hit = True
            if not hit or attr in LIST_MUTATORS or attr in PURE_METHODS:
                out.add(self.extmeth_obj(o, attr))
            return out
        if o.kind == 'tuple' and o.extra and o.extra[0] == 'nt' and attr in o.extra[1]:
            return set(self.get(('F', o, ('idx', o.extra[1].index(attr)))))
        if o.kind in CONTAINER_KINDS or o.kind in ARRAYISH_KINDS:
            nti = self._nt_field_index(attr)
            if nti is not None and not callpos and o.kind in ('tuple', 'ext', 'field', 'param'):
                # a tuple produced elsewhere (popped from a queue) read through a NamedTuple field name
                got = self.elems(o, nti, False)
                if got:
                    return set(got)
            if callpos:
                return {self.extmeth_obj(o, attr)} | set(self.get(('F', o, fld)))
            if attr in ALIAS_ATTRS:
                return {o}
            flds = self.get(('F', o, fld))
            if flds:
                return set(flds)
            if o.kind in ('ext',):
                return {self.field_obj(o, fld)}
            return set()
        if o.kind in ('bm', 'func', 'builtin', 'extmeth'):
            return set()
        return self.read_field(o, fld)

    # ------------------------------------------------------------------
    # calls
    # ------------------------------------------------------------------
    def ev_call(self, e: ast.Call) -> Set[Obj]:
        f = self._cur
        key = (self._fq(f), id(e))
        self.call_nodes[key] = e
        # evaluate arguments once
        args = []
        for a in e.args:
            if isinstance(a, ast.Starred):
                s = set()
                for o in self.ev(a.value):
                    s |= self.elems(o, None, False)
                args.append(('*', s))
            else:
                args.append(('p', self.ev(a)))
        kwargs = {}
        for k in e.keywords:
            v = self.ev(k.value)
            if k.arg is None:
                kwargs['**'] = v
            else:
                kwargs[k.arg] = v
        # super().__init__(...) and friends are handled through ev_attr -> bm objects
        callees = self.ev_attr(e.func, True) if isinstance(e.func, ast.Attribute) else self.ev(e.func)
        out: Set[Obj] = set()
        for c in callees:
            out |= self.apply(c, args, kwargs, e, key)
        if not callees and isinstance(e.func, ast.Name) and e.func.id == 'super':
            return set()
        return out

    def _record_call(self, key, callee):
        s = self.calls.setdefault(key, set())
        if callee not in s:
            s.add(callee)
            if isinstance(callee, FuncInfo):
                self.callers.setdefault(self._fq(callee), set()).add(key)

    def apply(self, c: Obj, args, kwargs, node: ast.Call, key) -> Set[Obj]:
        pos = [a[1] for a in args if a[0] == 'p']
        star = set()
        for a in args:
            if a[0] == '*':
                star |= a[1]
        if c.kind == 'func':
            fn = c.extra[1]
            self._record_call(key, fn)
            self.bind_call_objs(fn, None, pos, kwargs, node, star)
            return set(self.get(('R', self._fq(fn))))
        if c.kind == 'bm':
            fn, recv = c.extra[1], c.extra[2]
            self._record_call(key, fn)
            self.bind_call_objs(fn, recv, pos, kwargs, node, star)
            return set(self.get(('R', self._fq(fn))))
        if c.kind == 'cls' and c.cls.namedtuple_fields is not None:
            # a NamedTuple is a tuple whose components also have names
            flds = c.cls.namedtuple_fields
            t = self.alloc('tuple', node, tag='nt', extra=('nt', tuple(flds)))
            for i, v in enumerate(pos):
                if v and i < len(flds):
                    self.add(('F', t, ('idx', i)), v)
            for k, v in kwargs.items():
                if k in flds and v:
                    self.add(('F', t, ('idx', flds.index(k))), v)
            self.calls.setdefault(key, set()).add(('new', c.cls.qualname))
            return {t}
        if c.kind == 'cls':
            cls = c.cls
            inst = self.alloc('inst', node, cls=cls)
            init = cls.lookup('__init__')
            if init is not None:
                self._record_call(key, init)
                self.bind_call_objs(init, inst, pos, kwargs, node, star)
            elif cls.dataclass_fields:
                flds = cls.dataclass_fields
                for i, v in enumerate(pos):
                    if v and i < len(flds):
                        self.add(('F', inst, flds[i]), v)
                for k, v in kwargs.items():
                    if k in flds and v:
                        self.add(('F', inst, k), v)
            self.calls.setdefault(key, set()).add(('new', cls.qualname))
            return {inst}
        if c.kind == 'extmod':
            return self.apply_ext(c.extra[1], pos, kwargs, node, key, star)
        if c.kind == 'builtin':
            return self.apply_ext('builtins.' + c.extra[1], pos, kwargs, node, key, star)
        if c.kind == 'extmeth':
            return self.apply_extmeth(c.extra[1], c.extra[2], pos, kwargs, node, key)
        if c.kind == 'ext' and c.extra and c.extra[0] == 'lam' and c.extra[3] is self._cur:
            # a lambda of the function under analysis: bind its parameters (in the enclosing frame) and evaluate
            lam = c.extra[1]
            for i, p_ in enumerate(lam.args.args):
                if i < len(pos) and pos[i]:
                    self.add(('L', c.extra[2], p_.arg), pos[i])
            for k, v in kwargs.items():
                if v and any(p_.arg == k for p_ in lam.args.args):
                    self.add(('L', c.extra[2], k), v)
            return self.ev(lam.body)
        if c.kind in ('param', 'field', 'ext', 'ext_inst', 'inst'):
            # calling an unknown external object (interp1d result, user callback ...)
            if c.kind in ('inst', 'ext_inst') and c.cls is not None:
                m = c.cls.lookup('__call__')
                if m is not None:
                    self._record_call(key, m)
                    self.bind_call_objs(m, c, pos, kwargs, node, star)
                    return set(self.get(('R', self._fq(m))))
            self.ext_calls.setdefault(key, set()).add(f'<call of {c.site}>')
            return {self.alloc('ext', node, tag='callres')}
        return set()

    def bind_call(self, fn: FuncInfo, recv: Optional[Obj], pos, kwargs, node):
        key = (self._fq(self._cur), id(node))
        self._record_call(key, fn)
        self.bind_call_objs(fn, recv, pos, kwargs, node)

    def bind_call_objs(self, fn: FuncInfo, recv: Optional[Obj], pos: List[Set[Obj]], kwargs: Dict[str, Set[Obj]],
                       node, star: Set[Obj] = frozenset()):
        q = self._fq(fn)
        ctx = None
        if fn.name == '__init__' and recv is not None and recv.kind in ('inst', 'list', 'ext') and fn.cls is not None:
            # constructors are analysed per receiver object (object-sensitive), so that the fields of
            # different instances of one class are not conflated
            ctx = q + '#' + str(recv.uid)
            self._ctxs.setdefault(q, set()).add(ctx)
            fq = q
            q = ctx
        names = fn.param_names
        supplied = set()
        i0 = 0
        if recv is not None and names and not fn.is_static:
            self.add(('L', q, names[0]), [recv])
            supplied.add(names[0])
            i0 = 1
        elif fn.cls is not None and fn.is_classmethod and names:
            # C.m(...) / obj.m(...) of a class method: the first parameter is the class
            self.add(('L', q, names[0]), [self.cls_obj(fn.cls)])
            supplied.add(names[0])
            i0 = 1
        elif fn.cls is not None and not fn.is_static and recv is None and names:
            # unbound call C.m(obj, ...): first positional is self
            i0 = 0
        for i, v in enumerate(pos):
            j = i0 + i
            if j < len(names):
                supplied.add(names[j])
                if v:
                    self.add(('L', q, names[j]), v)
            elif fn.node.args.vararg:
                po = self.param_obj(fn, fn.node.args.vararg.arg)
                self.add(('F', po, '[]'), v)
        if star:
            for j in range(i0 + len(pos), len(names)):
                supplied.add(names[j])
                self.add(('L', q, names[j]), star)
        kwnames = set(names) | {p.arg for p in fn.kwonly}
        for k, v in kwargs.items():
            if k == '**':
                continue
            if k in kwnames:
                supplied.add(k)
                if v:
                    self.add(('L', q, k), v)
            elif fn.node.args.kwarg:
                po = self.param_obj(fn, fn.node.args.kwarg.arg)
                self.add(('F', po, '[]'), v)
        if ctx is not None:
            for pname in fn.defaults():
                if pname not in supplied:
                    d = self.get(('D', fq, pname))
                    if d:
                        self.add(('L', q, pname), d)
            self.run_ctx(fn, ctx)

    def run_ctx(self, fn: FuncInfo, vq: str):
        if vq in self._active or len(self._active) > 12:
            return
        self._active.add(vq)
        saved = (self._cur, self._vq, self._default_ctx)
        self._cur, self._vq, self._default_ctx = fn, vq, None
        try:
            self.exec_block(fn.node.body)
        finally:
            self._cur, self._vq, self._default_ctx = saved
            self._active.discard(vq)

    # external functions ------------------------------------------------
    def apply_ext(self, dotted: str, pos, kwargs, node, key, star=frozenset()) -> Set[Obj]:
        f = self._cur
        dotted = _canon(dotted)
        self.ext_calls.setdefault(key, set()).add(dotted)
        allargs = list(pos) + [v for k, v in kwargs.items()]
        if dotted.startswith('builtins.'):
            b = dotted[9:]
            if b in DYNAMIC_BUILTINS:
                note = f'{f.loc(node)}: dynamic builtin {b}() in {f.short}'
                if note not in self.dynamic:
                    self.dynamic.append(note)
                return {self.alloc('ext', node, tag='dyn')}
            if b == 'getattr' and pos:
                out = set()
                for o in pos[0]:
                    for (k, v) in self._fields_of(o):
                        out |= v
                if len(pos) > 2:
                    out |= pos[2]
                return out
            if b in PURE_BUILTINS and b not in ('min', 'max', 'sum'):
                return set()
            if b in ('min', 'max'):
                out = set()
                for a in pos:
                    out |= a
                    for o in a:
                        if o.kind in CONTAINER_KINDS:
                            out |= self.elems(o, None, False)
                return out
            if b == 'sum':
                return {self.alloc('arith', node)}
        if dotted in EXT_INPLACE_FUNCS:
            i = EXT_INPLACE_FUNCS[dotted]
            tgt = set()
            if i is not None and i < len(pos):
                tgt = pos[i]
            if dotted == 'numpy.clip':
                tgt = kwargs.get('out', set())
            if tgt:
                self.mutations.append(Mutation(f, node, 'inplace', dotted, node.args[i] if i is not None and
                                               i < len(node.args) else None, set(tgt), f'{dotted} writes its argument'))
        if 'out' in kwargs and kwargs['out']:
            self.mutations.append(Mutation(f, node, 'inplace', 'out=', None, set(kwargs['out']),
                                           f'{dotted}(out=...) writes its out argument'))
        if dotted in EXT_DEEPCOPY and pos:
            return {self.clone_obj(node, o) for o in pos[0]} or {self.alloc('ext', node)}
        if dotted in EXT_SHALLOW_COPY:
            kind = 'ndarray' if dotted.startswith('numpy.') else \
                {'builtins.list': 'list', 'builtins.tuple': 'tuple', 'builtins.sorted': 'list',
                 'builtins.set': 'set', 'builtins.dict': 'dict', 'builtins.frozenset': 'set',
                 'builtins.reversed': 'list'}.get(dotted, 'ext')
            if dotted == 'copy.copy' and pos:
                out = set()
                for o in pos[0]:
                    k2 = o.kind if o.kind in CONTAINER_KINDS or o.kind == 'ndarray' else \
                        ('inst' if o.kind in ('inst', 'ext_inst') else 'ext')
                    n = self.alloc(k2, node, cls=o.cls, tag='copy')
                    for (kk, v) in self._fields_of(o):
                        self.add(('F', n, kk[2]), v)
                    out.add(n)
                return out or {self.alloc('ext', node)}
            n = self.alloc(kind, node)
            if pos:
                for o in pos[0]:
                    els = self.elems(o, None, False)
                    if els:
                        self.add(('F', n, '[]'), els)
            return {n}
        if dotted == 'builtins.next':
            out = set()
            if pos:
                for o in pos[0]:
                    out |= self.iter_elems({o}, node) if o.kind in ('inst', 'ext_inst') else self.elems(o, None, False)
            for a in pos[1:]:
                out |= a
            return out
        if dotted in ('builtins.iter', 'builtins.enumerate', 'builtins.zip'):
            n = self.alloc('list', node, tag='iter')
            els = set()
            for a in pos:
                for o in a:
                    els |= self.iter_elems({o}, node)
            if dotted == 'builtins.iter':
                if els:
                    self.add(('F', n, '[]'), els)
            else:
                t = self.alloc('tuple', node, tag='ituple')
                if els:
                    self.add(('F', t, '[]'), els)
                self.add(('F', n, '[]'), [t])
            return {n}
        if dotted in EXT_ALIAS:
            out = {self.alloc('ext', node, tag='alias')}
            if pos:
                out |= pos[0]
            return out
        if dotted in EXT_NDARRAY_FRESH:
            dt = kwargs.get('dtype', set())
            if any(o.kind == 'cls' for o in dt) or any(o.kind == 'cls' for a in pos[1:] for o in a):
                # array of repository objects (dtype=Trial, dtype=FunctionValue): behaves like a list
                return {self.alloc('list', node, tag='objarray')}
            return {self.alloc('ndarray', node)}
        if dotted in EXT_CALLBACK:
            res = self.alloc('ext', node, tag='res')
            for i in EXT_CALLBACK[dotted]:
                cbs = pos[i] if i < len(pos) else kwargs.get('fun', kwargs.get('func', set()))
                if dotted in ('builtins.map', 'builtins.filter') and len(pos) > 1:
                    # map(f, it, ...): f is applied to the elements of the iterables and to nothing else
                    for cb in cbs:
                        cargs = [('p', self.iter_elems(a, node) if a else set())
                                 for a in pos[1:]]
                        r = self.apply(cb, cargs, {}, node, key)
                        if dotted == 'builtins.map':
                            self.add(('F', res, '[]'), r)
                            if len(pos) == 2:
                                self.add(('F', res, '<maps>'), pos[1])     # ranges over exactly this iterable
                    if dotted == 'builtins.filter':
                        for o in pos[1]:
                            self.add(("F", res, "[]"), self.iter_elems({o}, node))
                    continue
                arg = self.alloc('ndarray', node, tag='cbarg')
                self.add(('F', res, 'x'), [arg])
                for cb in cbs:
                    r = self.apply(cb, [('p', {arg})], {}, node, key)
                    if dotted in ('builtins.map', 'builtins.filter'):
                        self.add(('F', res, '[]'), r)
            return {res}
        # generic external callable: result may retain references to its arguments
        if dotted in PURE_EXT_FUNCS:
            self.diag_calls.add(key)
            return set()
        if dotted in ('enum.auto', 'enum.unique'):
            return set()            # the value of an Enum member: an immutable constant
        res = self.alloc('ext', node, tag='res', extra=('xcls', EXT_FACTORIES.get(dotted, dotted)))
        if dotted in EXT_CLASS_MODELS or dotted in EXT_FACTORIES:
            return {res}
        for a in allargs:
            keep = {o for o in a if o.kind not in ('arith',)}
            if keep:
                self.add(('F', res, '<args>'), keep)
        if star:
            self.add(('F', res, '<args>'), star)
        return {res}

    def apply_extmeth(self, recv: Obj, name: str, pos, kwargs, node, key) -> Set[Obj]:
        f = self._cur
        self.ext_calls.setdefault(key, set()).add(f'<{recv.kind}>.{name}')
        allargs = list(pos) + list(kwargs.values())
        base_expr = node.func.value if isinstance(node.func, ast.Attribute) else None
        if recv.kind == 'cls' and recv.cls is not None and recv.cls.namedtuple_fields is not None and name == '_make':
            # NT._make(iterable): the named view of the same components
            flds = recv.cls.namedtuple_fields
            t = self.alloc('tuple', node, tag='nt', extra=('nt', tuple(flds)))
            for src in (pos[0] if pos else ()):
                for i in range(len(flds)):
                    got = self.elems(src, i, False)
                    if got:
                        self.add(('F', t, ('idx', i)), got)
            return {t}
        xcls = recv.extra[1] if (recv.kind == 'ext' and recv.extra and recv.extra[0] == 'xcls') else None
        if xcls in EXT_CLASS_MODELS:
            model = EXT_CLASS_MODELS[xcls]
            spec = model.get(name)
            if spec is not None:
                if spec[0] == 'store':            # store(argpos -> field ...)
                    self.mutations.append(Mutation(f, node, 'extcall', name, base_expr, {recv},
                                                   f'{xcls}.{name} changes the queue'))
                    for argi, kw, fld in spec[1]:
                        v = pos[argi] if argi < len(pos) else kwargs.get(kw, set())
                        if v:
                            self.add(('F', recv, fld), v)
                    return set()
                if spec[0] == 'take':             # returns a tuple of stored fields / a stored field
                    if spec[2]:
                        self.mutations.append(Mutation(f, node, 'extcall', name, base_expr, {recv},
                                                       f'{xcls}.{name} changes the queue'))
                    flds = spec[1]
                    if len(flds) == 1:
                        return set(self.get(('F', recv, flds[0])))
                    t = self.alloc('tuple', node, tag='qres')
                    for i, fld in enumerate(flds):
                        v = self.get(('F', recv, fld))
                        if v:
                            self.add(('F', t, ('idx', i)), v)
                    return {t}
                if spec[0] == 'mut':
                    self.mutations.append(Mutation(f, node, 'extcall', name, base_expr, {recv},
                                                   f'{xcls}.{name} changes the queue'))
                    return set()
                if spec[0] == 'pure':
                    if xcls == 'logging.Logger':
                        self.diag_calls.add(key)
                    return set()
        known_type = recv.kind in CONTAINER_KINDS or recv.kind in ('ndarray', 'arith')
        unknown_type = recv.kind in ('param', 'field', 'ext')
        if known_type or (unknown_type and (name in LIST_MUTATORS or name in PURE_METHODS or
                                            name in ALIAS_METHODS or name in COPY_METHODS)):
            if name in LIST_MUTATORS:
                self.mutations.append(Mutation(f, node, 'mutcall', name, base_expr, {recv}))
                if name in STORING_MUTATORS:
                    for i, a in enumerate(allargs):
                        if name == 'insert' and i == 0:
                            continue
                        if name in ('extend', 'update'):
                            for o in a:
                                self.add(('F', recv, '[]'), self.elems(o, None, False))
                        else:
                            if a:
                                self.add(('F', recv, '[]'), a)
                if name in ('pop', 'popitem', 'popleft', 'setdefault'):
                    return self.elems(recv, None, False)
                return set()
            if name in ALIAS_METHODS:
                return {recv, self.alloc('ndarray', node, tag='view')}
            if name in COPY_METHODS:
                kind = recv.kind if recv.kind in CONTAINER_KINDS else 'ndarray'
                if name == 'tolist':
                    kind = 'list'
                n = self.alloc(kind, node, tag='copy')
                els = self.elems(recv, None, False)
                if els:
                    self.add(('F', n, '[]'), els)
                return {n}
            if name == 'get' and recv.kind == 'dict':
                # a dict allocated in the analysed code hands back what was stored in it (or the supplied default)
                els = self.elems(recv, None, False)
                return set(els) | (set(pos[1]) if len(pos) > 1 else set()) | set(kwargs.get('default', ()))
            if name in ('get', 'values', 'items', 'keys', 'item', '__getitem__'):
                return self.elems(recv, None, False) | {self.alloc('ext', node, tag='res')}
            if name not in PURE_METHODS:
                self.unknown_pure_methods.add(f'{recv.kind}.{name}')
            return {self.alloc('arith', node, tag='res')}
        # method of an opaque external object (DEPQ, matplotlib axes, sklearn model, ...):
        # may change the receiver, may retain its arguments, may hand stored things back
        self.mutations.append(Mutation(f, node, 'extcall', name, base_expr, {recv},
                                       'method of an external object (assumed to change only the receiver)'))
        for a in allargs:
            keep = {o for o in a if o.kind != 'arith'}
            if keep:
                self.add(('F', recv, '[]'), keep)
        res = self.alloc('ext', node, tag='res')
        stored = self.elems(recv, None, False) - {recv}
        if stored:
            self.add(('F', res, '[]'), stored)
        return {res} | stored

    # ------------------------------------------------------------------
    # queries
    # ------------------------------------------------------------------
    def callees(self, f: FuncInfo, call: ast.Call) -> Set:
        return self.calls.get((self._fq(f), id(call)), set())

    def internal_callees(self, f: FuncInfo, call: ast.Call) -> List[FuncInfo]:
        return [c for c in self.callees(f, call) if isinstance(c, FuncInfo)]

    def ext_callees(self, f: FuncInfo, call: ast.Call) -> Set[str]:
        return self.ext_calls.get((self._fq(f), id(call)), set())

    def call_graph(self) -> Dict[str, Set[str]]:
        g: Dict[str, Set[str]] = {}
        for (caller, _), cs in self.calls.items():
            for c in cs:
                if isinstance(c, FuncInfo):
                    g.setdefault(caller, set()).add(self._fq(c))
        return g

    def reachable(self, roots: Iterable[FuncInfo], stop=None) -> Set[str]:
        """Qualnames reachable through the call graph (roots included)."""
        g = self.call_graph()
        seen = set()
        todo = [self._fq(r) for r in roots]
        while todo:
            q = todo.pop()
            if q in seen:
                continue
            seen.add(q)
            if stop is not None and stop(q):
                continue
            todo.extend(g.get(q, ()))
        return seen

    def func_by_q(self, q: str) -> Optional[FuncInfo]:
        return self.ix.funcs.get(q)

    def reach_objs(self, roots: Iterable[Obj], max_n: int = 100000) -> Set[Obj]:
        """Objects reachable from roots through fields."""
        seen: Set[Obj] = set()
        todo = list(roots)
        while todo:
            o = todo.pop()
            if o in seen:
                continue
            seen.add(o)
            for k, v in self._fields_of(o):
                for x in v:
                    if x not in seen:
                        todo.append(x)
            if o.kind == 'bm':
                todo.append(o.extra[2])
            if len(seen) > max_n:
                break
        return seen

    def expr_pts(self, f: FuncInfo, e: ast.expr) -> Set[Obj]:
        """Evaluate an expression of f against the solved relation (no growth expected)."""
        saved = (self._cur, self.changed, len(self.mutations), self._vq)
        self._cur = f
        out: Set[Obj] = set()
        try:
            for vq in [self._fq(f)] + sorted(self._ctxs.get(self._fq(f), ())):
                self._vq = vq
                out |= self.ev(e)
            return out
        finally:
            self._cur = saved[0]
            self._vq = saved[3]
            del self.mutations[saved[2]:]

    def local(self, f: FuncInfo, name: str) -> Set[Obj]:
        q = self._fq(f)
        out = set(self.get(('L', q, name)))
        for c in self._ctxs.get(q, ()):
            out |= self.get(('L', c, name))
        return out

    def ret(self, f: FuncInfo) -> Set[Obj]:
        return self.get(('R', self._fq(f)))

    def stats(self) -> Dict[str, int]:
        return {'passes': self.passes, 'pointer_nodes': len(self.pts), 'objects': len(self._objs),
                'mutation_sites': len(self.mutations), 'call_sites': len(self.calls),
                'resolved_internal_edges': sum(1 for cs in self.calls.values() for c in cs if isinstance(c, FuncInfo)),
                'external_call_sites': len(self.ext_calls)}


_EMPTY: Set[Obj] = frozenset()

SCALAR_ANNOTATIONS = {'int', 'float', 'bool', 'str', 'np.double', 'np.int32', 'np.int64', 'np.float64',
                      'numpy.double', 'np.float32', 'complex', 'bytes'}


def _ann_text(a: ast.expr) -> str:
    if isinstance(a, ast.Constant) and isinstance(a.value, str):
        return a.value.strip()
    try:
        return ast.unparse(a)
    except Exception:
        return '?'



def _is_main_guard(t: ast.expr) -> bool:
    return isinstance(t, ast.Compare) and isinstance(t.left, ast.Name) and t.left.id == '__name__' and \
        len(t.comparators) == 1 and isinstance(t.comparators[0], ast.Constant) and \
        t.comparators[0].value == '__main__'


def _const_index(s: ast.expr) -> Optional[int]:
    if isinstance(s, ast.Constant) and isinstance(s.value, int) and not isinstance(s.value, bool) and s.value >= 0:
        return s.value
    return None


_CANON = {'np': 'numpy', 'plt': 'matplotlib.pyplot'}


def _canon(d: str) -> str:
    return d
