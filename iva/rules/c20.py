"""C20 - the configured evolvent density is honoured (DESIGN.md section 3, C20)."""
from __future__ import annotations

import ast

from ..algebra import RF
from ..index import AnalysisError
from ..paths import key_of
from ..report import Ctx
from . import common as C
from . import evo
from .common import attr, var

LEVEL_TEXT = ('Static decision of the def-use chain: SolverParameters stores its evolventDensity argument; the Solver '
              'binds parameters.evolventDensity to the density parameter of the Evolvent it constructs; the Evolvent '
              'stores it in the attribute that bounds both level loops; nobody else writes that attribute; every trial '
              'point the library constructs is an image of that evolvent; the Method and Process of a Solver hold '
              'the Evolvent its constructor built and nobody re-binds them; a table-driven descent keeps len(table) = density; no inner evolvent of another dimension or density answers the queries.')
EXPLANATION = ('The chain parameter -> constructor argument -> attribute -> loop bound is followed on path summaries '
               'and the syntax of the two level loops. That the grid then has 2^m cells per axis is the digit '
               'arithmetic decided (partially) under C07.')
TRUSTED = ['CPython ast', 'iva engine']


def _wired_by_constructor(ctx: Ctx, e, holder_field: str) -> bool:
    """On every path of Solver.__init__ (factories inlined): one Evolvent is constructed, self.evolvent is that
    object, the holder (Method / Process) is constructed with that object in the parameter its constructor stores
    as its evolvent, self.<holder_field> is that holder; and outside constructors nobody stores an `evolvent`
    attribute of a holder or the holder attribute of the Solver."""
    roles = C.roles_of(ctx)
    si = ctx.ix.func('Solver.__init__')
    hcls = ctx.ix.cls({'method': 'Method', 'process': 'Process'}[holder_field])
    hinit = hcls.lookup('__init__')
    if hinit is None:
        return False
    inits = {roles.fq(f) for f in (e.cls.methods['__init__'], hinit)}
    ex = ctx.explorer(inline_ctor=False, inline=lambda f, st: f.name != '__init__' and bool(inits & roles.reach(f)))
    # which constructor parameter becomes the holder's evolvent
    pname = None
    for p in C.normal_paths(ctx.explorer().explore(hinit)):
        v = p.state.heap.get((key_of(var(hinit.param_names[0])), 'evolvent'))
        a = v.single_atom() if isinstance(v, RF) else None
        if isinstance(a, tuple) and a[0] == 'var' and a[1] in hinit.param_names:
            pname = a[1]
    if pname is None:
        return False
    selfk = key_of(var(si.param_names[0]))
    n = 0
    for p in C.normal_paths(ex.explore(si)):
        evs = [ne for ne in C.new_events(p) if ne.d['cls'].is_subclass_of(e.cls)]
        hs = [ne for ne in C.new_events(p) if ne.d['cls'].is_subclass_of(hcls)]
        if len(evs) != 1 or len(hs) != 1:
            return False
        ve, vh = evs[0].d['result'], hs[0].d['result']
        bound = dict(zip(hinit.param_names[1:], hs[0].d['args']))
        bound.update(hs[0].d['kwargs'])
        got = bound.get(pname)
        if got is None or key_of(got) != key_of(ve):
            return False
        if key_of(p.state.heap.get((selfk, 'evolvent'))) != key_of(ve) or \
                key_of(p.state.heap.get((selfk, holder_field))) != key_of(vh):
            return False
        n += 1
    if not n:
        return False
    solver = ctx.ix.cls('Solver')
    for m in roles.mutations():
        if m.kind not in ('attr', 'aug') or m.init_self:
            continue
        if m.field == 'evolvent' and any(o.cls is not None and (o.cls.is_subclass_of(hcls) or o.cls.is_subclass_of(solver))
                                         for o in m.bases):
            return False
        if m.field == holder_field and any(o.cls is not None and o.cls.is_subclass_of(solver) for o in m.bases):
            return False
    return True


def r20_6(ctx: Ctx, e, dens: str, dparam):
    """Nested evolvents.  An Evolvent that answers its queries through another Evolvent it builds itself (a reduced
    curve over the free variables, a coarser helper curve ...) produces the trial coordinates of that other object:
    they lie on the configured grid only if the inner object has the same dimension and density.  In particular an
    inner object of dimension 1 takes the one-dimensional shortcut, which ignores the density altogether."""
    rid = 'R20.6'
    ctx.rule(rid, 'every Evolvent constructed inside the evolvent module itself has the dimension and the density of '
                  'the object that constructs it (expected number of such constructions: 0)')
    init = e.cls.methods['__init__']
    names = init.param_names[1:]
    n_sites = 0
    # instance methods only: a class-method / static / module-level factory builds *the* evolvent for a caller, there
    # is no outer object whose queries the new one would answer (its arguments are checked at the Solver, R20.1)
    for f in [m for m in e.cls.methods.values() if m.kind == 'function' and not m.is_static and
              not m.is_classmethod and m.name != '__init__' or
              (m.kind == 'function' and m.name == '__init__')]:
        if not any(isinstance(c, tuple) and c[0] == 'new' and ctx.ix.classes[c[1]].is_subclass_of(e.cls)
                   for nd in ast.walk(f.node) if isinstance(nd, ast.Call) for c in ctx.pta.callees(f, nd)):
            continue
        ex = ctx.explorer(inline_ctor=False, unroll=1)
        selfv = var(f.param_names[0]) if f.param_names and f.cls is not None else None
        for p in C.normal_paths(ex.explore(f)):
            for ne in C.new_events(p):
                if not ne.d['cls'].is_subclass_of(e.cls):
                    continue
                n_sites += 1
                bound = dict(zip(names, ne.d['args']))
                bound.update(ne.d['kwargs'])
                gotn = bound.get('numberOfFloatVariables')
                gotd = bound.get(dparam) if dparam else None
                okn = selfv is not None and gotn is not None and \
                    C.same_mod_ver(gotn, attr(selfv, e.dim_field))
                okd = selfv is not None and gotd is not None and C.same_mod_ver(gotd, attr(selfv, dens))
                ctx.check(okn and okd, rid, f.short, f.loc(ne.node),
                          'the inner evolvent has the dimension and density of the outer one',
                          f'{f.short} builds an inner Evolvent with dimension '
                          f'{C.fmt(gotn) if gotn is not None else "<default 1>"} and density '
                          f'{C.fmt(gotd) if gotd is not None else "<default>"} and answers queries through it: trial '
                          f'coordinates then lie on the grid of that object (an inner dimension of 1 takes the '
                          f'one-dimensional shortcut, which ignores the density), not on the 2^-m grid of the '
                          f'N-dimensional curve', key=f'{rid}::{f.short}::inner-evolvent')
    ctx.ok(rid, e.cls.name, f'{n_sites} constructions of an Evolvent inside the evolvent module', e.cls.module.relpath)


def check(ctx: Ctx):
    e = evo.evo_of(ctx)
    rid = 'R20.1'
    ctx.rule(rid, 'the Evolvent built by the Solver receives parameters.evolventDensity as its density parameter')
    ctx.rule('R20.2', 'the constructor stores the density; both level loops iterate range(<that attribute>)')
    ctx.rule('R20.3', 'no other writer of the density attribute')
    ctx.rule('R20.7', 'a type test on the density parameter lets numpy integers through (isinstance(d, int) alone '
                      'rejects np.int64)')
    init = e.cls.methods['__init__']
    try:
        dens = e.density_field()
    except AnalysisError as err:
        if getattr(err, 'undecided', False):
            raise
        lp = e.level_loop(e.forward)
        ctx.fail('R20.2', e.forward.short, e.forward.loc(lp),
                 f'the level loop of the forward descent iterates {ast.unparse(lp.iter)}: it is not bounded by an '
                 f'attribute of the evolvent, so the configured density cannot reach it ({err})',
                 key=f'R20.2::{e.forward.short}::level-loop')
        return
    e.report_level_table('R20.2')
    # which constructor parameter is stored in the density attribute?
    ex = ctx.explorer()
    dparam = None
    selfk = key_of(var(init.param_names[0]))

    def param_of(p, v):
        """The constructor parameter v is (directly or as int(param) / operator.index(param)), else None."""
        a = v.single_atom() if isinstance(v, RF) else None
        if isinstance(a, tuple) and a[0] == 'var' and a[1] in init.param_names:
            return a[1]
        ce = C.call_event_of_result(p, v) if v is not None else None
        if ce is not None and ce.d.get('callee') in ('builtins.int', 'operator.index') and len(ce.d['args']) == 1:
            return param_of(p, ce.d['args'][0])
        return None
    ipaths = C.normal_paths(e.explorer(unroll=1).explore(init))
    for p in ipaths:
        got = param_of(p, p.state.heap.get((selfk, dens)))
        if got is not None:
            dparam = got
    ctx.check(dparam is not None, 'R20.2', init.short, init.loc(), f'self.{dens} := constructor parameter {dparam}',
              f'the constructor does not store a parameter in self.{dens}: the density is fixed',
              key=f'R20.2::{init.short}::stores')
    if dparam is not None:
        # paths that store something else (a default): acceptable only as the fall-back for a value the constructor
        # rejects as no density at all - not an integer (the type test must let numpy integers through: np.int64(6)
        # read from an array or a settings file is not an instance of int), None, or not positive
        import re
        pat = re.escape(dparam)
        arg = rf'(?:builtins\.int\()?{pat}\)?'
        for p in ipaths:
            v = p.state.heap.get((selfk, dens))
            if param_of(p, v) is not None:
                continue
            gs = [str(g) for g in p.guards if re.search(rf'\b{pat}\b', str(g))]
            legit, bad = [], []
            for g in gs:
                if g.startswith('not builtins.isinstance('):
                    if "('builtin', 'int')" in g and not re.search(r'numpy\.integer|numbers\.(Integral|Number|Real|Rational)', g):
                        bad.append(g)
                    elif re.search(r"'int'|numpy\.integer|numbers\.", g):
                        legit.append(g)
                elif re.fullmatch(rf'{arg} - 1 < 0|{arg} <= 0|{arg} < 0|{arg} is None|{arg} == None', g):
                    legit.append(g)
            if bad:
                ctx.fail('R20.7', init.short, init.loc(),
                         f'the constructor stores {C.fmt(v)} instead of its parameter {dparam} when `{bad[0][4:]}` is '
                         f'false: a numpy integer (np.int64(6) taken from an array or a settings file) is not an '
                         f'instance of int, so a valid configured density is silently replaced',
                         key=f'R20.7::{init.short}::type-test-rejects-numpy-integers')
            elif not legit:
                ctx.fail('R20.2', init.short, init.loc(),
                         f'on a path of the constructor self.{dens} receives {C.fmt(v)} instead of the parameter {dparam} '
                         f'(conditions on the path: {gs[:3] or "none"}): a configured density is replaced',
                         key=f'R20.2::{init.short}::stores-other-value')
            else:
                ctx.ok('R20.2', init.short, f'fall-back {C.fmt(v)} only for a rejected value ({legit[0]})', init.loc())
    # SolverParameters keeps what it is given
    sp = ctx.ix.cls('SolverParameters').lookup('__init__')
    for p in C.normal_paths(ex.explore(sp)):
        v = p.state.heap.get((key_of(var(sp.param_names[0])), 'evolventDensity'))
        ctx.check(v is not None and key_of(v) == key_of(var('evolventDensity')), 'R20.1', sp.short, sp.loc(),
                  'SolverParameters stores evolventDensity as given',
                  'SolverParameters does not store its evolventDensity argument', key=f'R20.1::{sp.short}::stores')
    si, cons = evo.solver_evolvent_constructions(ctx)
    params = var(si.param_names[2])
    n = 0
    for p, ne in cons:
        if True:
            n += 1
            bound = dict(zip(init.param_names[1:], ne.d['args']))
            bound.update(ne.d['kwargs'])
            got = bound.get(dparam) if dparam else None
            ok = got is not None and key_of(got) == key_of(attr(params, 'evolventDensity'))
            if not ok and got is not None:
                # the effective parameters object of this solver (the argument, or the default object substituted for
                # None): whatever the constructor keeps in one of its own attributes
                sk_ = key_of(var(si.param_names[0]))
                for (bk, fld), v in p.state.heap.items():
                    if bk == sk_ and isinstance(fld, str) and isinstance(v, RF) and \
                            C.strip_versions(key_of(attr(v, 'evolventDensity'))) == C.strip_versions(key_of(got)):
                        ok = True
            ctx.check(ok, rid, si.short, si.loc(ne.node), f'Evolvent({dparam}=parameters.evolventDensity)',
                      f'the Solver builds its Evolvent with {dparam}={C.fmt(got) if got is not None else "<default>"}: '
                      f'SolverParameters.evolventDensity is ignored and the default grid is searched',
                      key=f'{rid}::{si.short}::density-argument')
    ctx.floor(rid, 'Evolvent construction sites in the solver', n, 1)
    # both level loops
    if e.opt('inv', 'descent') is None:
        ctx.note('R20.2: the inverse descent is not recognised; its level count is decided (or declared undecided) '
                 'under C09 - the trial coordinates of the search come from the forward descent only')
    for fn in [f_ for f_ in (e.forward, e.opt('inv', 'descent')) if f_ is not None]:
        lp = e.level_loop(fn)
        it = lp.iter
        if fn is e.forward and e.level_table() is not None:
            continue            # table form: the number of rows is the obligation reported above
        ok = e.loop_bound_attr(fn, lp) == dens and \
            not any(isinstance(x, (ast.Break,)) for b in lp.body for x in ast.walk(b)
                    if not isinstance(b, (ast.For, ast.While)))
        ctx.check(ok, 'R20.2', fn.short, fn.loc(lp), f'level loop is range(self.{dens})',
                  f'the level loop of {fn.short} iterates {ast.unparse(it)}, not range(self.{dens}): the curve is '
                  f'not built to the configured density', key=f'R20.2::{fn.short}::level-loop')
    r20_6(ctx, e, dens, dparam)
    # the object that generates the trial points works with the solver's own evolvent
    ctx.rule('R20.5', 'the Method (and Process) of a Solver hold the Evolvent the Solver constructed with '
                      'parameters.evolventDensity - never one that came from elsewhere (a restored / shared object)')
    # decided on the whole library: a state-restoring entry point that swaps a saved Method / Process in brings the
    # evolvent (and density) that object was saved with
    _ctx_search = ctx
    ctx = ctx.full_view()
    pta = ctx.pta
    solver = ctx.ix.cls('Solver')
    so = pta.inst_ext(solver)
    own_ev = {o for o in pta.read_field(so, 'evolvent') if o.kind == 'inst' and o.cls is e.cls}
    si0 = ctx.ix.func('Solver.__init__')
    n5 = 0
    for holder_field in ('method', 'process'):
        hs = [h for h in pta.read_field(so, holder_field) if h.kind not in ('cls', 'func', 'bm', 'module')]
        n5 += 1 if hs else 0
        # built by the constructor: allocated in Solver.__init__ or in a function the constructor calls (a factory)
        ctor_reach = {q.replace('@setter', '') for q in pta.reachable([si0])} | {si0.qualname}
        bad_h = [h for h in hs if not (h.kind == 'inst' and h.scope == 'func' and h.owner in ctor_reach)]
        foreign = []
        for h in hs:
            if h in bad_h:
                continue
            foreign += [x for x in pta.read_field(h, 'evolvent')
                        if x.kind not in ('cls', 'func', 'bm', 'module') and x not in own_ev]
        if foreign and all(x.kind == 'ext_inst' for x in foreign) and _wired_by_constructor(ctx, e, holder_field):
            # the only other candidate is the placeholder "an Evolvent supplied by a caller from outside" of a factory
            # the constructor goes through (the points-to relation merges the callers of a function); on the paths of
            # the constructor the holder receives exactly the evolvent constructed there, and nobody re-binds it
            foreign = []
        if True:
            h = (bad_h or hs or [None])[0]
            built_here = not bad_h
            ctx.check(built_here and not foreign, 'R20.5', f'Solver.{holder_field}', si0.loc(),
                      f'Solver.{holder_field} is built by the Solver and holds the Solver\'s own evolvent',
                      f'Solver.{holder_field} can be an object that was not built by this Solver\'s constructor '
                      f'({h.describe() if h is not None and bad_h else "-"}; {len(bad_h)} such objects) or can hold an evolvent other than the one constructed with '
                      f'parameters.evolventDensity ({[x.describe() for x in foreign[:2]]}): trial points are then '
                      f'generated on a grid of another density', key=f'R20.5::Solver.{holder_field}::foreign-evolvent')
    ctx.floor('R20.5', 'holders of the evolvent in a Solver', n5, 2)
    ctx = _ctx_search
    # every trial point is an evolvent image (of the solver's evolvent): a trial built from anything else is not
    # on the grid whatever the density
    ctx.rule('R20.4', 'every search item the library constructs is Item(Point(GetImage(t)), t) (= R06.5), re-run here')
    from . import c06
    c06.r06_5_all_items(ctx)
    roles = C.roles_of(ctx)
    for m in roles.attr_writers(dens, e.cls):
        ctx.fail('R20.3', m.func.short, m.loc(), f'the density attribute is rewritten: {m.text()}',
                 key=ctx.key_for('R20.3', m.func, m.node))
    ctx.ok('R20.3', e.cls.name, f'self.{dens} is written only by the constructor', init.loc())
