"""C03 - termination, stop criterion and trial budget (DESIGN.md section 3, C03)."""
from __future__ import annotations

import ast
from fractions import Fraction

from ..algebra import FALSE, INF, NONE, RF, TRUE, Lit, rf_inf, rf_minmax
from ..extfacts import HEAVY_LIBS, evaluated_chains, numpy_stub_names, resolve_chain
from ..index import AnalysisError, FuncInfo, mangle, norm_stmt
from ..paths import TupleVal, atomv, key_of
from ..paths import _is_trivial
from ..report import Ctx
from ..roles import RoleMissing
from . import common as C
from .common import attr, sub, var

LEVEL_TEXT = ('Static decision of the structural necessary conditions of termination, stop criterion and budget: '
              'evaluation/counter pairing and per-iteration accounting on event traces, the stop predicate as a '
              'normalised truth table over two literals, the pre-tested single-step loop shape, accuracy '
              'bookkeeping, a ranking argument (a failed iteration leaves the loop), thresholds of the stop predicate '
              'written by nobody, resolution of every evaluated external symbol, no dead store to a name-mangled attribute from outside its '
              'class, the first-iteration guard left in the in-progress state by state-restoring entry points, and no recursive copy '
              'of linked search items on the path of the solving API; the objective is not run under a numpy error mode of raise.')
EXPLANATION = ('Every syntactic path of the evaluation routine, the iteration driver (loop unrolled <= 2), the stop '
               'routine and the solve driver is abstracted to its event sequence; counters must change exactly once '
               'per evaluation/iteration after the objective returned, the stop routine must return exactly '
               '(accuracy < eps) or (iterations >= limit), the solve loop must test before each single step. All '
               'attribute chains rooted at third-party modules that the interpreter evaluates are resolved against '
               'the installed libraries. Not decided: termination of the user objective, of scipy and of DEPQ.')
TRUSTED = ['CPython ast', 'iva engine', 'installed numpy/scipy/depq (symbol tables read from the libraries)']


def r_link(ctx: Ctx):
    rid = 'R-LINK'
    ctx.rule(rid, 'every evaluated attribute chain rooted at an imported third-party module resolves in the '
                  'installed version')
    stub = numpy_stub_names()
    n = 0
    skipped_heavy = 0
    for m in ctx.ix.modules.values():
        for chain, node in evaluated_chains(m):
            root = chain.split('.')[0]
            if ctx.tier == 'quick' and root in HEAVY_LIBS:
                skipped_heavy += 1
                continue
            n += 1
            ok, how = resolve_chain(chain)
            if ok and root == 'numpy' and stub is not None:
                nm = chain.split('.')[1] if '.' in chain else None
                if nm and nm not in stub:
                    ctx.note(f'{chain}: resolved at run time but absent from numpy/__init__.pyi')
            loc = f'{m.relpath}:{getattr(node, "lineno", 1)}'
            fn = _enclosing(m, node)
            if ok:
                continue
            ctx.fail(rid, fn, loc, f'{chain} does not resolve in the installed libraries ({how}); the statement '
                                   f'raises AttributeError/ImportError when executed',
                     key=f'{rid}::{m.relpath}::{fn}::{chain}')
    ctx.ok(rid, 'iOpt/*', f'{n} evaluated external attribute chains resolved'
           + (f' ({skipped_heavy} chains into matplotlib/sklearn are resolved in the thorough tier)'
              if skipped_heavy else ''), 'iOpt/')
    ctx.floor(rid, 'evaluated external attribute chains', n, 100)


def r_link_private(ctx: Ctx):
    """A store `obj.__name = v` made inside class A is mangled to obj._A__name.  When obj is an instance of another
    class B that has its own private attribute __name (B's code reads obj._B__name) and nobody reads _A__name, the
    store is dead and the attribute it was meant for keeps its old value."""
    rid = 'R-LINK'
    from ..index import mangle
    roles = C.roles_of(ctx)
    read_fields = set()
    for f in ctx.ix.funcs.values():
        if f.kind != 'function':
            continue
        cn = f.cls.name if f.cls is not None else None
        for nd in ast.walk(f.node):
            if isinstance(nd, ast.Attribute) and isinstance(nd.ctx, ast.Load):
                read_fields.add(mangle(cn, nd.attr))
    n = 0
    for m in roles.mutations():
        if m.kind != 'attr' or not isinstance(m.field, str) or m.func.cls is None:
            continue
        t = m.node.targets[0] if isinstance(m.node, ast.Assign) and m.node.targets else getattr(m.node, 'target', None)
        if not isinstance(t, ast.Attribute) or not (t.attr.startswith('__') and not t.attr.endswith('__')):
            continue
        n += 1
        if isinstance(t.value, ast.Name) and m.func.param_names and t.value.id == m.func.param_names[0]:
            continue            # self.__x inside its own class
        if m.field in read_fields:
            continue
        others = [o.cls for o in m.bases if o.cls is not None and o.cls is not m.func.cls and
                  mangle(o.cls.name, t.attr) in read_fields]
        if others:
            ctx.fail(rid, m.func.short, m.loc(),
                     f'{m.text()[:70]} is written inside {m.func.cls.name}, so it sets {m.field}, which nothing '
                     f'reads; the private attribute {mangle(others[0].name, t.attr)} of {others[0].name} that the '
                     f'name suggests keeps its old value (Python name mangling)',
                     key=f'{rid}::{m.func.short}::dead-mangled-store::{t.attr}', detail={'decidable': True})
    ctx.ok(rid, 'iOpt/*', f'{n} stores to name-mangled attributes: none is a dead store shadowing another class\'s '
                          f'private attribute', 'iOpt/')


def restore_typestate(ctx: Ctx, rid: str):
    """Entry points outside the solving API that put trials into the search data (state restoring) must leave the
    first-iteration flag cleared: otherwise the next iteration seeds the search again on top of the loaded trials
    (trial count, accuracy and the record itself are then wrong)."""
    roles = C.roles_of(ctx)
    others = roles.other_entry_points()
    if not others:
        return
    try:
        drv = roles.iter_driver
        sdg = roles.seeding
    except RoleMissing:
        return
    # the flag: attribute of the driver's class tested in the branch that calls the seeding routine
    flag = None
    for nd in ast.walk(drv.node):
        if isinstance(nd, ast.If) and any(isinstance(c, ast.Call) and sdg in ctx.pta.internal_callees(drv, c)
                                          for b in nd.body for c in ast.walk(b)):
            for a in ast.walk(nd.test):
                if isinstance(a, ast.Attribute) and isinstance(a.value, ast.Name) and a.value.id == drv.param_names[0]:
                    from ..index import mangle
                    flag = mangle(drv.cls.name, a.attr)
    if flag is None:
        return
    ins = {roles.fq(f) for f in roles.sd_method('InsertFirstDataItem') + roles.sd_method('InsertDataItem')}
    sdc = ctx.ix.cls('SearchData')
    for ep in others:
        reach = ctx.pta.reachable([ep], stop=None)
        fills = bool(reach & ins)
        item = ctx.ix.cls('SearchDataItem')
        links = {roles.fq(item.lookup(n_)) for n_ in ('SetLeft', 'SetRight') if item.lookup(n_)}
        if reach & links:
            fills = True          # it links items together: it builds (part of) the interval list
        if not fills:
            for m in roles.mutations():
                if roles.fq(m.func) in reach and m.kind == 'mutcall' and m.field in ('append', 'extend', 'insert') and \
                        isinstance(m.base_expr, ast.Attribute) and m.base_expr.attr == '_allTrials':
                    fills = True
        if not fills:
            continue
        clears = [m for m in roles.attr_writers(flag, drv.cls) if roles.fq(m.func) in reach or m.func is ep]
        # the flag is written with False, or with the value that was saved (anything but the literal True)
        ok = any(not (isinstance(getattr(m.node, 'value', None), ast.Constant) and m.node.value.value is True)
                 for m in clears)
        ctx.check(ok, rid, ep.short, ep.loc(),
                  f'{ep.short} fills the search data and clears the first-iteration flag',
                  f'{ep.short} puts trials into the search data but never clears the first-iteration flag '
                  f'{drv.cls.name}.{flag}: the next iteration runs the seeding routine again on top of the loaded '
                  f'trials (the trial count grows past the budget, earlier records are orphaned)',
                  key=f'{rid}::{ep.short}::restore-leaves-first-iteration-flag', detail={'decidable': True})


def _enclosing(m, node) -> str:
    best = '<module>'
    ln = getattr(node, 'lineno', 0)
    for c in ast.walk(m.tree):
        if isinstance(c, (ast.FunctionDef, ast.ClassDef)) and c.lineno <= ln <= (c.end_lineno or c.lineno):
            if isinstance(c, ast.FunctionDef):
                best = c.name
    return best


def trials_field(ctx: Ctx) -> str:
    return 'numberOfGlobalTrials'


def r03_1(ctx: Ctx):
    rid = 'R03.1'
    ctx.rule(rid, 'pairing: on every normal path of the evaluation routine exactly one objective call and exactly '
                  'one trial-counter increment, the increment after the call; no other writer of the counter')
    roles = C.roles_of(ctx)
    try:
        er, tw = roles.eval_routine, roles.task_wrapper
    except RoleMissing as e:
        ctx.fail(rid, f'role {e.role}', 'iOpt/', str(e), key=f'{rid}::role::{e.role}')
        return
    pcs = roles.problem_calcs
    ex = ctx.explorer(inline=lambda f, st: roles.in_tw(f))
    fld = trials_field(ctx)
    n = 0
    for p in C.normal_paths(ex.explore(er)):
        n += 1
        evals = C.call_events(p, among=pcs)
        incs = [e for e in p.events if e.kind == 'store' and e.d['tkind'] == 'attr' and e.d['field'] == fld]
        loc = er.loc(evals[0].node) if evals else er.loc()
        ctx.check(len(evals) == 1, rid, er.short, loc, 'exactly one objective evaluation per call',
                  f'{len(evals)} objective evaluations on one path of the evaluation routine',
                  key=f'{rid}::{er.short}::one-eval')
        ok_inc = len(incs) == 1
        if ok_inc:
            s = incs[0]
            prev = atomv(('attr', key_of(s.d['base']), fld, 0))
            v = s.d['value']
            ok_inc = isinstance(v, RF) and (v - prev).const_value() == 1
        ctx.check(ok_inc, rid, er.short, er.loc(incs[0].node) if incs else er.loc(),
                  'exactly one increment (+1) of the global trial counter per call',
                  'the global trial counter is not incremented exactly once by one per evaluation',
                  key=f'{rid}::{er.short}::one-increment')
        if evals and incs:
            ok_ord = p.events.index(evals[0]) < p.events.index(incs[0])
            ctx.check(ok_ord, rid, er.short, er.loc(incs[0].node), 'the counter is bumped after the objective returned',
                      'the trial counter is bumped before the objective is evaluated (a failing objective would '
                      'still be counted)', key=f'{rid}::{er.short}::increment-after-eval')
    ctx.floor(rid, 'normal paths of the evaluation routine', n, 1)
    sol = ctx.ix.cls('Solution')
    for m in roles.attr_writers(fld, sol):
        if m.func is er:
            continue
        cs = roles.callers_of(m.func)
        if cs and all(c is er for c in cs) and _is_trivial(m.func):
            # a one-statement bump called by the evaluation routine and by nobody else: the path check above saw it
            # (one-statement functions are inlined) and counted it
            continue
        ctx.fail(rid, m.func.short, m.loc(), f'the global trial counter is written outside the evaluation routine: '
                                             f'{m.text()}', key=ctx.key_for(rid, m.func, m.node))


def r03_2(ctx: Ctx):
    rid = 'R03.2'
    ctx.rule(rid, 'who may evaluate: on the global path only the task wrapper dispatches to Problem.Calculate, and '
                  'only the evaluation routine calls the wrapper')
    roles = C.roles_of(ctx)
    try:
        er, tw = roles.eval_routine, roles.task_wrapper
    except RoleMissing as e:
        ctx.fail(rid, f'role {e.role}', 'iOpt/', str(e), key=f'{rid}::role::{e.role}')
        return
    # the role discovery already fails on a second evaluator reachable from the iteration driver (ambiguity);
    # here: the solve driver's own reach, minus refinement and listeners
    sreach = roles.reach(roles.solve_driver)
    refine = roles.reach(roles.refine_driver)
    n = 0
    for e in roles.evaluators:
        q = roles.fq(e)
        if q in sreach and q not in refine and not roles.in_tw(e):
            ctx.fail(rid, e.short, e.loc(), 'an additional caller of Problem.Calculate is reachable from the global '
                                            'search: its evaluations are not counted', key=f'{rid}::{e.short}')
        n += 1
    callers = [c for c in roles.callers_of(tw)]
    bad = [c for c in callers if c is not er]
    for c in bad:
        ctx.fail(rid, c.short, c.loc(), 'the task wrapper is called outside the evaluation routine: uncounted '
                                        'evaluation', key=f'{rid}::{c.short}::calls-wrapper')
    ctx.ok(rid, tw.short, f'{n} callers of Problem.Calculate classified; the wrapper is called only by '
                          f'{er.short}', tw.loc())
    ctx.floor(rid, 'call sites dispatching to Problem.Calculate', n, 2)


def iter_field(ctx: Ctx) -> str:
    return 'iterationsCount'


def r03_3(ctx: Ctx):
    rid = 'R03.3'
    ctx.rule(rid, 'per-iteration accounting: every trip of the iteration loop performs exactly one evaluation and '
                  'advances the iteration counter exactly once (=1 from the initial 0 in the seeding branch, +1 '
                  'otherwise); no other writer')
    roles = C.roles_of(ctx)
    try:
        drv, er, sd = roles.iter_driver, roles.eval_routine, roles.seeding
    except RoleMissing as e:
        ctx.fail(rid, f'role {e.role}', 'iOpt/', str(e), key=f'{rid}::role::{e.role}')
        return
    fld = iter_field(ctx)
    mcls = roles.method_cls
    ex0 = ctx.explorer()
    writers = {roles.fq(m.func) for m in roles.attr_writers(fld, mcls)}

    def inl(f: FuncInfo, st) -> bool:
        if f is er:
            return False
        q = roles.fq(f)
        if q in writers:
            return True
        # inline whatever leads to a writer or to the evaluation routine
        r = roles.reach(f)
        return bool((r & writers) or roles.fq(er) in r) and q not in roles.listener_methods()
    ex = ctx.explorer(inline=inl, max_paths=20000)
    n = 0
    init = mcls.lookup('__init__')
    init_ok = False
    for p in C.normal_paths(ex0.explore(init)):
        v = p.state.heap.get((key_of(var(init.param_names[0])), fld))
        init_ok = isinstance(v, RF) and v.const_value() == 0
    ctx.check(init_ok, rid, 'Method.__init__', init.loc(), 'the iteration counter starts at 0',
              'the iteration counter does not start at 0', key=f'{rid}::Method.__init__::zero')
    C.refuse_peeled_loop(rid, drv)
    C.refuse_comprehension_loop(ctx, rid, drv)
    seen_seed = seen_step = False
    all_loops = {}
    for p in C.normal_paths(ex.explore(drv)):
        # split into trips of the driver's own loops; keep the loop(s) in which evaluations happen
        trips_by_loop, cur = {}, {}
        for e in p.events:
            mine = e.depth == 0 and e.func is drv
            if e.kind == 'iter' and mine:
                cur[e.d['loop']] = []
                trips_by_loop.setdefault(e.d['loop'], []).append(cur[e.d['loop']])
                for ln, lst in cur.items():
                    if ln != e.d['loop'] and lst is not None:
                        lst.append(e)
            elif e.kind == 'loopexit' and mine:
                cur[e.d['loop']] = None
            else:
                for lst in cur.values():
                    if lst is not None:
                        lst.append(e)
        eval_loops = set()
        for ln, ts in trips_by_loop.items():
            if any(e.kind == 'call' and er in e.d['callees'] for t in ts for e in t):
                eval_loops.add(ln)
        all_loops.update(trips_by_loop)
        trips = [t for ln in eval_loops for t in trips_by_loop[ln]]
        outside = [e for e in p.events if e.kind == 'call' and er in e.d['callees'] and not e.d.get('inlined')
                   and not any(e in t for t in trips)]
        for e in outside:
            ctx.fail(rid, drv.short, drv.loc(e.node), 'an evaluation happens outside the iteration loop of the driver',
                     key=f'{rid}::{drv.short}::eval-outside-loop')
        for t in trips:
            n += 1
            evals = [e for e in t if e.kind == 'call' and er in e.d['callees'] and not e.d.get('inlined')]
            incs = [e for e in t if e.kind == 'store' and e.d['tkind'] == 'attr' and e.d['field'] == fld]
            seed = any(e.kind == 'call' and e.d.get('callee') is sd for e in t)
            loc = drv.loc(t[0].node) if t else drv.loc()
            which = 'seeding' if seed else 'regular'
            ctx.check(len(evals) == 1, rid, drv.short, loc, f'{which} trip: exactly one evaluation',
                      f'{which} trip of the iteration loop performs {len(evals)} evaluations (expected exactly 1)',
                      key=f'{rid}::{drv.short}::{which}::one-eval')
            ok = len(incs) == 1
            if seed:
                seen_seed = True
            else:
                seen_step = True
            if ok:
                v = incs[0].d['value']
                if seed:
                    ok = isinstance(v, RF) and v.const_value() == 1
                else:
                    i_inc = p.events.index(incs[0])
                    earlier = [e for e in p.events[:i_inc] if e.kind == 'store' and e.d['tkind'] == 'attr'
                               and e.d['field'] == fld and key_of(e.d['base']) == key_of(incs[0].d['base'])]
                    prev = earlier[-1].d['value'] if earlier else atomv(('attr', key_of(incs[0].d['base']), fld, 0))
                    ok = isinstance(v, RF) and isinstance(prev, RF) and (v - prev).const_value() == 1
            ctx.check(ok, rid, drv.short, loc, f'{which} trip: iteration counter advanced exactly once',
                      f'{which} trip of the iteration loop does not advance the iteration counter exactly once '
                      f'({len(incs)} writes)', key=f'{rid}::{drv.short}::{which}::one-step')
    ctx.floor(rid, 'trips of the iteration loop analysed', n, 3)
    if not (seen_seed and seen_step):
        raise AnalysisError(f'{rid}: seeding/regular branch of the iteration loop not both observed')
    allowed = {roles.fq(sd)}
    for m in roles.attr_writers(fld, mcls):
        v = getattr(m.node, 'value', None)
        if roles.fq(m.func) in roles.global_reach:
            continue        # accounted for by the trips above
        ctx.fail(rid, m.func.short, m.loc(), f'the iteration counter is written off the iteration path: {m.text()}',
                 key=ctx.key_for(rid, m.func, m.node))


def stop_atoms(ctx: Ctx, sr: FuncInfo):
    selfv = var(sr.param_names[0])
    sol = attr(attr(selfv, 'searchData'), 'solution')
    acc = attr(sol, 'solutionAccuracy')
    eps = attr(attr(selfv, 'parameters'), 'eps')
    iters = attr(selfv, iter_field(ctx))
    trials = attr(sol, trials_field(ctx))
    limit = attr(attr(selfv, 'parameters'), 'itersLimit')
    return selfv, acc, eps, iters, trials, limit


def r03_4(ctx: Ctx):
    rid = 'R03.4'
    ctx.rule(rid, 'stop predicate: the stop routine returns exactly (accuracy < eps) or (iterations >= limit) - '
                  'strict on accuracy, non-strict on the budget')
    roles = C.roles_of(ctx)
    try:
        sr = roles.stop_routine
    except RoleMissing as e:
        ctx.fail(rid, f'role {e.role}', 'iOpt/', str(e), key=f'{rid}::role::{e.role}')
        return
    selfv, acc, eps, iters, trials, limit = stop_atoms(ctx, sr)
    A = Lit.cmp('<', acc, eps)
    Bs = [Lit.cmp('>=', iters, limit), Lit.cmp('>=', trials, limit)]
    ex = ctx.explorer()
    n = 0
    for p in C.normal_paths(ex.explore(sr)):
        n += 1
        lits = p.guards
        a = True if C.has_lit(lits, A) else (False if C.has_lit(lits, A.negate()) else None)
        b = None
        for B in Bs:
            if C.has_lit(lits, B):
                b = True
            elif C.has_lit(lits, B.negate()):
                b = False
        if a is True or b is True:
            exp = True
        elif a is False and b is False:
            exp = False
        else:
            exp = None
        got = key_of(p.value)
        gv = True if got == TRUE else (False if got == FALSE else None)
        loc = sr.loc()
        ctx.check(exp is not None and gv is exp, rid, sr.short, loc,
                  f'path with accuracy<eps={a}, iterations>=limit={b} returns {gv}',
                  f'stop routine returns {C.fmt(p.value)} on a path guarded by {[repr(l) for l in lits]}; expected '
                  f'exactly (accuracy < eps) or (iterations >= itersLimit)',
                  key=f'{rid}::{sr.short}::truth-table', detail={'guards': [repr(l) for l in lits]})
    ctx.floor(rid, 'paths of the stop routine', n, 2)


def r03_5(ctx: Ctx):
    rid = 'R03.5'
    ctx.rule(rid, 'loop shape: the solve driver tests the stop routine before every single iteration step and '
                  'leaves the loop as soon as it holds')
    roles = C.roles_of(ctx)
    try:
        sd, sr, drv = roles.solve_driver, roles.stop_routine, roles.iter_driver
    except RoleMissing as e:
        ctx.fail(rid, f'role {e.role}', 'iOpt/', str(e), key=f'{rid}::role::{e.role}')
        return
    ex = ctx.explorer(unroll=2)
    n_steps = 0
    n_paths = 0
    for p in ex.explore(sd):
        if p.outcome == 'raise':
            continue
        n_paths += 1
        # position of the last listener notification loop start: stop calls there are status reports
        evs = p.events
        state = 'untested'      # untested | go | stopped
        last_stop = None
        for e in evs:
            if e.kind == 'call' and sr in e.d['callees'] and C.at_level(e, sd):
                last_stop = e
                state = 'pending'
            elif e.kind == 'guard' and last_stop is not None and state == 'pending':
                l = e.d['lit']
                if l.kind == 'truth' and l.key == key_of(last_stop.d['result']):
                    state = 'stopped' if l.pol else 'go'
            elif e.kind == 'call' and drv in e.d['callees'] and C.at_level(e, sd):
                n_steps += 1
                ok = state == 'go'
                ctx.check(ok, rid, sd.short, sd.loc(e.node),
                          'an iteration step is taken only right after the stop test said "continue"',
                          'an iteration step is taken without a preceding stop test that said "continue" '
                          '(post-tested or untested loop: the search overshoots the criterion)',
                          key=f'{rid}::{sd.short}::pre-tested', detail={'state': state})
                a = e.d['args']
                kw = e.d['kwargs']
                num = a[0] if a else kw.get('number')
                dflt = drv.defaults().get(drv.param_names[1]) if len(drv.param_names) > 1 else None
                dflt_one = isinstance(dflt, ast.Constant) and dflt.value == 1
                ok1 = (num is None and dflt_one) or (isinstance(num, RF) and num.const_value() == 1)
                ctx.check(ok1, rid, sd.short, sd.loc(e.node), 'each trip performs a single iteration',
                          f'the solve loop performs {C.fmt(num)} iterations per stop test: the search can overshoot '
                          f'the stop criterion', key=f'{rid}::{sd.short}::single-step')
                state = 'untested'
    ctx.floor(rid, 'iteration steps on paths of the solve driver', n_steps, 2)


def r03_6(ctx: Ctx):
    rid = 'R03.6'
    ctx.rule(rid, 'accuracy bookkeeping: solutionAccuracy starts at +inf and is only ever min(old.delta, itself), '
                  'old being the interval popped in the same routine')
    roles = C.roles_of(ctx)
    try:
        sel = roles.selection
    except RoleMissing as e:
        ctx.fail(rid, f'role {e.role}', 'iOpt/', str(e), key=f'{rid}::role::{e.role}')
        return
    mcls = roles.method_cls
    sol = ctx.ix.cls('Solution')
    fld = 'solutionAccuracy'
    ex = ctx.explorer()
    init = mcls.lookup('__init__')
    ok = False
    for p in C.normal_paths(ex.explore(init)):
        for s in p.stores():
            if s.d['tkind'] == 'attr' and s.d['field'] == fld:
                ok = isinstance(s.d['value'], RF) and s.d['value'].equals(rf_inf())
    ctx.check(ok, rid, 'Method.__init__', init.loc(), 'accuracy starts at +inf',
              'the reported accuracy does not start at +inf', key=f'{rid}::Method.__init__::inf')
    pops = roles.sd_method('GetDataItemWithMaxGlobalR')
    n = 0
    for p in C.normal_paths(ex.explore(sel)):
        sts = [s for s in p.stores() if s.d['tkind'] == 'attr' and s.d['field'] == fld]
        pe = C.call_events(p, among=pops)
        if not pe:
            continue
        n += 1
        old = pe[0].d['result']
        ok = len(sts) == 1
        if ok:
            s = sts[0]
            prev = atomv(('attr', key_of(s.d['base']), fld, 0))
            exp = rf_minmax('min', [attr(old, 'delta'), prev])
            v = s.d['value']
            ok = isinstance(v, RF) and v.equals(exp) and p.events.index(pe[0]) < p.events.index(s)
        ctx.check(ok, rid, sel.short, sel.loc(sts[0].node) if sts else sel.loc(),
                  'accuracy := min(length of the chosen interval, accuracy)',
                  'the reported accuracy is not updated as min(length of the popped interval, previous accuracy)',
                  key=f'{rid}::{sel.short}::min-delta')
    ctx.floor(rid, 'paths of the selection routine', n, 1)
    allowed = {roles.fq(sel), roles.fq(init)}
    for m in roles.attr_writers(fld, sol):
        q = roles.fq(m.func)
        if q in allowed or m.func.is_setter:
            # the property setter is the conduit; its call sites are the stores found above
            continue
        ctx.fail(rid, m.func.short, m.loc(), f'the reported accuracy is written elsewhere: {m.text()}',
                 key=ctx.key_for(rid, m.func, m.node))
    # call sites of the setter
    setter = mcls.lookup_setter('min_delta')
    if setter is not None:
        for (caller, _nid) in ctx.pta.callers.get(roles.fq(setter), ()):
            if caller not in allowed:
                f = ctx.ix.funcs.get(caller)
                ctx.fail(rid, f.short if f else caller, f.loc() if f else '',
                         'min_delta is assigned outside the selection routine and the constructor',
                         key=f'{rid}::{caller}::min_delta-writer')


KNOWN_WHILE = {
    # (function short name) -> reason the loop terminates
    'Process.Solve': 'ranking itersLimit - iterationsCount (R03.3/R03.4/R03.5)',
    'SearchDataDualQueue.GetDataItemWithMaxGlobalR': 'each trip pops one entry; refill happens only when empty and '
                                                     'inserts current keys, so the next pop is current',
    'SearchDataDualQueue.GetDataItemWithMaxLocalR': 'same lazy-invalidation loop for the local queue',
}


def classify_while(node: ast.While):
    """('ok' | 'nonterminating' | 'undecided', reason) from the shape of the loop alone."""
    test = node.test
    body_nodes = [n for b in node.body for n in ast.walk(b)]
    exits = [n for n in body_nodes if isinstance(n, (ast.Break, ast.Return, ast.Raise))]
    const_true = isinstance(test, ast.Constant) and bool(test.value)
    if const_true:
        if not exits:
            return 'nonterminating', 'constant-true test and no break/return/raise in the body'
        return 'undecided', 'exit only through break/return'
    roots = set()
    for n in ast.walk(test):
        if isinstance(n, ast.Name):
            roots.add(n.id)
    assigned = set()
    for n in body_nodes:
        if isinstance(n, ast.Name) and isinstance(n.ctx, ast.Store):
            assigned.add(n.id)
        if isinstance(n, (ast.Attribute, ast.Subscript)) and isinstance(n.ctx, ast.Store):
            r = n
            while isinstance(r, (ast.Attribute, ast.Subscript)):
                r = r.value
            if isinstance(r, ast.Name):
                assigned.add(r.id)
    calls = [n for n in body_nodes if isinstance(n, ast.Call)] + [n for n in ast.walk(test) if isinstance(n, ast.Call)]
    if not (roots & assigned) and not calls and not exits:
        return 'nonterminating', 'nothing the test reads is changed in the body'
    # linked traversal: v is not None ... v = <v-expr>.GetLeft()/GetRight()/.next
    for n in ast.walk(test):
        if isinstance(n, ast.Compare) and isinstance(n.left, ast.Name) and len(n.ops) == 1 and \
                isinstance(n.ops[0], ast.IsNot) and isinstance(n.comparators[0], ast.Constant) and \
                n.comparators[0].value is None:
            v = n.left.id
            for b in node.body:
                for a in ast.walk(b):
                    if isinstance(a, ast.Assign) and any(isinstance(t, ast.Name) and t.id == v for t in a.targets):
                        src = {x.id for x in ast.walk(a.value) if isinstance(x, ast.Name)}
                        nm = {x.func.attr for x in ast.walk(a.value) if isinstance(x, ast.Call)
                              and isinstance(x.func, ast.Attribute)} | \
                             {x.attr for x in ast.walk(a.value) if isinstance(x, ast.Attribute)}
                        if nm & {'GetLeft', 'GetRight'} and (v in src or src & assigned):
                            return 'ok', f'neighbour-link traversal of {v} (finite: the links are acyclic, C06)'
    # counter
    for n in ast.walk(test):
        if isinstance(n, ast.Compare) and len(n.ops) == 1 and isinstance(n.ops[0], (ast.Lt, ast.LtE, ast.Gt, ast.GtE)):
            for side in (n.left, n.comparators[0]):
                if isinstance(side, ast.Name):
                    for a in body_nodes:
                        if isinstance(a, ast.AugAssign) and isinstance(a.target, ast.Name) and a.target.id == side.id \
                                and isinstance(a.op, (ast.Add, ast.Sub)) and isinstance(a.value, ast.Constant):
                            return 'ok', f'counter {side.id} moves by a constant every trip'
    return 'undecided', 'shape not recognised'


def r03_7(ctx: Ctx):
    rid = 'R03.7'
    ctx.rule(rid, 'ranking: the only unbounded loop reachable from the global search is the solve loop itself, '
                  'whose ranking function itersLimit - iterationsCount decreases on every trip')
    roles = C.roles_of(ctx)
    sd = roles.solve_driver
    reach = roles.reach(sd)
    pcs = {roles.fq(p) for p in roles.problem_calcs}
    # code below Problem.Calculate is the user's / the benchmark's
    below = set()
    for q in pcs:
        below |= ctx.pta.reachable([ctx.ix.funcs[q]])
    n = 0
    for q in sorted(reach - below):
        f = ctx.ix.funcs.get(q)
        if f is None or f.kind != 'function':
            continue
        for node in ast.walk(f.node):
            if isinstance(node, ast.While):
                n += 1
                if f.short in KNOWN_WHILE:
                    ctx.ok(rid, f.short, f'while loop classified: {KNOWN_WHILE[f.short]}', f.loc(node))
                    continue
                verdict, why = classify_while(node)
                if verdict == 'ok':
                    ctx.ok(rid, f.short, f'while loop classified: {why}', f.loc(node))
                elif verdict == 'nonterminating':
                    ctx.fail(rid, f.short, f.loc(node),
                             f'while {norm_stmt(node.test)} reachable from Solve cannot terminate once entered: {why}',
                             key=f'{rid}::{f.short}::while {norm_stmt(node.test)}')
                else:
                    ctx.note(f'{f.loc(node)}: termination of `while {norm_stmt(node.test)}` in {f.short} is not '
                             f'decided ({why})')
                    ctx.extra_coverage.setdefault('while_loops_not_decided', []).append(f'{f.short}: {norm_stmt(node.test)}')
    ctx.floor(rid, 'while loops reachable from the solve driver', n, 1)
    # recursion on the global path
    g = ctx.pta.call_graph()
    scope = reach - below

    def cyc(start):
        seen, todo = set(), list(g.get(start, ()))
        while todo:
            x = todo.pop()
            if x == start:
                return True
            if x in seen or x not in scope:
                continue
            seen.add(x)
            todo.extend(g.get(x, ()))
        return False
    for q in sorted(scope):
        if cyc(q):
            f = ctx.ix.funcs.get(q)
            ctx.fail(rid, f.short, f.loc(), 'recursion on the global search path', key=f'{rid}::{f.short}::recursion')
    ctx.ok(rid, sd.short, 'no recursion among the functions reachable from the solve driver', sd.loc())


def r03_7_failed_iteration_leaves_loop(ctx: Ctx):
    """Ranking argument, exceptional part: an iteration that ends with an exception does not advance the iteration
    counter, so the loop may not go round again after it - every path on which the objective raises and is caught
    must reach the end of the solve driver without another global-search evaluation."""
    rid = 'R03.7'
    roles = C.roles_of(ctx)
    try:
        sd, tw = roles.solve_driver, roles.task_wrapper
    except RoleMissing as e:
        ctx.fail(rid, f'role {e.role}', 'iOpt/', str(e), key=f'{rid}::role::{e.role}')
        return
    from .c16 import explore_within_budget
    pcs = {roles.fq(p) for p in roles.problem_calcs}
    n = 0
    for p in explore_within_budget(ctx, sd, rid):
        fails = [i for i, e in enumerate(p.events) if e.kind == 'raise' and e.d.get('implicit')]
        if not fails or p.outcome == 'raise':
            continue          # no failure, or the exception leaves Solve (it terminates by raising)
        n += 1
        i0 = fails[0]
        later = [e for e in p.events[i0:] if e.kind == 'call' and roles.in_tw(e.func) and
                 any(isinstance(c, FuncInfo) and roles.fq(c) in pcs for c in e.d['callees'])]
        catches = [e for e in p.events[i0:] if e.kind == 'catch']
        where = sd.loc(catches[0].node) if catches else sd.loc()
        ctx.check(not later, rid, sd.short, where,
                  'an iteration that failed is not followed by another one (the loop is left)',
                  'after an exception in an iteration the loop of the solve driver goes round again: the failed '
                  'iteration advanced neither the iteration counter nor the accuracy, so nothing bounds the number of '
                  'further objective evaluations (Solve need not terminate and the budget can be exceeded)',
                  key=f'{rid}::{sd.short}::failed-iteration-continues')
    ctx.floor(rid, 'caught-failure paths of the solve driver', n, 1)


def r03_8(ctx: Ctx):
    """The thresholds the stop predicate compares with are the caller's: nothing in the library rewrites
    SolverParameters.eps / itersLimit (the stop routine reads them through the shared parameters object, so a
    write anywhere - the Solver constructor included - moves the stopping moment away from the requested one)."""
    rid = 'R03.8'
    ctx.rule(rid, 'the thresholds read by the stop predicate (parameters.eps, parameters.itersLimit) are written by '
                  'nobody but the SolverParameters constructor')
    roles = C.roles_of(ctx)
    pc = ctx.ix.cls('SolverParameters')
    try:
        sr = roles.stop_routine
    except RoleMissing as e:
        ctx.fail(rid, f'role {e.role}', 'iOpt/', str(e), key=f'{rid}::role::{e.role}')
        return
    # which parameter fields does the stop routine read?
    read = set()
    for srf in roles.helpers_of(sr):            # the stop routine and the named predicates it was split into
        for nd in ast.walk(srf.node):
            if isinstance(nd, ast.Attribute) and isinstance(nd.ctx, ast.Load):
                objs = ctx.pta.expr_pts(srf, nd.value)
                if any(o.cls is not None and o.cls.is_subclass_of(pc) for o in objs):
                    read.add(nd.attr)
    ctx.floor(rid, 'parameter fields read by the stop routine', len(read), 2)
    n = 0
    for fld in sorted(read):
        ws = roles.attr_writers(fld, pc)
        n += 1
        for m in ws:
            ctx.fail(rid, m.func.short, m.loc(),
                     f'{m.text()[:70]} rewrites SolverParameters.{fld}, which the stop predicate reads: the search no '
                     f'longer stops at the accuracy / budget the caller requested (and the shared parameters object '
                     f'carries the change to other solvers)', key=f'{rid}::{m.func.short}::writes::{fld}')
        if not ws:
            ctx.ok(rid, f'SolverParameters.{fld}', 'written only by the SolverParameters constructor', pc.lookup('__init__').loc())


def r03_10(ctx: Ctx):
    """The search stops when the criterion holds and not before.  Solve treats any exception of an iteration as the end
    of the search; running the objective under a floating-point error mode of 'raise' manufactures such exceptions
    for objectives whose values are perfectly finite (exp overflows to inf inside 1/(1+exp(..)), a division by zero
    whose result is absorbed): the search ends after a few trials with the accuracy far above eps."""
    rid = 'R03.10'
    ctx.rule(rid, 'the objective is not run under a numpy error mode of "raise" (np.errstate / np.seterr with a '
                  '"raise" argument around the objective call on the search path)')
    from . import c16
    n = 0
    try:
        blocks = c16.with_blocks_around_objective(ctx)
    except RoleMissing as e:
        ctx.note(f'{rid}: not applied ({e}); the role rules report it')
        return
    for f, nd in blocks:
        for item in nd.items:
            ce = item.context_expr
            n += 1
            if isinstance(ce, ast.Call) and any(d in ('numpy.errstate',) for d in ctx.pta.ext_callees(f, ce)):
                modes = [k for k in ce.keywords if isinstance(k.value, ast.Constant) and k.value.value == 'raise']
                if modes:
                    ctx.fail(rid, f.short, f.loc(nd),
                             f'`with {ast.unparse(ce)[:60]}` encloses the objective call: a floating-point event inside an '
                             f'objective whose value is finite now raises FloatingPointError, Solve takes it for a failed '
                             f'iteration and returns long before the accuracy criterion holds',
                             key=f'{rid}::{f.short}::errstate-raise')
    if not any(x.rule == rid for x in ctx.findings):
        ctx.ok(rid, 'evaluation chain', f'{n} context managers enclose the objective call: none switches numpy to "raise"',
               'iOpt/method')


def r03_9(ctx: Ctx):
    """Recursive traversals of the search data.  copy.deepcopy / pickle of a stored search item follow its neighbour
    links recursively: the recursion depth grows with the number of trials, and the RecursionError (an exception like
    any other for the handler of Solve) ends the search long before the stop criterion holds."""
    rid = 'R03.9'
    ctx.rule(rid, 'no deepcopy / pickle of an object from which linked search items are reachable on the path of the '
                  'solving API (recursion depth proportional to the number of trials; the RecursionError is swallowed by '
                  'the failure handler and the search stops early)')
    roles = C.roles_of(ctx)
    pta = ctx.pta
    item = ctx.ix.cls('SearchDataItem')
    api = [roles.api(n_) for n_ in ('Solve', 'DoGlobalIteration', 'DoLocalRefinement', 'GetResults')]
    reach = pta.reachable([a for a in api if a is not None], stop=None)
    links = [mangle(item.name, n_) for n_ in ('__leftPoint', '__rightPoint')]
    n = 0
    for (caller, nid), names in sorted(pta.ext_calls.items(), key=lambda kv: (kv[0][0], kv[0][1])):
        if not (names & {'copy.deepcopy', 'pickle.dumps', 'pickle.dump', 'copy.copy.deepcopy'}):
            continue
        if caller not in reach:
            continue
        f = ctx.ix.funcs.get(caller.replace('@setter', ''))
        node = pta.call_nodes.get((caller, nid))
        if f is None or node is None or not node.args:
            continue
        n += 1
        # an object created on the same path (the new item before it is inserted) has no neighbours yet, whatever
        # the allocation-site abstraction merges it with
        try:
            paths = C.normal_paths(ctx.explorer().explore(f))
        except AnalysisError:
            paths = []
        fresh_only = bool(paths)
        for p in paths:
            for ev in p.events:
                if ev.kind == 'call' and ev.node is node:
                    a0 = ev.d['args'][0] if ev.d['args'] else None
                    at = a0.single_atom() if isinstance(a0, RF) else None
                    if not (isinstance(at, tuple) and at and at[0] == 'fresh'):
                        fresh_only = False
        if fresh_only:
            ctx.ok(rid, f.short, f'{ast.unparse(node)[:50]}: copies an object created on the same path', f.loc(node))
            continue
        roots = pta.expr_pts(f, node.args[0])
        linked = []
        for o in pta.reach_objs(roots, max_n=20000):
            if o.cls is not None and o.cls.is_subclass_of(item) and \
                    any(x.cls is not None and x.cls.is_subclass_of(item) for fld in links for x in pta.read_field(o, fld)):
                linked.append(o)
        # the item under construction copied before it is linked is the clone's *source*: its own links stay None
        ctx.check(not linked, rid, f.short, f.loc(node),
                  f'{ast.unparse(node)[:50]}: no linked search item is reachable from the copied object',
                  f'{ast.unparse(node)[:60]} copies an object from which linked search items are reachable '
                  f'({linked[0].describe() if linked else ""}): the copy follows the neighbour links recursively, so '
                  f'its depth grows with the number of trials; beyond the recursion limit the RecursionError is caught by '
                  f'Solve as a failure and the search ends before the stop criterion holds',
                  key=ctx.key_for(rid, f, node))
    ctx.floor(rid, 'deepcopy / pickle call sites on the path of the solving API', n, 1)


def check(ctx: Ctx):
    if C.want(ctx, 'R03.9'):
        r03_9(ctx)
    if C.want(ctx, 'R03.10'):
        r03_10(ctx)
    if C.want(ctx, 'R-LINK'):
        r_link(ctx.full_view())
        r_link_private(ctx.full_view())
    if C.want(ctx, 'R03.3'):
        restore_typestate(ctx.full_view(), 'R03.3')
    cands = C.roles_of(ctx).task_wrapper_candidates()
    if len(cands) > 1:
        ctx.rule('R03.2', 'who may evaluate: on the global path only the task wrapper dispatches to Problem.Calculate')
        for c in cands:
            ctx.fail('R03.2', c.short, c.loc(),
                     f'{len(cands)} routines reachable from the iteration driver dispatch to Problem.Calculate '
                     f'({[x.short for x in cands]}): evaluations made by all but one of them are not counted, not '
                     f'recorded and not bounded by the budget', key=f'R03.2::{c.short}::evaluator')
        return
    for rid, fn in (('R03.1', r03_1), ('R03.2', r03_2), ('R03.3', r03_3), ('R03.4', r03_4),
                    ('R03.5', r03_5), ('R03.6', r03_6), ('R03.7', r03_7), ('R03.8', r03_8)):
        if C.want(ctx, rid):
            fn(ctx)
    if C.want(ctx, 'R03.7'):
        r03_7_failed_iteration_leaves_loop(ctx)
    ctx.assume('the user objective, scipy.optimize.minimize and DEPQ operations terminate')
    ctx.assume('iteration over the search data is finite (acyclic links: C06)')
