"""C13 - listener contract: complete, ordered, non-interfering notification (DESIGN.md section 3, C13)."""
from __future__ import annotations

import ast
from typing import Dict, List, Optional, Set

from ..algebra import NONE, RF, Lit
from ..index import AnalysisError, ClassInfo, FuncInfo
from ..paths import Event, TupleVal, atomv, key_of
from ..report import Ctx
from ..roles import RoleMissing
from . import common as C
from . import effects as E
from .c04 import driver_explorer
from .common import attr, var

LEVEL_TEXT = ('Static decision of the structural necessary conditions of the listener contract: every callback call '
              'site agrees in arity/keywords with the base class and every shipped override; attribute chains used '
              'on callback arguments exist on the classes actually passed; the notification protocol (once before '
              'the first trial, once per DoGlobalIteration call with exactly that call\'s new trials, once at stop '
              'with the current result, for every listener, on every returning path) holds on the event traces of the drivers; Process uses '
              'the very list AddListener appends to; the console report wires each label to its quantity; no shipped '
              'callback can write an object of the solver state; AddListener registers the listener object itself; '
              'on the exceptional exit of the iteration driver no notification carries the item of the failed trip.')
EXPLANATION = ('Signatures and attribute uses are resolved through the points-to relation (which listener classes can '
               'be in the list, which objects reach each callback parameter). The protocol is decided on path '
               'summaries of DoGlobalIteration and Solve. Non-interference is an effect analysis: the union of '
               'mutation sites reachable from each shipped callback is intersected with the objects reachable from '
               'the solver\'s components. Covers every subset of overridden callbacks and every listener combination '
               'because the rules quantify over the class hierarchy, not over runs.')
TRUSTED = ['CPython ast', 'iva engine', 'matplotlib / sklearn / scipy.interpolate do not mutate arrays passed to them']
CALLBACKS = ('BeforeMethodStart', 'OnEndIteration', 'OnMethodStop')


def listener_classes(ctx: Ctx) -> List[ClassInfo]:
    base = ctx.ix.cls('Listener')
    return [base] + base.all_subclasses()


def callback_sites(ctx: Ctx):
    """(caller, call node, callback name, callees) for calls that may dispatch to a Listener method."""
    roles = C.roles_of(ctx)
    lst = roles.listener_methods()
    out = []
    for (caller, nid), callees in ctx.pta.calls.items():
        hits = [c for c in callees if isinstance(c, FuncInfo) and roles.fq(c) in lst]
        if not hits:
            continue
        f = ctx.ix.funcs.get(caller)
        if f is None or roles.fq(f) in lst:
            continue
        node = ctx.pta.call_nodes[(caller, nid)]
        out.append((f, node, hits))
    return out


def accepts(fn: FuncInfo, npos: int, kws: List[str]) -> Optional[str]:
    a = fn.node.args
    params = fn.param_names[1:]           # without self
    ndefault = len(a.defaults)
    required = params[:len(params) - ndefault] if ndefault <= len(params) else []
    if npos > len(params) and a.vararg is None:
        return f'takes {len(params)} positional argument(s) but the call site passes {npos}'
    bound = set(params[:npos])
    for k in kws:
        if k in bound:
            return f'gets multiple values for {k}'
        if k not in params and k not in [x.arg for x in a.kwonlyargs] and a.kwarg is None:
            return f'has no parameter {k}'
        bound.add(k)
    missing = [p for p in required if p not in bound]
    if missing:
        return f'is not given the required argument(s) {missing}'
    return None


def r13_1(ctx: Ctx):
    rid = 'R13.1'
    ctx.rule(rid, 'signature agreement: at every listener call site the base Listener method and every override '
                  'accept the arguments passed')
    sites = callback_sites(ctx)
    ctx.floor(rid, 'listener call sites in the drivers', len(sites), 3)
    classes = listener_classes(ctx)
    for f, node, hits in sites:
        name = node.func.attr if isinstance(node.func, ast.Attribute) else '?'
        npos = len(node.args)
        kws = [k.arg for k in node.keywords if k.arg]
        cands = []
        for c in classes:
            m = c.lookup(name)
            if m is not None and m not in cands:
                cands.append(m)
        ctx.check(bool(cands), rid, f.short, f.loc(node), f'callback {name} exists on the base class',
                  f'{name} is called on listeners but the base Listener class does not define it: a listener that '
                  f'does not override it raises AttributeError', key=f'{rid}::{f.short}::{name}::exists')
        base = ctx.ix.cls('Listener')
        ctx.check(name in base.methods, rid, 'Listener', f.loc(node), f'the base class defines {name}',
                  f'the base Listener class does not define {name}', key=f'{rid}::Listener::{name}::defined')
        for m in cands:
            why = accepts(m, npos, kws)
            ctx.check(why is None, rid, m.short, m.loc(),
                      f'{m.short} accepts the {npos} argument(s) passed by {f.short}',
                      f'{m.short} {why} (call at {f.loc(node)}): a listener inheriting this method makes '
                      f'{f.short} raise TypeError', key=f'{rid}::{m.short}::arity')


def r13_2(ctx: Ctx):
    rid = 'R13.2'
    ctx.rule(rid, 'duck typing: attribute chains used by shipped listeners/painters/console on solver objects exist '
                  'on the classes actually passed')
    roles = C.roles_of(ctx)
    pta = ctx.pta
    roots = []
    for c in listener_classes(ctx):
        roots += [m for m in c.methods.values()]
    reach = pta.reachable(roots)
    out_mods = ('iOpt.method.listener', 'iOpt.output_system')
    n = 0
    for q in sorted(reach):
        f = ctx.ix.funcs.get(q)
        if f is None or f.kind != 'function' or not f.module.name.startswith(out_mods):
            continue
        for node in ast.walk(f.node):
            if not isinstance(node, ast.Attribute) or not isinstance(node.ctx, ast.Load):
                continue
            objs = [o for o in pta.expr_pts(f, node.value)
                    if o.kind in ('inst', 'ext_inst') and o.cls is not None
                    and not o.cls.module.name.startswith(out_mods)]
            if not objs:
                continue
            n += 1
            ok = False
            for o in objs:
                if o.cls.lookup(node.attr) is not None or o.cls.lookup_setter(node.attr) is not None:
                    ok = True
                    break
                fld = node.attr
                if fld.startswith('__') and not fld.endswith('__') and f.cls is not None:
                    fld = '_' + f.cls.name.lstrip('_') + fld
                if pta.get(('F', o, fld)):
                    ok = True
                    break
                # declared in any constructor of the class hierarchy
                for cc in o.cls.mro() + o.cls.all_subclasses():
                    init = cc.methods.get('__init__')
                    if init is not None and any(isinstance(x, ast.Attribute) and isinstance(x.ctx, ast.Store) and
                                                x.attr == node.attr for x in ast.walk(init.node)):
                        ok = True
                        break
                if ok:
                    break
            ctx.check(ok, rid, f.short, f.loc(node),
                      f'.{node.attr} exists on {sorted({o.cls.name for o in objs})}',
                      f'{f.short} uses .{node.attr} on an object of class {sorted({o.cls.name for o in objs})}, which '
                      f'has no such attribute or method: the callback raises AttributeError',
                      key=f'{rid}::{f.short}::{node.attr}')
    ctx.floor(rid, 'attribute uses on solver objects in listener/painter/console code', n, 40)


def rule_index_bound_provenance(ctx: Ctx, rid: str):
    """A shipped listener object keeps what it learned in BeforeMethodStart (the problem, the parameters) as its own
    state; the trials it is handed later come from whichever solver calls it.  For one listener per solver the two
    agree.  Attached to two solvers the state is that of the solver that started last - harmless while it is only
    printed, but an index loop over *argument* data bounded by a size taken from the *listener state* runs past the end
    of the other solver's points: the callback raises IndexError, Solve swallows it, and merely starting a second solver
    has cut the first one short."""
    ctx.rule(rid, 'in the code of the shipped callbacks an index loop over data that arrives as a callback argument is '
                  'bounded by that data (len / shape) or by another part of the same argument - never by a size read '
                  'from the state the listener object kept from an earlier call')
    roles = C.roles_of(ctx)
    lst = roles.listener_methods()
    base = ctx.ix.find_cls('Listener')
    cb_names = set(base.methods) if base is not None else set()
    funcs = {}
    for q in sorted(lst):
        f = ctx.ix.funcs.get(q)
        if f is None or f.kind != 'function' or f.name not in cb_names or f.cls is base:
            continue
        for r in ctx.pta.reachable([f], stop=None):
            g = ctx.ix.funcs.get(r)
            if g is not None and g.kind == 'function' and isinstance(g.node, ast.FunctionDef) and \
                    g.module.name.startswith(('iOpt.output_system', 'iOpt.method.listener')):
                funcs[r] = g
    callbacks = {q for q in lst if q in funcs and funcs[q].name in cb_names}

    def single_assign(fn, name):
        found = []
        for nd in ast.walk(fn.node):
            if isinstance(nd, ast.Assign) and len(nd.targets) == 1 and isinstance(nd.targets[0], ast.Name) and \
                    nd.targets[0].id == name:
                found.append(('v', nd.value))
            elif isinstance(nd, (ast.For, ast.comprehension)) and isinstance(nd.target, ast.Name) and \
                    nd.target.id == name:
                found.append(('i', nd.iter))
        return found[0] if len(found) == 1 else None

    def root_of(fn, e, depth=0):
        """('self', attr) | ('param', name) | None"""
        selfn = fn.param_names[0] if fn.cls is not None and fn.param_names and not fn.is_static else None
        while True:
            if isinstance(e, ast.Call) and isinstance(e.func, ast.Name) and e.func.id in ('len', 'list', 'tuple', 'enumerate',
                                                                                         'reversed', 'sorted') and e.args:
                e = e.args[0]
            elif isinstance(e, ast.Call) and isinstance(e.func, ast.Attribute):
                e = e.func.value
            elif isinstance(e, ast.Subscript):
                e = e.value
            elif isinstance(e, ast.Attribute):
                if isinstance(e.value, ast.Name) and e.value.id == selfn:
                    return ('self', e.attr)
                e = e.value
            else:
                break
        if isinstance(e, ast.Name):
            if e.id == selfn:
                return ('self', '')
            if e.id in fn.param_names:
                return ('param', e.id)
            sa = single_assign(fn, e.id)
            if sa is not None and depth < 4:
                return root_of(fn, sa[1], depth + 1)
        return None

    def up(fn, root, depth=0):
        """Follow a parameter root to the callers: set of ('self', class, attr) / ('cbarg', callback, name)."""
        if root is None:
            return set()
        if root[0] == 'self':
            return {('self', fn.cls.name if fn.cls else '', root[1])}
        q = roles.fq(fn)
        if q in callbacks:
            return {('cbarg', fn.name, root[1])}
        if depth > 3:
            return set()
        out = set()
        idx = fn.param_names.index(root[1])
        for caller in roles.callers_of(fn):
            if roles.fq(caller) not in funcs:
                continue
            for nd in ast.walk(caller.node):
                if not (isinstance(nd, ast.Call) and fn in ctx.pta.internal_callees(caller, nd)):
                    continue
                off = 1 if (fn.cls is not None and not fn.is_static and isinstance(nd.func, ast.Attribute)) else 0
                arg = None
                if idx - off < len(nd.args) and idx - off >= 0:
                    arg = nd.args[idx - off]
                for kw in nd.keywords:
                    if kw.arg == root[1]:
                        arg = kw.value
                if arg is not None:
                    out |= up(caller, root_of(caller, arg), depth + 1)
        return out
    n = 0
    for q, f in sorted(funcs.items()):
        loops = []
        for nd in ast.walk(f.node):
            if isinstance(nd, ast.For):
                loops.append((nd.target, nd.iter, nd.body))
            elif isinstance(nd, (ast.ListComp, ast.GeneratorExp, ast.SetComp)):
                for g in nd.generators:
                    loops.append((g.target, g.iter, [nd.elt]))
        for tgt, it, body in loops:
            if not (isinstance(tgt, ast.Name) and isinstance(it, ast.Call) and isinstance(it.func, ast.Name)
                    and it.func.id == 'range' and it.args):
                continue
            bound = it.args[-1] if len(it.args) <= 2 else it.args[1]
            rb = root_of(f, bound)
            if rb is None:
                continue
            for b in body:
                for sub_ in ast.walk(b):
                    if not (isinstance(sub_, ast.Subscript) and isinstance(sub_.ctx, ast.Load) and
                            any(isinstance(x, ast.Name) and x.id == tgt.id for x in ast.walk(sub_.slice))):
                        continue
                    rx = root_of(f, sub_.value)
                    if rx is None or rx == rb:
                        continue
                    n += 1
                    ox, ob = up(f, rx), up(f, rb)
                    if any(o[0] == 'cbarg' for o in ox) and ob and all(o[0] == 'self' for o in ob):
                        state = sorted({f'{o[1]}.{o[2]}' for o in ob})
                        args_ = sorted({f'{o[1]}({o[2]})' for o in ox if o[0] == 'cbarg'})
                        ctx.fail(rid, f.short, f.loc(sub_),
                                 f'`{ast.unparse(sub_)}` indexes data that arrives with the callback ({", ".join(args_)}) '
                                 f'over range({ast.unparse(bound)}), a size taken from the listener state '
                                 f'({", ".join(state)}) kept from an earlier call: for a listener attached to two '
                                 f'solvers that state belongs to the solver that started last, the loop runs past the '
                                 f'end of the other solver\'s points, the callback raises inside Solve (which swallows '
                                 f'the exception) and the earlier solver stops short',
                                 key=f'{rid}::{f.short}::{ast.unparse(sub_)[:30]}')
    ctx.analysed[f'{rid}_indexed_reads_with_foreign_bound'] = n
    ctx.floor(rid, 'functions reachable from the shipped callbacks', len(funcs), 10)
    if not any(x.rule == rid for x in ctx.findings):
        ctx.ok(rid, 'shipped callbacks', f'{len(funcs)} functions reachable from the shipped callbacks; {n} index loops '
                                         f'whose bound and data have different origins: none pairs argument data with a '
                                         f'bound from the listener state', 'iOpt/output_system')


def r13_3(ctx: Ctx):
    rid = 'R13.3'
    ctx.rule(rid, 'protocol: BeforeMethodStart for every listener before the seeding routine (first call only); the '
                  'list of new trials is a fresh local filled with exactly the evaluated item of each trip; '
                  'OnEndIteration once per listener after the loop with that list and the current result; '
                  'OnMethodStop for every listener on every returning path of Solve with the current result')
    roles = C.roles_of(ctx)
    try:
        drv, er, sdg, sd, res = roles.iter_driver, roles.eval_routine, roles.seeding, roles.solve_driver, \
            roles.results_getter
    except RoleMissing as e:
        ctx.fail(rid, f'role {e.role}', 'iOpt/', str(e), key=f'{rid}::role::{e.role}')
        return
    lst = roles.listener_methods()
    C.refuse_comprehension_loop(ctx, rid, drv)
    ex = driver_explorer(ctx, [er, roles.optimum_updater])

    def lcalls(evs, name):
        return [e for e in evs if e.kind == 'call' and e.d['name'] == name and
                any(isinstance(c, FuncInfo) and roles.fq(c) in lst for c in e.d['callees'])]
    n = 0
    selfv = var(drv.param_names[0])
    for p in C.normal_paths(ex.explore(drv)):
        evs = p.events
        n += 1
        idx = {id(e): i for i, e in enumerate(evs)}
        seeds = [e for e in evs if e.kind == 'call' and e.d.get('callee') is sdg]
        befores = lcalls(evs, 'BeforeMethodStart')
        ends = lcalls(evs, 'OnEndIteration')
        trips = [e for e in evs if e.kind == 'iter' and C.at_level(e, drv) and not _loop_over_listeners(ctx, e.func, e.node)]
        # (a) BeforeMethodStart only on the seeding trip and before the seeding call
        if seeds:
            ok = all(idx[id(b)] < idx[id(seeds[0])] for b in befores)
            ctx.check(ok, rid, drv.short, drv.loc(seeds[0].node), 'listeners are told before the first trial',
                      'BeforeMethodStart is delivered after the first trial was already made',
                      key=f'{rid}::{drv.short}::before-first')
            # the listener loop in front of the seeding call exists: there must be a listener loop event before it
            lloops = [e for e in evs[:idx[id(seeds[0])]] if e.kind in ('iter', 'loopexit') and C.at_level(e, drv)
                      and _loop_over_listeners(ctx, e.func, e.node)]
            ctx.check(bool(lloops), rid, drv.short, drv.loc(seeds[0].node),
                      'a loop over all listeners precedes the seeding routine',
                      'BeforeMethodStart is not delivered to every listener before the first trial',
                      key=f'{rid}::{drv.short}::before-loop')
        else:
            ctx.check(not befores, rid, drv.short, drv.loc(), 'BeforeMethodStart is delivered on the first call only',
                      'BeforeMethodStart is delivered again on a later DoGlobalIteration call',
                      key=f'{rid}::{drv.short}::before-once')
        # (b) the list of new trials
        evals = [e for e in evs if e.kind == 'call' and er in e.d['callees'] and not e.d.get('inlined')]
        appends = [e for e in evs if e.kind == 'call' and e.d['name'] == 'append' and C.at_level(e, drv)]
        ok_cnt = len(appends) == len(evals)
        ctx.check(ok_cnt, rid, drv.short, drv.loc(),
                  'one trial is recorded for notification per evaluation',
                  f'{len(appends)} trials are recorded for notification but {len(evals)} evaluations were made in '
                  f'the call', key=f'{rid}::{drv.short}::one-append-per-eval')
        for a, e in zip(appends, evals):
            item = e.d['args'][0]
            got = a.d['args'][0] if a.d['args'] else None
            same = got is not None and (key_of(got) == key_of(item) or key_of(got) == key_of(e.d['result']))
            if not same and got is not None:
                ce = C.call_event_of_result(p, got)
                if ce is not None and ce.d['name'] == 'GetLastItem':
                    # last appended item of the seeding routine = last InsertDataItem before this point
                    ins = [x for x in evs[:idx[id(a)]] if x.kind == 'call' and x.d['name'] == 'InsertDataItem']
                    same = bool(ins) and key_of(ins[-1].d['args'][0]) == key_of(item) and \
                        idx[id(ins[-1])] > max([idx[id(x)] for x in evs[:idx[id(a)]]
                                                if x.kind == 'call' and x.d['name'] == 'InsertFirstDataItem'] or [-1])
            ctx.check(same, rid, drv.short, drv.loc(a.node), 'the recorded trial is the one evaluated in that trip',
                      f'the trial recorded for notification ({C.fmt(got)}) is not the trial evaluated in that trip',
                      key=f'{rid}::{drv.short}::append-item')
        # (c) OnEndIteration after the loop, with the list and the current result
        exits = [idx[id(e)] for e in evs if e.kind == 'loopexit' and e.func is drv and e.depth == 0
                 and not _loop_over_listeners(ctx, drv, e.node)]
        if exits:
            last_trip_end = max(exits)
            ok = all(idx[id(x)] > last_trip_end for x in ends)
            ctx.check(ok, rid, drv.short, drv.loc(), 'OnEndIteration is delivered after all trips of the call',
                      'OnEndIteration is delivered inside the iteration loop (once per trip, not once per call)',
                      key=f'{rid}::{drv.short}::end-after-loop')
        # every returning path reports: the OnEndIteration loop is passed after the last evaluation of the call
        # (also on paths that make no evaluation: a call that does nothing still ends with the notification)
        last_eval = max([idx[id(e)] for e in evals] or [-1])
        end_loops = [e for e in evs if e.kind in ('iter', 'loopexit') and C.at_level(e, drv)
                     and _loop_over_listeners(ctx, e.func, e.node)
                     and any(isinstance(c, ast.Call) and isinstance(c.func, ast.Attribute) and
                             c.func.attr == 'OnEndIteration' for c in ast.walk(e.node))]
        ok_end = any(idx[id(e)] > last_eval for e in end_loops)
        ctx.check(ok_end, rid, drv.short, drv.loc(evals[-1].node) if evals else drv.loc(),
                  'every returning path of the driver passes the OnEndIteration loop after its last evaluation',
                  f'a returning path of {drv.short} makes {len(evals)} evaluation(s) and ends without passing the '
                  f'OnEndIteration loop: the trials of that call are never reported to the listeners',
                  key=f'{rid}::{drv.short}::end-loop-on-every-path', detail={'path': p.describe(40)})
        for x in ends:
            a = _bound(ctx, 'OnEndIteration', x)
            lst_ok = len(a) >= 1 and isinstance(a[0], (TupleVal,)) or (len(a) >= 1 and _is_local_list(p, a[0]))
            ctx.check(lst_ok, rid, drv.short, drv.loc(x.node), 'OnEndIteration receives the call-local list of trials',
                      'OnEndIteration does not receive the list of trials built by this call',
                      key=f'{rid}::{drv.short}::end-list')
            r_ok = len(a) >= 2 and _is_results(ctx, p, a[1], res)
            ctx.check(r_ok, rid, drv.short, drv.loc(x.node), 'OnEndIteration receives the current result',
                      'OnEndIteration does not receive GetResults()', key=f'{rid}::{drv.short}::end-result')
    ctx.floor(rid, 'paths of the iteration driver', n, 4)
    # R13.9: when the evaluation of a trip raises, the exception leaves the driver.  If the listeners are notified on
    # that way out (a finally: block), the list must hold evaluated trials only - the driver records the new item
    # *before* it is evaluated, so a notification from the exceptional exit hands over an item that was never evaluated
    # and is in neither the search data nor the trial count.
    ctx.rule('R13.9', 'exceptional exit of the iteration driver: on a path on which an evaluation raises, '
                      'OnEndIteration is not delivered with a list that already holds the item of the failed trip')
    exf = driver_explorer(ctx, [er, roles.optimum_updater])
    exf._may_raise = lambda ev: er in ev.d['callees'] and not ev.d.get('inlined')
    nf = 0
    for p in exf.explore(drv):
        evs = p.events
        fails = [i for i, e in enumerate(evs) if e.kind == 'raise' and e.d.get('implicit')]
        if not fails:
            continue
        nf += 1
        i0 = fails[0]
        ends = lcalls(evs[i0:], 'OnEndIteration')
        if not ends:
            continue
        started = [e for e in evs[:i0] if e.kind == 'call' and er in e.d['callees'] and not e.d.get('inlined')]
        completed = len(started) - 1          # the last one is the call that raised
        recorded = [e for e in evs[:i0] if e.kind == 'call' and e.d['name'] == 'append' and C.at_level(e, drv)]
        ctx.check(len(recorded) <= completed, 'R13.9', drv.short, drv.loc(ends[0].node),
                  'the notification on the exceptional exit holds evaluated trials only',
                  f'when an evaluation raises, {drv.short} still delivers OnEndIteration (from the exceptional exit) with '
                  f'a list of {len(recorded)} item(s) although only {completed} evaluation(s) of the call completed: '
                  f'the listeners receive a point that was never evaluated, is not in the search data and is not '
                  f'counted', key=f'R13.9::{drv.short}::phantom-trial-on-failure')
    ctx.floor('R13.9', 'paths of the iteration driver on which an evaluation raises', nf, 1)
    if not any(x.rule == 'R13.9' for x in ctx.findings):
        ctx.ok('R13.9', drv.short, f'{nf} failing paths: none delivers OnEndIteration with the item of the failed trip',
               drv.loc())
    # structural: notification loops range over the whole listener list, no break/continue/return
    for f in (drv, sd):
        loops = []
        fs_ = list(roles.helpers_of(f))
        for q_ in sorted(roles.reach(f)):
            g_ = ctx.ix.funcs.get(q_)
            if g_ is not None and g_ not in fs_ and roles.is_glue(g_):
                fs_.append(g_)            # e.g. the methods of a notifier helper object
        for hf in fs_:
            loops += [(hf, nn) for nn in ast.walk(hf.node) if isinstance(nn, ast.For)
                      and _loop_over_listeners(ctx, hf, nn)]
        ctx.floor(rid, f'listener loops in {f.short}', len(loops), 2 if f is drv else 1)
        # each notification of the protocol is actually made inside one of these loops
        for cb in (('BeforeMethodStart', 'OnEndIteration') if f is drv else ('OnMethodStop',)):
            made = any(isinstance(x, ast.Call) and isinstance(x.func, ast.Attribute) and x.func.attr == cb
                       for _, nn in loops for b in nn.body for x in ast.walk(b))
            ctx.check(made, rid, f.short, f.loc(), f'{cb} is delivered inside a loop over the listeners',
                      f'no loop over the listeners in {f.short} calls {cb}: the listeners are never told',
                      key=f'{rid}::{f.short}::delivers::{cb}')
        for hf, nn in loops:
            bad = [x for b in nn.body for x in ast.walk(b) if isinstance(x, (ast.Break, ast.Continue, ast.Return))]
            sliced = isinstance(nn.iter, ast.Subscript)
            ctx.check(not bad and not sliced, rid, hf.short, hf.loc(nn), 'the notification loop visits every listener',
                      'a notification loop skips listeners (break/continue/return or a slice of the list)',
                      key=f'{rid}::{hf.short}::loop-complete::{hf.loc(nn)}')
        # the fresh local list
    news = [nn for hf in roles.helpers_of(drv) for nn in ast.walk(hf.node)
            if isinstance(nn, (ast.Assign, ast.AnnAssign)) and isinstance(nn.value, ast.List) and not nn.value.elts]
    ctx.check(bool(news), rid, drv.short, drv.loc(), 'the list of new trials is created empty in each call',
              'the list of new trials is not a fresh local list of the call', key=f'{rid}::{drv.short}::fresh-list')
    # (d) Solve: OnMethodStop on every returning path, after refinement, with the current result
    exs = ctx.explorer(unroll=1, may_raise=lambda ev: drv in ev.d['callees'])
    ns = 0
    rfd = roles.refine_driver
    for p in exs.explore(sd):
        if p.outcome == 'raise':
            continue
        ns += 1
        evs = p.events
        stops = lcalls(evs, 'OnMethodStop')
        loops = [e for e in evs if e.kind in ('iter', 'loopexit') and C.at_level(e, sd)
                 and _loop_over_listeners(ctx, e.func, e.node)]
        ctx.check(bool(loops), rid, sd.short, sd.loc(), 'every returning path of Solve passes the OnMethodStop loop',
                  'a returning path of Solve does not notify listeners of the stop',
                  key=f'{rid}::{sd.short}::stop-loop')
        refs = [i for i, e in enumerate(evs) if e.kind == 'call' and rfd in e.d['callees']]
        for x in stops:
            a = _bound(ctx, 'OnMethodStop', x)
            ok = len(a) >= 2 and a[1] is not None and _is_results(ctx, p, a[1], res)
            ctx.check(ok, rid, sd.short, sd.loc(x.node), 'OnMethodStop receives the current result',
                      'OnMethodStop does not receive GetResults()', key=f'{rid}::{sd.short}::stop-result')
            undef = [C.fmt(v) for v in list(x.d['args']) + list((x.d.get('kwargs') or {}).values())
                     if _undefined_name(v)]
            ctx.check(not undef, rid, sd.short, sd.loc(x.node), 'every argument of OnMethodStop is defined on the path',
                      f'OnMethodStop is called with {undef}, a name that is not assigned on this path: with a '
                      f'listener attached Solve raises NameError instead of returning the result',
                      key=f'{rid}::{sd.short}::stop-undefined-argument')
            ok2 = all(evs.index(x) > i for i in refs)
            ctx.check(ok2, rid, sd.short, sd.loc(x.node), 'OnMethodStop comes after the local refinement',
                      'OnMethodStop is delivered before the local refinement changes the result',
                      key=f'{rid}::{sd.short}::stop-after-refine')
    ctx.floor(rid, 'returning paths of the solve driver', ns, 2)


def _undefined_name(v) -> bool:
    """A value that is a local read before any assignment on the path, or a name that resolves to nothing."""
    import builtins
    a = v.single_atom() if isinstance(v, RF) else None
    if not (isinstance(a, tuple) and len(a) == 2 and isinstance(a[1], str)):
        return False
    if a[0] == 'unbound':
        return True
    return a[0] in ('builtin', 'global?') and not hasattr(builtins, a[1])


def _loop_over_listeners(ctx: Ctx, f: FuncInfo, node) -> bool:
    if not isinstance(node, ast.For):
        return False
    objs = ctx.pta.expr_pts(f, node.iter.value if isinstance(node.iter, ast.Subscript) else node.iter)
    lst = ctx.ix.cls('Listener')
    for o in objs:
        if o.kind == 'list':
            for x in ctx.pta.elems(o, None, False):
                if x.cls is not None and x.cls.is_subclass_of(lst):
                    return True
    return False


def _bound(ctx: Ctx, cb: str, ev) -> list:
    """Arguments of a callback call in parameter order of the widest shipped signature (keywords resolved)."""
    names = []
    for c in listener_classes(ctx):
        m = c.methods.get(cb)
        if m is not None and len(m.param_names) - 1 > len(names):
            names = m.param_names[1:]
    out = list(ev.d['args'])
    kw = ev.d['kwargs']
    for i in range(len(out), len(names)):
        out.append(kw.get(names[i]))
    return out


def _is_local_list(p, v) -> bool:
    # the list display bound to a local name earlier on the path (append calls do not change its identity)
    for e in p.events:
        if e.kind == 'store' and e.d['tkind'] == 'name' and isinstance(e.d['value'], TupleVal) and \
                key_of(e.d['value']) == key_of(v):
            return True
    return isinstance(v, TupleVal)


def _is_results(ctx: Ctx, p, v, res: FuncInfo) -> bool:
    ex = ctx.explorer()
    exp = None
    for pp in C.normal_paths(ex.explore(res)):
        exp = pp.value
    if not isinstance(v, RF):
        return False
    ce = C.call_event_of_result(p, v)
    if ce is not None and res in ce.d['callees']:
        return True             # the getter is not a plain accessor: its own result is what is passed on
    if exp is None:
        return False
    return C.same_mod_ver(v, exp)


def r13_4(ctx: Ctx):
    rid = 'R13.4'
    ctx.rule(rid, 'list aliasing: Process iterates the very list object Solver.AddListener appends to')
    pta = ctx.pta
    roles = C.roles_of(ctx)
    add = roles.api('AddListener')
    appended = set()
    for m in roles.mutations():
        if m.func is add and m.kind == 'mutcall' and m.field == 'append':
            appended |= {o for o in m.bases if o.kind == 'list'}
    ctx.floor(rid, 'list objects AddListener appends to', len(appended), 1)
    ctx.rule('R13.7', 'the listener list is allocated per Solver: a listener attached to one solver is not notified '
                      'by another')
    shared = [o for o in appended if o.is_singleton_scope or o.scope != 'func']
    external = [o for o in ctx.pta.local(add, add.param_names[0]) if False]
    sinit = ctx.ix.func('Solver.__init__')
    lst_fields = set()
    for m in roles.mutations():
        if m.func is add and m.kind == 'mutcall' and isinstance(m.base_expr, ast.Attribute):
            lst_fields.add(m.base_expr.attr)
    from_params = []
    for pth in C.normal_paths(ctx.explorer(inline_ctor=False).explore(sinit)):
        for st in pth.stores():
            if st.d['tkind'] == 'attr' and any(st.d['field'].endswith(f.lstrip('_')) or st.d['field'] == f
                                                 for f in lst_fields):
                v = st.d['value']
                at = v.single_atom() if isinstance(v, RF) else None
                if isinstance(at, tuple) and at and at[0] in ('var', 'default'):
                    from_params.append(C.fmt(v))
    ctx.check(not shared and not from_params, 'R13.7', 'Solver listener list', sinit.loc(),
              'every Solver allocates its own listener list',
              f'the list AddListener appends to is not allocated per Solver '
              f'({[o.describe() for o in shared][:1] or from_params[:1]}): a listener attached to one solver is '
              f'also notified (and started again) by every other solver sharing the list',
              key='R13.7::shared-listener-list')
    used = set()
    for f0 in (roles.iter_driver, roles.solve_driver):
        fs_ = list(roles.helpers_of(f0))
        for q_ in sorted(roles.reach(f0)):
            g_ = ctx.ix.funcs.get(q_)
            if g_ is not None and g_ not in fs_ and roles.is_glue(g_):
                fs_.append(g_)
        for f in fs_:
            for nn in ast.walk(f.node):
                if isinstance(nn, ast.For) and _loop_over_listeners(ctx, f, nn):
                    used |= {o for o in pta.expr_pts(f, nn.iter) if o.kind == 'list'}
    ctx.check(bool(used) and used <= appended, rid, 'Process listeners', roles.iter_driver.loc(),
              'the notification loops iterate the list AddListener appends to',
              f'the notification loops iterate {[u.describe() for u in (used - appended)][:1]}, not the list '
              f'AddListener appends to: listeners added after construction are never notified',
              key=f'{rid}::alias')


LABELS = [('global', 'numberOfGlobalTrials'), ('local', 'numberOfLocalTrials'), ('time', 'solvingTime'),
          ('point', 'bestTrialPoint'), ('value', 'bestTrialValue'), ('accuracy', 'solutionAccuracy')]


def r13_5(ctx: Ctx):
    rid = 'R13.5'
    ctx.rule(rid, 'console wiring: the final report passes each quantity of the solution to the parameter of the '
                  'same meaning, and each labelled line prints its own parameter')
    fco = ctx.ix.cls('FunctionConsoleFullOutput')
    co = ctx.ix.cls('ConsoleOutputer')
    pf = fco.lookup('printFinalResult')
    pr = co.lookup('printResult')
    # helpers of the console module that prepare the reported quantities (a value class built from the solution) are
    # looked through; the printing routines themselves stay events
    ex = ctx.explorer(inline=lambda f, st: f.module is pf.module and f.name != '__init__' and
                      not f.name.startswith('print'))
    sol = var(pf.param_names[1])
    bt0 = C.sub(attr(sol, 'bestTrials'), RF.const(0))
    want = {
        'numberOfGlobalTrials': attr(sol, 'numberOfGlobalTrials'),
        'numberOfLocalTrials': attr(sol, 'numberOfLocalTrials'),
        'solvingTime': attr(sol, 'solvingTime'),
        'solutionAccuracy': attr(sol, 'solutionAccuracy'),
        'bestTrialPoint': attr(attr(bt0, 'point'), 'floatVariables'),
        'bestTrialValue': attr(C.sub(attr(bt0, 'functionValues'), RF.const(0)), 'value'),
    }
    n = 0
    for p in C.normal_paths(ex.explore(pf)):
        for e in p.events:
            if e.kind == 'call' and pr in e.d['callees']:
                n += 1
                names = pr.param_names if (pr.is_static or pr.cls is None) else pr.param_names[1:]
                bound = dict(zip(names, e.d['args']))
                bound.update(e.d['kwargs'])
                for pname, exp in want.items():
                    got = bound.get(pname)
                    ok = got is not None and C.same_mod_ver(got, exp)
                    ctx.check(ok, rid, pf.short, pf.loc(e.node), f'{pname} <- the solution\'s {pname}',
                              f'the final report passes {C.fmt(got)} as {pname}; expected the solution\'s own '
                              f'{C.fmt(exp)}', key=f'{rid}::{pf.short}::{pname}')
    ctx.floor(rid, 'final-report call sites', n, 1)
    # labels
    n2 = 0
    # a labelled line: a call ("...".format(label, value, ...) or a printing helper f(label, value, ...)) one of
    # whose positional arguments is the label text; the remaining positional arguments are what it prints
    for node in ast.walk(pr.node):
        if not (isinstance(node, ast.Call) and len(node.args) >= 2):
            continue
        lab = [a for a in node.args if isinstance(a, ast.Constant) and isinstance(a.value, str)]
        if len(lab) != 1:
            continue
        label = lab[0].value.lower()
        rest = [a for a in node.args if a is not lab[0]]
        for kw, pname in LABELS:
            if kw in label:
                n2 += 1
                used = set()
                for r_ in rest:
                    used |= {x.id for x in ast.walk(r_) if isinstance(x, ast.Name)}
                ctx.check(pname in used and not (used & {p for _, p in LABELS if p != pname}), rid, pr.short,
                          pr.loc(node), f'line "{lab[0].value.strip()}" prints {pname}',
                          f'the report line "{lab[0].value.strip()}" prints {sorted(used)}, not {pname}',
                          key=f'{rid}::{pr.short}::label::{kw}')
                break
    # the same lines written as f-strings: f"|{'label: ':>29} {value:<{width}}|"
    for node in ast.walk(pr.node):
        if not isinstance(node, ast.JoinedStr):
            continue
        labs, used = [], set()
        for part in node.values:
            if isinstance(part, ast.Constant) and isinstance(part.value, str):
                labs.append(part.value)
            elif isinstance(part, ast.FormattedValue):
                if isinstance(part.value, ast.Constant) and isinstance(part.value.value, str):
                    labs.append(part.value.value)
                else:
                    used |= {x.id for x in ast.walk(part.value) if isinstance(x, ast.Name)}
        label = ' '.join(labs).lower()
        if not used:
            continue
        for kw, pname in LABELS:
            if kw in label:
                n2 += 1
                ctx.check(pname in used and not (used & {p for _, p in LABELS if p != pname}), rid, pr.short,
                          pr.loc(node), f'line "{label.strip(" |")}" prints {pname}',
                          f'the report line "{label.strip(" |")}" prints {sorted(used)}, not {pname}',
                          key=f'{rid}::{pr.short}::label::{kw}')
                break
    ctx.floor(rid, 'labelled lines of the final report', n2, 6)


def solver_state(ctx: Ctx) -> Set:
    """Objects reachable from a Solver's components, not passing through the listener list."""
    pta = ctx.pta
    lst = ctx.ix.cls('Listener')
    solver = ctx.ix.cls('Solver')
    roots = [o for o in pta._objs.values() if o.cls is not None and o.kind in ('inst', 'ext_inst') and
             o.cls.is_subclass_of(solver)]
    seen, todo = set(), list(roots)
    while todo:
        o = todo.pop()
        if o in seen:
            continue
        if o.cls is not None and o.cls.is_subclass_of(lst):
            continue
        if o.kind in ('cls', 'func', 'module', 'extmod', 'builtin', 'extmeth'):
            continue
        if o.cls is not None and o.cls.module.name.startswith('iOpt.output_system'):
            continue
        seen.add(o)
        for k, v in pta._fields_of(o):
            todo.extend(v)
        if o.kind == 'bm':
            todo.append(o.extra[2])
    return {o for o in seen if o.kind in ('inst', 'ext_inst', 'list', 'ndarray', 'dict', 'set', 'ext')}


def r13_6(ctx: Ctx):
    rid = 'R13.6'
    ctx.rule(rid, 'non-interference: no mutation site reachable from a shipped callback targets an object of the '
                  'solver state (iterator cursor excepted); painters probe the objective with fresh points/holders')
    roles = C.roles_of(ctx)
    pta = ctx.pta
    state = solver_state(ctx)
    ctx.floor(rid, 'objects of the solver state', len(state), 15)
    pcs = {roles.fq(x) for x in roles.problem_calcs}
    cbs = []
    for c in listener_classes(ctx):
        for nm in CALLBACKS + ('OnRefrash',):
            if nm in c.methods:
                cbs.append(c.methods[nm])
    ctx.floor(rid, 'shipped callbacks', len(cbs), 12)
    n = 0
    for cb in cbs:
        reach = pta.reachable([cb], stop=lambda q: q in pcs)
        for m in E.mutations_in(ctx, reach):
            if m.init_self:
                continue
            if roles.fq(m.func) in pcs:
                continue        # the objective's own holder store: judged at the painters' call sites below
            n += 1
            hit = [o for o in m.bases if o in state]
            if not hit:
                continue
            if m.kind == 'attr' and m.field == 'curIter':
                ctx.ok(rid, m.func.short, 'iterator cursor of the search data (no solver code iterates while a '
                                          'callback runs)', m.loc())
                continue
            ctx.fail(rid, m.func.short, m.loc(),
                     f'{m.text()[:80]} (reachable from {cb.short}) can write {hit[0].describe()}, which belongs to '
                     f'the solver state: attaching this listener changes the search', key=ctx.key_for(rid, m.func, m.node))
    ctx.floor(rid, 'mutation sites reachable from shipped callbacks', n, 40)
    # painters' probes of the objective use fresh points and holders
    ex = ctx.explorer(unroll=1, max_paths=6000)
    np_ = 0
    allreach = pta.reachable(cbs, stop=lambda q: q in pcs)
    for q in sorted(allreach):
        f = ctx.ix.funcs.get(q)
        if f is None or f.kind != 'function' or not f.module.name.startswith('iOpt.output_system'):
            continue
        own = {roles.fq(h) for h in roles.helpers_of(f)}
        has = any(any(isinstance(c, FuncInfo) and roles.fq(c) in pcs for c in cs)
                  for (caller, nid), cs in pta.calls.items() if caller in own)
        if not has:
            continue
        if f.name.startswith('_') and not f.name.startswith('__init') and roles.callers_of(f) and \
                all(roles.fq(f) in {roles.fq(h) for h in roles.helpers_of(c)} for c in roles.callers_of(f)):
            continue        # a private helper: analysed inlined into its caller(s)
        for p in C.normal_paths(ex.explore(f)):
            for e in p.events:
                if e.kind == 'call' and any(isinstance(c, FuncInfo) and roles.fq(c) in pcs for c in e.d['callees']):
                    np_ += 1
                    for i, a in enumerate(e.d['args'][:2]):
                        at = a.single_atom() if isinstance(a, RF) else None
                        ok = isinstance(at, tuple) and at and at[0] == 'fresh'
                        if ok and i == 0:
                            # the probe point's coordinate array must be fresh as well
                            ne = C.new_event_of(p, a)
                            if ne is not None and ne.d['args']:
                                c0 = ne.d['args'][0]
                                ok = isinstance(c0, TupleVal) or _fresh_array(p, c0)
                        ctx.check(ok, rid, f.short, f.loc(e.node),
                                  'the painter probes the objective with a fresh point/holder',
                                  f'the painter evaluates the objective with {C.fmt(a)}, which is not an object '
                                  f'created for the probe: values of recorded trials can be overwritten',
                                  key=f'{rid}::{f.short}::probe-arg{i}')
    ctx.floor(rid, 'objective probes in painter code', np_, 3)


def _fresh_array(p, v) -> bool:
    ce = C.call_event_of_result(p, v)
    if ce is None:
        return False
    name = ce.d.get('callee')
    if isinstance(name, str) and name in ('numpy.copy', 'numpy.array', 'numpy.zeros', 'numpy.empty', 'copy.copy',
                                          'copy.deepcopy', 'builtins.list'):
        return True
    return ce.d['name'] in ('copy', 'tolist') and ce.d.get('ext', False)


def r13_8(ctx: Ctx):
    """Registration keeps the listener: what AddListener puts into the list the drivers iterate is the listener object
    itself.  A weak reference, a proxy or a copy means the object the user handed over is not the one notified - or,
    for a weak reference, is notified only as long as somebody else happens to keep it alive."""
    rid = 'R13.8'
    ctx.rule(rid, 'registration: on every path of AddListener the listener argument itself is appended to the '
                  'solver\'s listener list (not a weak reference, wrapper or copy of it)')
    roles = C.roles_of(ctx)
    add = roles.api('AddListener')
    if add is None or len(add.param_names) < 2:
        ctx.fail(rid, 'Solver.AddListener', 'iOpt/solver.py', 'AddListener(listener) not found',
                 key=f'{rid}::missing')
        return
    lis = var(add.param_names[1])
    n = 0
    for p in C.normal_paths(ctx.explorer().explore(add)):
        n += 1
        regs = [e for e in p.events if e.kind == 'call' and e.d['name'] in ('append', 'add', 'insert', 'extend')
                and e.d.get('recv') is not None and e.d['args']]
        direct = [e for e in regs if any(key_of(a) == key_of(lis) for a in e.d['args'])]
        wrapped = [e for e in regs if e not in direct and any(C.mentions(a, key_of(lis)) for a in e.d['args'])]
        ctx.check(bool(direct) and not wrapped, rid, add.short, add.loc(wrapped[0].node) if wrapped else add.loc(),
                  'the listener object itself is appended',
                  f'AddListener registers {C.fmt(wrapped[0].d["args"][-1]) if wrapped else "nothing"} instead of the '
                  f'listener object: the solver does not hold the listener the user attached, so it is not (or not '
                  f'reliably) notified', key=f'{rid}::{add.short}::registers-itself')
    ctx.floor(rid, 'paths of AddListener', n, 1)


def check(ctx: Ctx):
    if C.want(ctx, 'R13.8'):
        r13_8(ctx)
    for rid, fn in (('R13.1', r13_1), ('R13.2', r13_2), ('R13.3', r13_3), ('R13.4', r13_4), ('R13.5', r13_5),
                    ('R13.6', r13_6)):
        if C.want(ctx, rid):
            fn(ctx)
    ctx.assume('matplotlib, sklearn and scipy.interpolate do not mutate arrays passed to them')
    ctx.assume('user-written listeners are outside the check; the shipped ones and the base class are covered')
