"""Effect helpers shared by C11, C13, C15, C17: nondeterminism sources, write-effect classification."""
from __future__ import annotations

import ast
from typing import Dict, Iterable, List, Optional, Set, Tuple

from ..index import AnalysisError, FuncInfo
from ..pta import Mutation, Obj
from ..report import Ctx
from . import common as C

NONDET_PREFIXES = ('random.', 'numpy.random.', 'time.', 'secrets.', 'uuid.', 'os.urandom', 'os.getpid',
                   'datetime.datetime.now', 'datetime.datetime.today', 'datetime.datetime.utcnow',
                   'datetime.date.today', 'os.times', 'threading.', 'multiprocessing.', 'tempfile.',
                   'builtins.id', 'builtins.hash', 'os.environ', 'os.getenv', 'socket.', 'platform.')
NONDET_EXACT = {'builtins.input', 'builtins.open'}

NON_DATA = ('cls', 'func', 'module', 'extmod', 'builtin', 'bm', 'extmeth')


def nondet_sites(ctx: Ctx, funcs: Iterable[str]) -> List[Tuple[FuncInfo, ast.Call, str]]:
    """Call sites inside the given functions (qualnames) that reach a nondeterminism source."""
    pta = ctx.pta
    fs = set(funcs)
    out = []
    for (caller, nid), names in pta.ext_calls.items():
        if caller not in fs:
            continue
        for d in names:
            if d.startswith(NONDET_PREFIXES) or d in NONDET_EXACT:
                f = ctx.ix.funcs.get(caller)
                node = pta.call_nodes.get((caller, nid))
                out.append((f, node, d))
    # iteration over a set display / set() result has hash order
    for q in fs:
        f = ctx.ix.funcs.get(q)
        if f is None or f.kind != 'function':
            continue
        for n in ast.walk(f.node):
            it = None
            if isinstance(n, ast.For):
                it = n.iter
            elif isinstance(n, ast.comprehension):
                it = n.iter
            if it is not None and (isinstance(it, (ast.Set, ast.SetComp)) or
                                   (isinstance(it, ast.Call) and isinstance(it.func, ast.Name) and
                                    it.func.id in ('set', 'frozenset'))):
                out.append((f, it, 'iteration over a set (hash order)'))
    return out


def fresh_in(reach: Set[str], o: Obj) -> bool:
    """Allocated inside the call tree given by reach (qualnames), i.e. fresh for each call of its root."""
    if o.kind in NON_DATA or o.kind == 'arith':
        return True
    owner = (o.owner or '').replace('@setter', '')
    return o.scope == 'func' and o.kind not in ('param', 'field', 'ext_inst') and \
        (owner in reach or owner + '@setter' in reach)


def mutations_in(ctx: Ctx, reach: Set[str]) -> List[Mutation]:
    roles = C.roles_of(ctx)
    return [m for m in roles.mutations() if roles.fq(m.func) in reach]


LOCAL_ALLOCATORS = {'ndarray', 'zeros', 'ones', 'empty', 'full', 'array', 'copy', 'zeros_like', 'ones_like',
                    'empty_like', 'full_like', 'arange', 'linspace', 'deepcopy', 'list', 'dict'}


def store_is_path_local(ctx: Ctx, m: Mutation) -> bool:
    """Flow-sensitive second opinion on a mutation the (flow-insensitive) points-to relation attributes to a foreign
    object: on every path of the function that contains it, the store at that statement writes into an object
    allocated earlier on the same path (a constructor call or a numpy allocation of this activation).  A helper that
    allocates an array, fills it in one branch by a call and in another by element stores is the typical case."""
    cache = getattr(ctx, '_path_local_cache', None)
    if cache is None:
        cache = ctx._path_local_cache = {}
    f = m.func
    key = (f.qualname, getattr(m.node, 'lineno', None))
    if key in cache:
        return cache[key]
    ok = False
    try:
        if f.kind == 'function' and key[1] is not None:
            evs = []
            for p in ctx.explorer(raw=True, unroll=1, max_paths=2000).explore(f):
                evs += [e for e in p.events if e.kind == 'store' and e.func is f and e.depth == 0 and
                        getattr(e.node, 'lineno', None) == key[1] and e.d['tkind'] in ('attr', 'sub', 'aug')]
            def local(b):
                a = b.single_atom() if hasattr(b, 'single_atom') else None
                return isinstance(a, tuple) and len(a) >= 2 and (
                    a[0] == 'fresh' or (a[0] == 'call' and a[1] in LOCAL_ALLOCATORS))
            ok = bool(evs) and all(e.d['base'] is not None and local(e.d['base']) for e in evs)
    except AnalysisError:
        ok = False
    cache[key] = ok
    return ok
