"""Agreement between the writer and the reader of a saved search state (R04.9).

State-saving / state-restoring routines (the routines only the entry points outside the solving API reach) exchange
the fields of the trial record through string keys: the saver fills `{'z': item.GetZ(), ...}`, the restorer assigns
`item.SetZ(record['z'])`.  The rule reads both tables from the code and demands, per key, that a field of the trial
record is restored only from a key the saver filled from that same field.  Restoring `functionValues[0].value` from
the key that holds `z` gives back a trial whose reported value is not the one that was evaluated at its point as soon
as the two fields differ (the local refinement rewrites the value, not z).

Everything is resolved, never guessed: a key takes part only when every save site and the load site can be read down
to attribute names (through getters, setters, constructor parameters, value-preserving wrappers and single-assignment
locals); any other form (codecs, columnar arrays, computed keys) leaves the key out, with a count in the evidence.
"""
from __future__ import annotations

import ast
from typing import Dict, List, Optional, Set, Tuple

from ..index import ClassInfo, FuncInfo
from ..report import Ctx

TRIAL_CLASSES = ('Trial', 'Point', 'FunctionValue', 'SearchDataItem')
WRAPPERS = {'float', 'int', 'list', 'tuple', 'str', 'bool', 'np.double', 'np.float64', 'np.int64', 'np.array',
            'np.asarray', 'np.copy', 'copy.copy', 'copy.deepcopy', 'numpy.array', 'numpy.asarray', 'np.float_',
            'np.int_', 'deepcopy', 'np.ascontiguousarray'}
WRAP_METHODS = {'tolist', 'copy', 'item'}


def _dotted(e: ast.AST) -> Optional[str]:
    parts = []
    while isinstance(e, ast.Attribute):
        parts.append(e.attr)
        e = e.value
    if isinstance(e, ast.Name):
        parts.append(e.id)
        return '.'.join(reversed(parts))
    return None


def _norm(attr: str) -> str:
    # `_SearchDataItem__x` (mangled, written from outside the class) and `__x` (inside it) are one field
    if attr.startswith('_') and '__' in attr[1:]:
        i = attr.index('__', 1)
        if not attr.startswith('__'):
            return attr[i:]
    return attr


def _unwrap(e: ast.AST) -> List[ast.AST]:
    """The expression(s) whose value `e` carries, wrappers removed; several for a conditional expression."""
    while True:
        if isinstance(e, ast.Call) and _dotted(e.func) in WRAPPERS and e.args:
            e = e.args[0]
            continue
        if isinstance(e, ast.Call) and isinstance(e.func, ast.Attribute) and e.func.attr in WRAP_METHODS and not e.args:
            e = e.func.value
            continue
        if isinstance(e, (ast.ListComp, ast.GeneratorExp)) and len(e.generators) == 1 and not e.generators[0].ifs \
                and isinstance(e.generators[0].target, ast.Name):
            inner = _unwrap(e.elt)
            if len(inner) == 1 and isinstance(inner[0], ast.Name) and inner[0].id == e.generators[0].target.id:
                e = e.generators[0].iter
                continue
        if isinstance(e, ast.IfExp):
            out = []
            for br in (e.body, e.orelse):
                if isinstance(br, ast.Constant) and br.value is None:
                    continue
                out.extend(_unwrap(br))
            return out
        return [e]


class _Tables:
    def __init__(self, ctx: Ctx):
        self.ctx = ctx
        self.ix = ctx.ix
        self.getters: Dict[str, Set[str]] = {}
        self.setters: Dict[str, Set[str]] = {}
        self.trial_fields: Set[str] = set()
        trial = [self.ix.find_cls(n) for n in TRIAL_CLASSES]
        trial = [c for c in trial if c is not None]
        for f in self.ix.real_functions():
            if f.cls is None or f.kind != 'function' or not isinstance(f.node, ast.FunctionDef):
                continue
            body = [s for s in f.node.body if not (isinstance(s, ast.Expr) and isinstance(s.value, ast.Constant))]
            ps = f.param_names
            if len(body) == 1 and ps:
                s = body[0]
                if isinstance(s, ast.Return) and isinstance(s.value, ast.Attribute) and \
                        isinstance(s.value.value, ast.Name) and s.value.value.id == ps[0] and len(ps) == 1:
                    self.getters.setdefault(f.name, set()).add(_norm(s.value.attr))
                if isinstance(s, ast.Assign) and len(s.targets) == 1 and isinstance(s.targets[0], ast.Attribute) and \
                        isinstance(s.targets[0].value, ast.Name) and s.targets[0].value.id == ps[0] and len(ps) == 2:
                    v = _unwrap(s.value)
                    if len(v) == 1 and isinstance(v[0], ast.Name) and v[0].id == ps[1]:
                        self.setters.setdefault(f.name, set()).add(_norm(s.targets[0].attr))
            if any(f.cls is c or f.cls.is_subclass_of(c) for c in trial):
                for nd in ast.walk(f.node):
                    if isinstance(nd, ast.Attribute) and isinstance(nd.ctx, ast.Store) and \
                            isinstance(nd.value, ast.Name) and ps and nd.value.id == ps[0]:
                        self.trial_fields.add(_norm(nd.attr))

    def ctor_fields(self, cls: ClassInfo, param: str, depth: int = 0) -> Optional[Set[str]]:
        """Fields the constructor of cls stores its parameter `param` in (None: cannot tell)."""
        init = cls.lookup('__init__')
        if init is None or depth > 3 or not isinstance(init.node, ast.FunctionDef):
            return None
        ps = init.param_names
        if param not in ps:
            return None
        out: Set[str] = set()
        for nd in ast.walk(init.node):
            if isinstance(nd, ast.Assign) and len(nd.targets) == 1 and isinstance(nd.targets[0], ast.Attribute) and \
                    isinstance(nd.targets[0].value, ast.Name) and nd.targets[0].value.id == ps[0]:
                v = _unwrap(nd.value)
                if any(isinstance(x, ast.Name) and x.id == param for x in v):
                    out.add(_norm(nd.targets[0].attr))
            if isinstance(nd, ast.Call) and isinstance(nd.func, ast.Attribute) and nd.func.attr == '__init__':
                base = None
                if isinstance(nd.func.value, ast.Call) and _dotted(nd.func.value.func) == 'super':
                    base = init.cls.bases[0] if init.cls is not None and init.cls.bases else None
                    args = nd.args
                else:
                    nm = _dotted(nd.func.value)
                    base = self.ix.find_cls(nm.split('.')[-1]) if nm else None
                    args = nd.args[1:]
                if base is None:
                    continue
                binit = base.lookup('__init__')
                if binit is None:
                    continue
                bps = binit.param_names[1:]
                for i, a in enumerate(args):
                    if any(isinstance(x, ast.Name) and x.id == param for x in _unwrap(a)) and i < len(bps):
                        sub = self.ctor_fields(base, bps[i], depth + 1)
                        if sub is None:
                            return None
                        out |= sub
                for kw in nd.keywords:
                    if kw.arg and any(isinstance(x, ast.Name) and x.id == param for x in _unwrap(kw.value)):
                        sub = self.ctor_fields(base, kw.arg, depth + 1)
                        if sub is None:
                            return None
                        out |= sub
        return out or None


def _single_assignment(fn: FuncInfo, name: str) -> Optional[ast.AST]:
    found = []
    for nd in ast.walk(fn.node):
        if isinstance(nd, ast.Assign) and any(isinstance(t, ast.Name) and t.id == name for t in nd.targets):
            found.append(nd.value)
        elif isinstance(nd, (ast.For, ast.comprehension)) and any(
                isinstance(t, ast.Name) and t.id == name for t in ast.walk(nd.target)):
            return None
        elif isinstance(nd, (ast.AugAssign, ast.AnnAssign, ast.NamedExpr)) and \
                isinstance(nd.target, ast.Name) and nd.target.id == name:
            return None
    if name in fn.param_names:
        return None
    return found[0] if len(found) == 1 else None


def _source_fields(tb: _Tables, fn: FuncInfo, e: ast.AST, depth: int = 0) -> Optional[Set[str]]:
    out: Set[str] = set()
    for x in _unwrap(e):
        while isinstance(x, ast.Subscript) and not (isinstance(x.slice, ast.Constant) and isinstance(x.slice.value, str)):
            x = x.value            # element / slice of a field is still that field
        if isinstance(x, ast.Attribute):
            out.add(_norm(x.attr))
        elif isinstance(x, ast.Call) and isinstance(x.func, ast.Attribute) and not x.args and not x.keywords and \
                x.func.attr in tb.getters:
            out |= tb.getters[x.func.attr]
        elif isinstance(x, ast.Name) and depth < 3:
            v = _single_assignment(fn, x.id)
            sub = _source_fields(tb, fn, v, depth + 1) if v is not None else None
            if sub is None:
                return None
            out |= sub
        else:
            return None
    return out or None


def _parents(root: ast.AST) -> Dict[ast.AST, ast.AST]:
    par = {}
    for p in ast.walk(root):
        for c in ast.iter_child_nodes(p):
            par[c] = p
    return par


def _targets_of_use(tb: _Tables, fn: FuncInfo, par, node: ast.AST, depth: int = 0) -> Optional[Set[str]]:
    """Fields that receive the value of `node` (an expression inside fn); None: the use cannot be read."""
    cur = node
    while True:
        p = par.get(cur)
        if p is None:
            return None
        if isinstance(p, ast.Call) and cur in p.args and p.args and p.args[0] is cur and _dotted(p.func) in WRAPPERS:
            cur = p
            continue
        if isinstance(p, ast.Attribute) and p.attr in WRAP_METHODS and isinstance(par.get(p), ast.Call):
            cur = par[p]
            continue
        break
    if isinstance(p, ast.Assign) and p.value is cur and len(p.targets) == 1:
        t = p.targets[0]
        if isinstance(t, ast.Attribute):
            return {_norm(t.attr)}
        if isinstance(t, ast.Name) and depth < 2:
            if _single_assignment(fn, t.id) is None:
                return None
            out: Set[str] = set()
            for nd in ast.walk(fn.node):
                if isinstance(nd, ast.Name) and nd.id == t.id and isinstance(nd.ctx, ast.Load):
                    sub = _targets_of_use(tb, fn, par, nd, depth + 1)
                    if sub is None:
                        return None
                    out |= sub
            return out or None
        return None
    if isinstance(p, ast.keyword):
        call = par.get(p)
        kwname = p.arg
    elif isinstance(p, ast.Call) and cur in p.args:
        call, kwname = p, None
    else:
        return None
    if not isinstance(call, ast.Call):
        return None
    if isinstance(call.func, ast.Attribute) and kwname is None and len(call.args) == 1 and call.func.attr in tb.setters:
        return set(tb.setters[call.func.attr])
    nm = _dotted(call.func)
    cls = None
    if nm is not None:
        r = tb.ix.resolve_name_expr(fn.module, call.func)
        if isinstance(r, ClassInfo):
            cls = r
    if cls is None:
        return None
    init = cls.lookup('__init__')
    if init is None:
        return None
    if kwname is None:
        i = call.args.index(cur)
        ps = init.param_names[1:]
        if i >= len(ps) or any(isinstance(a, ast.Starred) for a in call.args):
            return None
        kwname = ps[i]
    return tb.ctor_fields(cls, kwname)


def rule_restore_agreement(ctx: Ctx, rid: str):
    ctx.rule(rid, 'writer / reader agreement of a saved search state: a field of the trial record is restored only '
                  'from a key that the saving routine filled from that same field (both tables read from the code)')
    _ = ctx.pta
    names = list(getattr(ctx, 'restore_only_skipped', ()) or ())
    from . import common as C
    fq = C.roles_of(ctx).fq
    funcs = [f for f in ctx.ix.real_functions() if fq(f) in set(names)] if names else []
    if not funcs:
        ctx.note(f'{rid}: the tree has no state-saving / state-restoring routine with a body (SaveProgress / '
                 f'LoadProgress are empty): nothing to compare; the rule is exercised by the thorough tier on kept '
                 f'implementations')
        return
    tb = _Tables(ctx)
    saves: Dict[str, List[Tuple[FuncInfo, ast.AST, Optional[Set[str]]]]] = {}
    loads: Dict[str, List[Tuple[FuncInfo, ast.AST, Optional[Set[str]]]]] = {}
    for fn in funcs:
        par = _parents(fn.node)
        for nd in ast.walk(fn.node):
            if isinstance(nd, ast.Dict):
                for k, v in zip(nd.keys, nd.values):
                    if isinstance(k, ast.Constant) and isinstance(k.value, str) and not isinstance(v, ast.Dict):
                        saves.setdefault(k.value, []).append((fn, v, _source_fields(tb, fn, v)))
            elif isinstance(nd, ast.Assign) and len(nd.targets) == 1 and isinstance(nd.targets[0], ast.Subscript) and \
                    isinstance(nd.targets[0].slice, ast.Constant) and isinstance(nd.targets[0].slice.value, str) and \
                    not isinstance(nd.value, ast.Dict):
                saves.setdefault(nd.targets[0].slice.value, []).append((fn, nd.value, _source_fields(tb, fn, nd.value)))
            elif isinstance(nd, ast.Subscript) and isinstance(nd.ctx, ast.Load) and \
                    isinstance(nd.slice, ast.Constant) and isinstance(nd.slice.value, str):
                loads.setdefault(nd.slice.value, []).append((fn, nd, _targets_of_use(tb, fn, par, nd)))
            elif isinstance(nd, ast.Call) and isinstance(nd.func, ast.Attribute) and nd.func.attr == 'get' and \
                    nd.args and isinstance(nd.args[0], ast.Constant) and isinstance(nd.args[0].value, str):
                loads.setdefault(nd.args[0].value, []).append((fn, nd, _targets_of_use(tb, fn, par, nd)))
    compared = skipped = 0
    for k in sorted(loads):
        sv = saves.get(k)
        if not sv or any(s is None for _, _, s in sv):
            skipped += 1
            continue
        src = set().union(*[s for _, _, s in sv])
        for fn, nd, tg in loads[k]:
            if tg is None:
                continue
            compared += 1
            for t in sorted(tg):
                if t not in tb.trial_fields:
                    continue
                ok = t in src
                where = ', '.join(sorted({f'{f.short}' for f, _, _ in sv}))
                ctx.check(ok, rid, fn.short, fn.loc(nd),
                          f"key '{k}': .{t} is restored from what was saved from .{t}",
                          f"{fn.short} restores the field .{t} of the trial record from the key '{k}', which {where} "
                          f"fills from {', '.join('.' + s for s in sorted(src))}: after a save / load cycle the trial "
                          f"reports a .{t} that is not the one it had (the two fields are written independently, e.g. "
                          f"by the local refinement)", key=f"{rid}::{fn.short}::{k}->{t}")
    ctx.analysed[f'{rid}_keys_compared'] = compared
    ctx.analysed[f'{rid}_keys_not_readable'] = skipped
    ctx.note(f'{rid}: {len(funcs)} state-saving / state-restoring routines; {compared} key uses compared, {skipped} '
             f'keys left out (a side could not be read down to attribute names)')
