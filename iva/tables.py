"""E8 - literal tables: X = np.array([...]) / X = [...] at module level, read from the AST."""
from __future__ import annotations

import ast
from typing import Dict, List, Optional, Tuple

from .index import AnalysisError, ModuleInfo


def _num(n):
    if isinstance(n, ast.Constant) and isinstance(n.value, (int, float)) and not isinstance(n.value, bool):
        return n.value
    if isinstance(n, ast.UnaryOp) and isinstance(n.op, ast.USub):
        v = _num(n.operand)
        return -v if v is not None else None
    if isinstance(n, ast.UnaryOp) and isinstance(n.op, ast.UAdd):
        return _num(n.operand)
    return None


def _nested(n):
    if isinstance(n, (ast.List, ast.Tuple)):
        out = []
        for el in n.elts:
            v = _nested(el)
            if v is None:
                return None
            out.append(v)
        return out
    return _num(n)


class Table:
    def __init__(self, name: str, data, lineno: int):
        self.name, self.data, self.lineno = name, data, lineno

    @property
    def shape(self) -> Tuple[int, ...]:
        s = []
        d = self.data
        while isinstance(d, list):
            s.append(len(d))
            if not d:
                break
            d = d[0]
        return tuple(s)

    def rectangular(self) -> bool:
        def chk(d, shape):
            if not shape:
                return not isinstance(d, list)
            return isinstance(d, list) and len(d) == shape[0] and all(chk(x, shape[1:]) for x in d)
        return chk(self.data, self.shape)

    def column_range(self, j: Optional[int]) -> Tuple[float, float]:
        vals = []
        if j is None:
            def flat(d):
                if isinstance(d, list):
                    for x in d:
                        flat(x)
                else:
                    vals.append(d)
            flat(self.data)
        else:
            for row in self.data:
                vals.append(row[j])
        return min(vals), max(vals)

    def argmin_rows(self, j: Optional[int], lo: float, hi: float) -> List[int]:
        """Row indices whose column j lies outside [lo, hi]."""
        bad = []
        for i, row in enumerate(self.data):
            v = row[j] if j is not None else row
            if isinstance(v, list):
                if any(x < lo or x > hi for x in v):
                    bad.append(i)
            elif v < lo or v > hi:
                bad.append(i)
        return bad


def read_tables(m: ModuleInfo) -> Dict[str, Table]:
    out: Dict[str, Table] = {}
    for st in m.tree.body:
        if not isinstance(st, ast.Assign) or len(st.targets) != 1 or not isinstance(st.targets[0], ast.Name):
            continue
        name = st.targets[0].id
        v = st.value
        if isinstance(v, ast.Call) and isinstance(v.func, ast.Attribute) and v.func.attr in ('array', 'asarray') and v.args:
            v = v.args[0]
        data = _nested(v)
        if data is None:
            continue
        out[name] = Table(name, data, st.lineno)
    return out
