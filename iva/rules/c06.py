"""C06 - the search information is a faithful, ordered and complete record (DESIGN.md section 3, C06)."""
from __future__ import annotations

import ast
from fractions import Fraction

from ..algebra import FALSE, NONE, RF, TRUE, Lit, rf_pow
from ..index import AnalysisError, FuncInfo
from ..paths import TupleVal, atomv, key_of
from ..report import Ctx
from ..roles import RoleMissing
from . import common as C
from . import containers as K
from .common import attr, sub, var

LEVEL_TEXT = ('Static decision of the structural necessary conditions: the relinking code is executed on a symbolic '
              'three-node heap and must produce L <-> new <-> right; each insertion appends once; both interval '
              'lengths are (x_right - x_left)^(1/N) of the pre-relink neighbours; every evaluated item is inserted '
              'exactly once and nothing else except the two seed ends; every item the library constructs is '
              'Item(Point(GetImage(t)), t); the renewal routine is entered only with the (new, popped) pair of the '
              'selection routine; only the insert routines relink and only the evaluation routine writes a stored item; the first-iteration guard is never re-armed over existing '
              'data; the evolvent behind the stored points is not re-configured by the search; setters store what getters '
              'return.')
EXPLANATION = ('Path summaries of InsertDataItem / InsertFirstDataItem (accessors inlined) are compared with the '
               'expected post-heap; delta stores in the seeding and renewal routines are normalised and compared '
               'with pow(x_r - x_l, 1/N); event traces of the iteration driver pair EVAL(p) with INSERT(p); writers '
               'of links/coordinates/points/values of stored items are enumerated from the points-to relation.')
TRUSTED = ['CPython ast', 'iva engine']
LEVEL_NOTE = 'One genuine defect (local refinement rewrites a stored item) is recorded in known_findings.json.'


def r06_1_3(ctx: Ctx):
    ctx.rule('R06.1', 'relink shape of InsertDataItem on a symbolic heap: L <-> new <-> right, nothing else touched')
    ctx.rule('R06.2', 'InsertFirstDataItem links left <-> right and records left as the first item')
    ctx.rule('R06.3', 'one append to the list of all trials per inserted item; GetCount = its length')
    sd = ctx.ix.cls('SearchData')
    leftF, rightF = K.link_fields(ctx)
    listF = K.trials_list_field(ctx, sd)
    ctx.ok('R06.3', 'SearchData.GetCount', f'GetCount returns len(self.{listF})', sd.lookup('GetCount').loc())
    K.check_insert(ctx, 'R06.1', sd.methods['InsertDataItem'], leftF, rightF, listF, cls=sd)
    K.check_insert_first(ctx, 'R06.2', sd.methods['InsertFirstDataItem'], leftF, rightF, listF)


def r06_4(ctx: Ctx, timing: bool = True):
    """timing=False: the formulas only (C02 re-runs them; *when* a stored length is rewritten is C06's / C16's concern)."""
    rid = 'R06.4'
    ctx.rule(rid, 'lengths: stored delta = (x - x_left)^(1/N) for both new intervals (pre-relink left neighbour) '
                  'and for the seed intervals; N = numberOfFloatVariables')
    roles = C.roles_of(ctx)
    try:
        rn, sdr = roles.renewal, roles.seeding
    except RoleMissing as e:
        ctx.fail(rid, f'role {e.role}', 'iOpt/', str(e), key=f'{rid}::role::{e.role}')
        return
    item = ctx.ix.cls('SearchDataItem')
    ex = ctx.explorer()
    gx, gl = item.lookup('GetX'), item.lookup('GetLeft')
    selfv = var(rn.param_names[0])
    N = attr(attr(attr(selfv, 'task'), 'problem'), 'numberOfFloatVariables')
    new, old = var(rn.param_names[1]), var(rn.param_names[2])
    L = C.getter_value(ex, gl, old)
    X = lambda b: C.getter_value(ex, gx, b)
    n = 0
    for p in C.normal_paths(ex.explore(rn)):
        for tgt, exp_l, exp_r, name in ((old, new, old, 'right new interval (new, old)'),
                                        (new, L, new, 'left new interval (L, new)')):
            sts = C.stores_to(p, base=tgt, field='delta', tkind='attr')
            if not sts:
                early = K.selection_delta_stores(ctx)['old' if tgt is old else 'new']
                if not early:
                    ctx.fail(rid, rn.short, rn.loc(), f'the length of the {name} is not refreshed',
                             key=f'{rid}::{rn.short}::missing::{name}')
                    continue
                # written by the selection routine: right formula, but before the evaluation - the record is no
                # longer updated atomically with the trial
                for s_, val in early:
                    n += 1
                    exp = rf_pow(X(exp_r) - X(exp_l), RF.const(1) / N)
                    okf = isinstance(val, RF) and C.strip_rf(val).equals(C.strip_rf(exp))
                    ctx.check(okf, rid, s_.func.short, s_.loc(), f'delta of the {name} = (x_r - x_l)^(1/N)',
                              f'delta of the {name} is {C.fmt(val)}; expected {C.fmt(exp)}',
                              key=ctx.key_for(rid, s_.func, s_.node))
                    if tgt is old and timing:
                        ctx.fail('R06.9', s_.func.short, s_.loc(),
                                 f'the length of a stored interval ({s_.d["tdesc"]}) is rewritten by the selection '
                                 f'routine, before the new trial is evaluated and inserted: if the evaluation fails '
                                 f'(Solve swallows the exception) the stored length no longer equals (x - x_left)^(1/N)',
                                 key=ctx.key_for('R06.9', s_.func, s_.node))
                continue
            n += 1
            got = C.norm_self(ctx, rn, sts[-1].d['value'])
            exp = rf_pow(X(exp_r) - X(exp_l), RF.const(1) / N)
            ok = isinstance(got, RF) and got.equals(exp)
            ctx.check(ok, rid, rn.short, rn.loc(sts[-1].node), f'delta of the {name} = (x_r - x_l)^(1/N)',
                      f'delta of the {name} is {C.fmt(got)}; expected {C.fmt(exp)}',
                      key=ctx.key_for(rid, rn, sts[-1].node))
            # computed before the relink: the insertion call comes later
            ins = C.call_events(p, among=roles.sd_method('InsertDataItem'))
            ok2 = bool(ins) and p.events.index(sts[-1]) < p.events.index(ins[0])
            ctx.check(ok2, rid, rn.short, rn.loc(sts[-1].node), f'delta of the {name} uses the pre-relink neighbours',
                      f'delta of the {name} is computed after the item is linked in (old.GetLeft() is then the new '
                      f'item itself)', key=f'{rid}::{rn.short}::after-relink::{name}')
    if timing:
        ctx.rule('R06.9', 'stored items are rewritten only after the evaluation of the iteration succeeded')
    ctx.floor(rid, 'delta stores of the iteration', n, 2)
    # seeding routine: middle.delta = (1/2 - 0)^(1/N), right.delta = (1 - 1/2)^(1/N)
    selfs = var(sdr.param_names[0])
    Ns = attr(attr(attr(selfs, 'task'), 'problem'), 'numberOfFloatVariables')
    ns = 0
    for p in C.normal_paths(ex.explore(sdr)):
        items = {key_of(ne.d['result']): ne for ne in C.new_events(p, 'SearchDataItem')}
        xs = {}
        for k, ne in items.items():
            a = ne.d['args']
            xs[k] = a[1] if len(a) > 1 else ne.d['kwargs'].get('x')
        def rank(k):
            # the end points 0 and 1 are constants; whatever lies between them (1/2, or a coordinate computed from a
            # start point) is ordered between them
            c = xs[k].const_value() if isinstance(xs[k], RF) else None
            if c is None:
                return 0.5
            return float(c)
        order = sorted(xs, key=rank)
        for i, k in enumerate(order):
            sts = [s for s in p.stores() if s.d['tkind'] == 'attr' and s.d['field'] == 'delta'
                   and key_of(s.d['base']) == k]
            if i == 0:
                continue      # the left end has no interval
            ns += 1
            if not sts:
                ctx.fail(rid, sdr.short, sdr.loc(), f'seed item with x={C.fmt(xs[k])} gets no interval length',
                         key=f'{rid}::{sdr.short}::seed-missing::{i}')
                continue
            got = C.norm_self(ctx, sdr, sts[-1].d['value'])
            exp = rf_pow(xs[k] - xs[order[i - 1]], RF.const(1) / Ns)
            ok = isinstance(got, RF) and (got.equals(exp) or C.strip_rf(got).equals(C.strip_rf(exp)))
            ctx.check(ok, rid, sdr.short, sdr.loc(sts[-1].node), 'seed interval length = (x - x_left)^(1/N)',
                      f'seed interval length is {C.fmt(got)}; expected {C.fmt(exp)}',
                      key=ctx.key_for(rid, sdr, sts[-1].node))
    ctx.floor(rid, 'seed interval lengths', ns, 2)


def r06_6(ctx: Ctx):
    rid = 'R06.6'
    ctx.rule(rid, 'completeness: every evaluated item is inserted exactly once; the only other inserted items are '
                  'the two unevaluated seed ends')
    roles = C.roles_of(ctx)
    try:
        drv, er = roles.iter_driver, roles.eval_routine
    except RoleMissing as e:
        ctx.fail(rid, f'role {e.role}', 'iOpt/', str(e), key=f'{rid}::role::{e.role}')
        return
    ins = roles.sd_method('InsertDataItem')
    insf = roles.sd_method('InsertFirstDataItem')
    lst = roles.listener_methods()
    insq = {roles.fq(f) for f in ins + insf}

    def inl(f: FuncInfo, st) -> bool:
        q = roles.fq(f)
        if f is er or q in lst or q in insq:
            return False
        r = roles.reach(f)
        return roles.fq(er) in r or bool(r & insq)
    ex = ctx.explorer(inline=inl, max_paths=20000)
    n = 0
    for p in C.normal_paths(ex.explore(drv)):
        evals = [e for e in p.events if e.kind == 'call' and er in e.d['callees'] and not e.d.get('inlined')]
        inserts = [e for e in p.events if e.kind == 'call' and any(c in e.d['callees'] for c in ins)
                   and not e.d.get('inlined')]
        firsts = [e for e in p.events if e.kind == 'call' and any(c in e.d['callees'] for c in insf)
                  and not e.d.get('inlined')]
        ev_keys = []
        for e in evals:
            a = e.d['args'][0] if e.d['args'] else None
            ev_keys.append({key_of(a), key_of(e.d['result'])})
        ins_keys = [key_of(e.d['args'][0]) if e.d['args'] else None for e in inserts]
        for e, ks in zip(evals, ev_keys):
            n += 1
            cnt = sum(1 for k in ins_keys if k in ks)
            later = [i for i in inserts if p.events.index(i) > p.events.index(e) and
                     (key_of(i.d['args'][0]) in ks if i.d['args'] else False)]
            ctx.check(cnt == 1 and len(later) == 1, rid, e.func.short, e.loc(),
                      'the evaluated item is inserted exactly once, after its evaluation',
                      f'an evaluated item is inserted {cnt} times ({len(later)} after its evaluation); expected '
                      f'exactly once after it', key=f'{rid}::{e.func.short}::eval-insert-once',
                      detail={'path': p.describe(60)})
        evaluated = set().union(*ev_keys) if ev_keys else set()
        for i, k in zip(inserts, ins_keys):
            ctx.check(k in evaluated, rid, i.func.short, i.loc(), 'every item passed to InsertDataItem was evaluated',
                      'an item that was never evaluated is inserted into the search data',
                      key=f'{rid}::{i.func.short}::insert-unevaluated')
        for fcall in firsts:
            ends = {key_of(a) for a in fcall.d['args'][:2]}
            ctx.check(len(ends) == 2 and not (ends & evaluated), rid, fcall.func.short, fcall.loc(),
                      'the two seed ends are distinct items that are never evaluated',
                      'InsertFirstDataItem receives an evaluated item or the same item twice',
                      key=f'{rid}::{fcall.func.short}::ends')
    ctx.floor(rid, 'evaluations on paths of the iteration driver', n, 2)
    # nobody else inserts
    allowed = roles.dominated_closure({roles.fq(roles.seeding), roles.fq(roles.renewal)})
    sdc = ctx.ix.cls('SearchData')
    for f in ins + insf:
        for c in roles.callers_of(f):
            q = roles.fq(c)
            if q in allowed or (c.cls is not None and c.cls.is_subclass_of(sdc)):
                continue
            ctx.fail(rid, c.short, c.loc(), f'{f.short} is called outside the seeding and renewal routines',
                     key=f'{rid}::{c.short}::calls::{f.name}')


def r06_5_all_items(ctx: Ctx):
    """Every search item the library constructs is Item(Point(GetImage(t)), t): the stored point is the evolvent
    image of the stored coordinate, wherever the item is built (seeding, selection, or any other routine)."""
    rid = 'R06.5'
    roles = C.roles_of(ctx)
    gi = ctx.ix.func('Evolvent.GetImage')
    item = ctx.ix.cls('SearchDataItem')
    n = 0
    _ = ctx.pta
    skipped = set(getattr(ctx, 'restore_only_skipped', ()))
    for q, f in sorted(ctx.ix.funcs.items()):
        if f.kind != 'function' or not f.module.name.startswith(('iOpt.method', 'iOpt.solver')):
            continue
        if f.cls is not None and (f.cls.is_subclass_of(item) or f.cls is item):
            continue
        if roles.fq(f) in skipped:
            continue        # state-restoring code rebuilds items from a saved state: R03.7 / R11.4 / R20.5 decide it
        if not any(isinstance(nd, ast.Call) and any(o.kind == 'cls' and o.cls is not None and
                                                    o.cls.is_subclass_of(item)
                                                    for o in ctx.pta.expr_pts(f, nd.func))
                   for nd in ast.walk(f.node)):
            continue
        ex = ctx.explorer()
        try:
            paths = C.normal_paths(ex.explore(f))
        except AnalysisError:
            raise
        for p in paths:
            for ne in C.new_events(p):
                if not ne.d['cls'].is_subclass_of(item) or ne.func is not f:
                    continue
                n += 1
                t = C.arg(ne, 1, 'x')
                pt = C.arg(ne, 0, 'y')
                pne = C.new_event_of(p, pt) if pt is not None else None
                img_t = None
                if pne is not None:
                    a0 = C.arg(pne, 0, 'floatVariables')
                    ce = C.image_call_of(p, a0, gi) if a0 is not None else None
                    if ce is not None:
                        img_t = ce.d['args'][0] if ce.d['args'] else None
                ok = isinstance(img_t, RF) and isinstance(t, RF) and key_of(img_t) == key_of(t)
                ctx.check(ok, rid, f.short, f.loc(ne.node),
                          'the item is built as Item(Point(GetImage(t)), t)',
                          f'a search item is built with coordinate {C.fmt(t)} and a point that is not '
                          f'Point(Evolvent.GetImage(<the same coordinate>)) '
                          f'({"GetImage(" + C.fmt(img_t) + ")" if img_t is not None else C.fmt(pt)}): the stored '
                          f'point is not the evolvent image of the stored coordinate',
                          key=f'{rid}::{f.short}::item-not-image')
    ctx.floor(rid, 'search item constructions in the library', n, 1)


def r06_7_hint_source(ctx: Ctx):
    """The renewal routine (hinted insertion + lengths + characteristics) is entered only from the iteration driver,
    with the pair produced by the selection routine: that is what guarantees x_left < x_new < x_hint strictly.  A hint
    obtained from the covering lookup only guarantees x_left <= x_new < x_hint."""
    rid = 'R06.7'
    roles = C.roles_of(ctx)
    try:
        rn, drv, sd = roles.renewal, roles.iter_driver, roles.seeding
    except RoleMissing as e:
        ctx.fail(rid, f'role {e.role}', 'iOpt/', str(e), key=f'{rid}::role::{e.role}')
        return
    sel = roles.selection
    lst = roles.listener_methods()
    rq = roles.fq(rn)

    def inl(f: FuncInfo, st) -> bool:
        q = roles.fq(f)
        if f is rn or f is sel or q in lst:
            return False
        return rq in roles.reach(f)
    ex = ctx.explorer(inline=inl, max_paths=20000)
    n = 0
    for p in C.normal_paths(ex.explore(drv)):
        sels = [e for e in p.events if e.kind == 'call' and sel in e.d['callees'] and not e.d.get('inlined')]
        for r_ in [e for e in p.events if e.kind == 'call' and rn in e.d['callees'] and not e.d.get('inlined')]:
            n += 1
            a = r_.d['args']
            ok = False
            for s_ in sels:
                if p.events.index(s_) > p.events.index(r_):
                    continue
                res = s_.d['result']
                exp0 = key_of(atomv(('sub', key_of(res), RF.const(0).key(), 0)))
                exp1 = key_of(atomv(('sub', key_of(res), RF.const(1).key(), 0)))
                if len(a) >= 2 and key_of(a[0]) == exp0 and key_of(a[1]) == exp1:
                    ok = True
            ctx.check(ok, rid, r_.func.short, r_.loc(),
                      'the renewal routine receives the (new, old) pair of the selection routine',
                      f'{r_.func.short} enters the renewal routine {rn.short} '
                      f'not with the (new, popped interval) pair of the selection routine: the inserted coordinate is '
                      f'not the guarded interior point of the hinted interval, so it can coincide with a stored '
                      f'coordinate (zero length, list not strictly increasing)',
                      key=f'{rid}::{r_.func.short}::renewal-without-selection',
                      detail={'arguments': [C.fmt(x) for x in a[:2]]})
    for c in roles.callers_of(rn):
        if roles.fq(c) not in roles.reach(drv) and c is not drv:
            ctx.fail(rid, c.short, c.loc(), f'{c.short} calls the renewal routine outside the iteration driver',
                     key=f'{rid}::{c.short}::calls-renewal')
    ctx.floor(rid, 'renewal calls on paths of the iteration driver', n, 1)


def r06_8(ctx: Ctx):
    rid = 'R06.8'
    ctx.rule(rid, 'who may write stored items: links only in the insert routines; the coordinate only in the '
                  'constructor; point and value of an item of the search data only in the evaluation routine')
    roles = C.roles_of(ctx)
    pta = ctx.pta
    item = ctx.ix.cls('SearchDataItem')
    sdc = ctx.ix.cls('SearchData')
    leftF, rightF = K.link_fields(ctx)
    ins_ok = set()
    for c in [sdc] + sdc.all_subclasses():
        for nm in ('InsertDataItem', 'InsertFirstDataItem'):
            if nm in c.methods:
                ins_ok.add(roles.fq(c.methods[nm]))
    setters = {roles.fq(item.lookup(n)): n for n in ('SetLeft', 'SetRight') if item.lookup(n)}
    ins_ok = roles.dominated_closure(ins_ok)
    # link fields: direct stores only in the setters; setters called only from the insert routines
    n = 0
    for m in roles.mutations():
        if m.init_self or m.kind not in ('attr', 'aug'):
            continue
        if m.field in (leftF, rightF):
            n += 1
            q = roles.fq(m.func)
            ctx.check(q in setters or q in ins_ok, rid, m.func.short, m.loc(), 'link field written by a link setter',
                      f'a neighbour link is written outside the insert routines: {m.text()}',
                      key=ctx.key_for(rid, m.func, m.node))
        if m.field == '_SearchDataItem__x':
            ctx.fail(rid, m.func.short, m.loc(), f'the curve coordinate of an item is rewritten: {m.text()}',
                     key=ctx.key_for(rid, m.func, m.node))
    for sq, nm in setters.items():
        for (caller, _nid) in pta.callers.get(sq, ()):
            n += 1
            f = ctx.ix.funcs.get(caller)
            ctx.check(caller in ins_ok, rid, f.short if f else caller, f.loc() if f else '',
                      f'{nm} is called from an insert routine',
                      f'{nm} is called outside the insert routines: the neighbour structure can be corrupted',
                      key=f'{rid}::{caller}::calls::{nm}')
    ctx.floor(rid, 'link writers and link-setter call sites', n, 6)
    # point / value of items that live in the search data
    try:
        er, tw = roles.eval_routine, roles.task_wrapper
    except RoleMissing as e:
        ctx.fail(rid, f'role {e.role}', 'iOpt/', str(e), key=f'{rid}::role::{e.role}')
        return
    listF = K.trials_list_field(ctx, sdc)
    stored = set()
    for o in list(pta._objs.values()):
        if o.cls is not None and o.cls.is_subclass_of(sdc) and o.kind in ('inst', 'ext_inst'):
            for l in pta.read_field(o, listF):
                stored |= pta.elems(l, None, False)
    stored = {o for o in stored if o.kind in ('inst',) and o.cls is not None and o.cls.is_subclass_of(item)}
    ctx.floor(rid, 'abstract items held by the search data', len(stored), 2)
    parts = set()          # objects that make up stored items: the item, its point, its value list and holders
    for it in stored:
        parts.add(it)
        for pt in pta.read_field(it, 'point'):
            if pt.kind in ('inst', 'ext_inst'):
                parts.add(pt)
                for arr in pta.read_field(pt, 'floatVariables'):
                    if arr.kind in ('ndarray', 'list'):
                        parts.add(arr)
        for fl in pta.read_field(it, 'functionValues'):
            parts.add(fl)
            for h in pta.elems(fl, None, False):
                if h.kind in ('inst', 'ext_inst'):
                    parts.add(h)
    pcs = {roles.fq(p) for p in roles.problem_calcs}
    allowed = {roles.fq(er), roles.fq(tw)} | pcs | {roles.fq(item.lookup(n)) for n in ('SetZ', 'SetIndex')}
    allowed = roles.dominated_closure(allowed)
    fields = {'point', 'floatVariables', 'value', 'functionValues', '_SearchDataItem__z', '_SearchDataItem__index'}
    nw = 0
    for m in roles.mutations():
        if m.init_self:
            continue
        if not m.func.module.name.startswith(('iOpt.method', 'iOpt.solver', 'iOpt.output_system', 'iOpt.solution')):
            continue
        hit = False
        if m.kind in ('attr', 'aug') and m.field in fields:
            hit = bool(m.bases & parts)
        elif m.kind in ('sub', 'mutcall', 'del', 'inplace', 'aug'):
            hit = any(b in parts and b.kind in ('list', 'ndarray') for b in m.bases)
        if not hit:
            continue
        nw += 1
        q = roles.fq(m.func)
        ctx.check(q in allowed, rid, m.func.short, m.loc(),
                  f'stored-item field written on the evaluation path: {m.text()[:50]}',
                  f'{m.func.short} writes into an item that is stored in the search data ({m.text()}): its point/'
                  f'value no longer is the image/objective of its coordinate',
                  key=f'{rid}::{m.func.module.relpath}::{m.func.short}::writes-stored-item::'
                      f'{m.field if isinstance(m.field, str) else "[]"}')
    ctx.floor(rid, 'write sites touching stored items', nw, 3)
    # the recorded value z / index of a stored item: set through the setters, by the evaluation routine only
    zsetters = {roles.fq(item.lookup(n_)): n_ for n_ in ('SetZ', 'SetIndex') if item.lookup(n_)}
    zallowed = roles.dominated_closure({roles.fq(er)})
    for sq, nm in zsetters.items():
        for (caller, _nid) in pta.callers.get(sq, ()):
            f = ctx.ix.funcs.get(caller)
            if f is not None and not f.module.name.startswith(('iOpt.method', 'iOpt.solver')):
                continue
            ctx.check(caller in zallowed, rid, f.short if f else caller, f.loc() if f else '',
                      f'{nm} is called from the evaluation routine',
                      f'{f.short if f else caller} calls {nm} on an item outside the evaluation routine: the value '
                      f'recorded for a stored trial no longer is the objective at the image of its coordinate',
                      key=f'{rid}::{caller}::calls::{nm}')


def check(ctx: Ctx):
    if C.want(ctx, 'R06.1') or C.want(ctx, 'R06.2') or C.want(ctx, 'R06.3'):
        r06_1_3(ctx)
    if C.want(ctx, 'R06.4'):
        r06_4(ctx)
    if C.want(ctx, 'R06.5'):
        ctx.rule('R06.5', 'wiring of point/coordinate/value of stored items = R02.1 + R02.8 (new item) + R04.4, '
                          're-run here')
        from . import c02, c04
        c02.r02_1(ctx, coordinate_fixed=False)
        c02.r02_8_selection(ctx)
        c04.r04_4(ctx)
        r06_5_all_items(ctx)
    if C.want(ctx, 'R06.6'):
        r06_6(ctx)
        ctx.rule('R06.10', 'the seeding routine runs once per solver: first-iteration typestate (= R11.4) and the '
                           'state-restoring entry points leave it cleared, re-run here')
        from . import c11
        c11.r11_4(ctx)
        c11.r11_4_restore(ctx)
    if C.want(ctx, 'R06.7'):
        ctx.rule('R06.7', 'order: the new coordinate is strictly inside the interval whose right end is the hint '
                          '(R02.4 interior guard + R02.8 hint identity), re-run here')
        from . import c02
        c02.r02_4(ctx)
        r06_7_hint_source(ctx)
    if C.want(ctx, 'R06.8'):
        r06_8(ctx)
    if C.want(ctx, 'R06.11'):
        r06_11(ctx)
    if C.want(ctx, 'R06.12'):
        r06_12(ctx)


def r06_12(ctx: Ctx):
    """Accessor agreement of the stored record: what SetF stores is what GetF returns.  The whole record-keeping of
    the search goes through these pairs (coordinate, value, index, neighbour links)."""
    rid = 'R06.12'
    ctx.rule(rid, 'accessor agreement: for every Set<F>/Get<F> pair of SearchDataItem the setter stores its argument in '
                  'the attribute the getter returns')
    item = ctx.ix.cls('SearchDataItem')
    ex = ctx.explorer()
    n = 0
    for name, setter in sorted(item.methods.items()):
        if not name.startswith('Set') or setter.kind != 'function' or len(setter.param_names) != 2:
            continue
        getter = item.methods.get('Get' + name[3:])
        if getter is None or len(getter.param_names) != 1:
            continue
        gp = C.normal_paths(ex.explore(getter))
        sp = C.normal_paths(ex.explore(setter))
        if len(gp) != 1 or not isinstance(gp[0].value, RF):
            continue
        ga = gp[0].value.single_atom()
        if not (isinstance(ga, tuple) and len(ga) == 4 and ga[0] == 'attr' and ga[1] == key_of(var(getter.param_names[0]))):
            continue
        fld = ga[2]
        n += 1
        ok = bool(sp)
        for p in sp:
            v = p.state.heap.get((key_of(var(setter.param_names[0])), fld))
            ok = ok and v is not None and key_of(v) == key_of(var(setter.param_names[1]))
        ctx.check(ok, rid, setter.short, setter.loc(), f'{name} stores its argument in {fld}, which Get{name[3:]} returns',
                  f'{setter.short} does not store its argument in {fld}, the attribute Get{name[3:]} returns: what the '
                  f'search records is not what it reads back', key=f'{rid}::{setter.short}::agrees-with-getter')
    ctx.floor(rid, 'Set/Get pairs of the search record', n, 2)


def r06_11(ctx: Ctx):
    """Stored points stay images of their coordinates only while the evolvent that produced them keeps its box:
    the evolvent owns its bound arrays (copies taken by the constructor / SetBounds), and no routine of the solving
    API re-targets it."""
    rid = 'R06.11'
    ctx.rule(rid, 'the evolvent behind the stored points keeps its box: the bound arrays are private copies and the '
                  'solving API never calls SetBounds')
    from . import evo
    evo.rule_box_copied(ctx, rid)
    roles = C.roles_of(ctx)
    e = evo.evo_of(ctx)
    sb = e.cls.methods.get('SetBounds')
    api = [roles.api(n) for n in ('Solve', 'DoGlobalIteration', 'DoLocalRefinement', 'GetResults')]
    reach = ctx.pta.reachable([a for a in api if a is not None])
    # configuration of the evolvent = what its constructor stores, minus the working attributes the queries rewrite
    init = e.cls.methods['__init__']
    scratch = set(e._scratch_attrs())
    try:
        from . import caches
        scratch |= set(caches.lazy_caches(ctx, e.cls))
    except AnalysisError:
        pass
    # attributes the queries themselves (re)write are working storage (scratch arrays, size-keyed work buffers):
    # their discipline is C17's subject (R17.3 / R17.4), not configuration
    qs = [e.cls.methods[n_] for n_ in ('GetImage', 'GetInverseImage', 'GetPreimages') if n_ in e.cls.methods]
    qreach = ctx.pta.reachable(qs)
    scratch |= {m.field for m in roles.mutations() if not m.init_self and m.kind in ('attr', 'aug') and
                isinstance(m.field, str) and roles.fq(m.func) in qreach and
                any(o.cls is not None and o.cls.is_subclass_of(e.cls) for o in m.bases)}
    config = {m.field for m in roles.mutations() if m.init_self and m.func is init and isinstance(m.field, str)} - scratch
    n_w = 0
    for m in roles.mutations():
        if m.init_self or m.kind not in ('attr', 'aug') or m.field not in config:
            continue
        if not any(o.cls is not None and o.cls.is_subclass_of(e.cls) for o in m.bases):
            continue
        n_w += 1
        if roles.fq(m.func) in reach:
            ctx.fail(rid, m.func.short, m.loc(),
                     f'{m.text()[:60]} re-configures the evolvent ({m.field}) from inside the search: points stored '
                     f'before are images under the old configuration, points stored after under the new one - the '
                     f'records are no longer all images of their coordinates under one evolvent',
                     key=f'{rid}::{m.func.short}::reconfigures::{m.field}')
    ctx.ok(rid, e.cls.name, f'{len(config)} configuration attributes, {n_w} writers outside the constructor, none '
                            f'reachable from the solving API', e.cls.module.relpath)
    if sb is not None:
        ctx.check(roles.fq(sb) not in reach, rid, sb.short, sb.loc(),
                  'SetBounds is not reachable from the solving API',
                  'a routine of the solving API re-targets the evolvent (SetBounds): points stored before are no '
                  'longer images of their coordinates under the solver\'s evolvent',
                  key=f'{rid}::{sb.short}::reachable-from-api')
