"""C18 - problem metadata is well-formed; published tables agree with the functions - PARTIAL
(DESIGN.md section 3, C18)."""
from __future__ import annotations

import ast
from fractions import Fraction
from typing import Dict, List, Optional, Tuple

from ..algebra import NONE, RF, Lit
from ..index import AnalysisError, ClassInfo, FuncInfo
from ..paths import CompVal, Event, Path, TupleVal, atomv, key_of
from ..report import Ctx
from ..tables import Table, read_tables
from . import common as C
from .common import attr, sub, var

LEVEL_TEXT = ('PARTIAL. Decided statically, for every shipped family and all valid constructor arguments at once: the '
              'constructors are evaluated over an abstract array domain (length expression + constant fill / '
              'per-index constants / table column) and must give len(names) = len(lower) = len(upper) = declared '
              'dimension, lower < upper elementwise, exactly one objective, and a known optimum inside the box - for '
              'table-driven optima over every row of the shipped tables; table shapes match the NUM_* constants and '
              'the index expressions used; a shipped Calculate returns a point-independent penalty only strictly '
              'outside a bound (closed declared box); nothing outside the problem classes writes into bound vectors, '
              'names or the known optimum. Metadata objects are allocated per construction; the boundary members of a table-driven family are constructed as themselves; a method that re-assigns an attribute derived from a constructor argument re-derives everything derived from that argument (no such method on this tree); the value Calculate stores does not read what the holder held before. NOT decided: optimum-in-box for generated GKLS points, and the agreement '
              'of the min/max/Lipschitz tables with the functions (numerical).')
EXPLANATION = ('Path summaries of each constructor are replayed into abstract arrays; lengths are compared as '
               'expressions in the constructor argument, fills as exact constants; literal tables are read from the '
               'module AST (all rows) without importing the modules.')
TRUSTED = ['CPython ast', 'iva engine', 'np.ndarray(shape=n) has n elements; ndarray.fill(c) sets every element']
LEVEL_NOTE = 'Second sentence of the property (tables vs functions) and GKLS optimum-in-box are not covered.'


class AV:
    """Abstract array: length expression, element abstraction."""

    def __init__(self, length: Optional[RF]):
        self.length = length
        self.fill: Optional[object] = None          # value of every element (RF) if known
        self.idx: Dict[int, object] = {}            # constant index -> value
        self.loop: Optional[Tuple[object, object]] = None   # (iter atom key, value) : a[i] = value for all i of a loop
        self.loop_range: Optional[RF] = None

    def elem_values(self) -> Optional[List[object]]:
        """All element values if the array is fully described, else None."""
        n = self.length.const_value() if self.length is not None else None
        if self.fill is not None and not self.idx and self.loop is None:
            return [self.fill]
        if n is not None and n.denominator == 1:
            out = []
            for i in range(int(n)):
                if i in self.idx:
                    out.append(self.idx[i])
                elif self.fill is not None:
                    out.append(self.fill)
                else:
                    return None
            return out
        if self.loop is not None and self.loop_range is not None and self.length is not None and \
                self.loop_range.equals(self.length):
            return [self.loop[1]]
        return None


def shape_len(v) -> Optional[RF]:
    if isinstance(v, TupleVal) and len(v.items) == 1:
        return v.items[0] if isinstance(v.items[0], RF) else None
    if isinstance(v, RF):
        return v
    return None


def range_len(k) -> Optional[RF]:
    """Length of ('range', a[, b]) atom key."""
    if isinstance(k, tuple) and k and k[0] == 'range':
        if len(k) == 2:
            return C.rf_from_key(k[1])
        if len(k) == 3:
            return C.rf_from_key(k[2]) - C.rf_from_key(k[1])
    return None


def replay(p: Path) -> Dict[object, AV]:
    arrays: Dict[object, AV] = {}
    for e in p.events:
        if e.kind == 'call' and e.d.get('ext') and isinstance(e.d.get('callee'), str):
            c = e.d['callee']
            res = e.d.get('result')
            if res is None:
                continue
            if c in ('numpy.ndarray', 'numpy.zeros', 'numpy.ones', 'numpy.empty', 'numpy.full'):
                shp = e.d['kwargs'].get('shape', e.d['args'][0] if e.d['args'] else None)
                av = AV(shape_len(shp))
                if c == 'numpy.zeros':
                    av.fill = RF.const(0)
                if c == 'numpy.ones':
                    av.fill = RF.const(1)
                if c == 'numpy.full':
                    fv = e.d['kwargs'].get('fill_value', e.d['args'][1] if len(e.d['args']) > 1 else None)
                    if isinstance(fv, TupleVal) and all(isinstance(x, RF) for x in fv.items):
                        av.idx = dict(enumerate(fv.items))      # a list display broadcast over the coordinates
                    elif isinstance(fv, RF) and key_of(fv) in arrays:
                        src = arrays[key_of(fv)]                # an array filled element-wise from another array
                        av.idx, av.fill, av.loop = dict(src.idx), src.fill, src.loop
                        av.loop_range = getattr(src, 'loop_range', None)
                    elif isinstance(fv, RF):
                        av.fill = fv
                arrays[key_of(res)] = av
        elif e.kind == 'call' and e.d['name'] == 'fill' and e.d.get('recv') is not None:
            k = key_of(e.d['recv'])
            if k in arrays and e.d['args']:
                arrays[k].fill = e.d['args'][0]
                arrays[k].idx = {}
                arrays[k].loop = None
        elif e.kind == 'store' and e.d['tkind'] == 'sub':
            k = key_of(e.d['base'])
            if k not in arrays:
                continue
            i = e.d['field']
            c = i.const_value() if isinstance(i, RF) else None
            if c is not None and c.denominator == 1:
                arrays[k].idx[int(c)] = e.d['value']
            else:
                a = i.single_atom() if isinstance(i, RF) else None
                if isinstance(a, tuple) and a[0] == 'iter':
                    arrays[k].loop = (a, e.d['value'])
                    arrays[k].loop_range = range_len(a[3]) if len(a) > 3 else None
    return arrays


def av_of(value, arrays: Dict[object, AV]) -> Optional[AV]:
    if isinstance(value, CompVal):
        it = value.iter
        n = None
        if isinstance(it, RF):
            a = it.single_atom()
            n = range_len(a) if isinstance(a, tuple) and a and a[0] == 'range' else it
        av = AV(n)
        av.fill = value.elt
        return av
    if isinstance(value, TupleVal):
        av = AV(RF.const(len(value.items)))
        av.idx = dict(enumerate(value.items))
        return av
    if value is None:
        return None
    return arrays.get(key_of(value))


def const_of(v) -> Optional[Fraction]:
    return v.const_value() if isinstance(v, RF) else None


def _setup_module(name: str) -> bool:
    """A module of the problems package that holds construction helpers shared by the families (not a generator of
    coefficient tables)."""
    return name.startswith('iOpt.problems.') and 'generation' not in name and '_function' not in name and \
        'GKLS' not in name


def shipped_problems(ctx: Ctx) -> List[ClassInfo]:
    base = ctx.ix.cls('Problem')
    # intermediate base classes (no constructor and no objective of their own, with shipped subclasses) only carry
    # helpers shared by the families
    return sorted([c for c in base.all_subclasses() if c.module.name.startswith('iOpt.problems') and
                   not ('__init__' not in c.methods and 'Calculate' not in c.methods and c.subclasses)],
                  key=lambda c: c.name)


def module_tables(ctx: Ctx) -> Dict[str, Dict[str, Table]]:
    cache = getattr(ctx, '_tables', None)
    if cache is None:
        cache = ctx._tables = {}
        for m in ctx.ix.modules.values():
            if m.name.startswith('iOpt.problems') and ('generation' in m.name):
                cache[m.name] = read_tables(m)
    return cache


def table_of_atom(ctx: Ctx, a) -> Optional[Tuple[Table, Optional[int], str]]:
    """sub(sub(global T, row), col) or sub(global T, idx) -> (table, column or None, module)."""
    if not (isinstance(a, tuple) and a and a[0] == 'sub'):
        return None
    base, idx = a[1], a[2]
    tabs = module_tables(ctx)
    if isinstance(base, tuple) and base and base[0] == 'sub':
        inner = base[1]
        if isinstance(inner, tuple) and inner and inner[0] == 'global' and inner[1] in tabs and inner[2] in tabs[inner[1]]:
            col = C.rf_from_key(idx).const_value()
            return tabs[inner[1]][inner[2]], (int(col) if col is not None else None), inner[1]
    if isinstance(base, tuple) and base and base[0] == 'global' and base[1] in tabs and base[2] in tabs[base[1]]:
        return tabs[base[1]][base[2]], None, base[1]
    return None


def check_problem(ctx: Ctx, cls: ClassInfo):
    rid = 'R18.1'
    init = cls.methods.get('__init__')
    if init is None:
        ctx.fail(rid, cls.name, cls.module.relpath, 'problem class has no constructor', key=f'{rid}::{cls.name}::no-init')
        return 0
    helper_mods = ('iOpt.problems.grishagin_function',)
    base = ctx.ix.cls('Problem')

    def inl(f, st) -> bool:
        if f.name == 'GetOptimumPoint' and f.module.name.startswith(helper_mods):
            return True
        # construction helpers shared by the problem classes (static factories of the base class, module functions
        # of the problem modules) are part of the constructor
        if f.name in ('__init__', 'Calculate'):
            return False
        return f.module is base.module or (f.cls is not None and f.cls.is_subclass_of(base)) or \
            (f.cls is None and (f.module is cls.module or _setup_module(f.module.name)))
    ex = ctx.explorer(unroll=1, max_paths=8000, inline=inl)
    selfv = var(init.param_names[0])
    sk = key_of(selfv)
    n = 0
    for p in C.normal_paths(ex.explore(init)):
        # consider the path on which every loop body ran once (fills visible)
        loops = [e for e in p.events if e.kind == 'loopexit' and e.d['k'] == 0 and
                 (e.depth == 0 or inl(e.func, None))]
        if loops:
            continue
        n += 1
        heap = p.state.heap
        arrays = replay(p)
        eq = {}
        dim = heap.get((sk, 'numberOfFloatVariables'))
        loc = init.loc()
        # objectives
        nobj = heap.get((sk, 'numberOfObjectives'))
        ctx.check(const_of(nobj) == 1, rid, cls.name, loc, 'exactly one objective',
                  f'{cls.name} declares numberOfObjectives = {C.fmt(nobj)}', key=f'{rid}::{cls.name}::objectives')
        ctx.check(isinstance(dim, RF), rid, cls.name, loc, f'dimension is {C.fmt(dim)}',
                  f'{cls.name} does not set numberOfFloatVariables', key=f'{rid}::{cls.name}::dimension')
        if not isinstance(dim, RF):
            continue
        avs = {}
        for fld in ('floatVariableNames', 'lowerBoundOfFloatVariables', 'upperBoundOfFloatVariables'):
            v = heap.get((sk, fld))
            av = av_of(v, arrays)
            avs[fld] = av
            ok = av is not None and av.length is not None and av.length.equals(dim)
            ctx.check(ok, rid, cls.name, loc, f'len({fld}) = dimension',
                      f'{cls.name}: length of {fld} is {C.fmt(av.length) if av is not None and av.length is not None else "unknown"}'
                      f' but the declared dimension is {C.fmt(dim)}', key=f'{rid}::{cls.name}::len::{fld}')
        lo, hi = avs['lowerBoundOfFloatVariables'], avs['upperBoundOfFloatVariables']
        lov = lo.elem_values() if lo is not None else None
        hiv = hi.elem_values() if hi is not None else None
        ok_b = lov is not None and hiv is not None and all(const_of(x) is not None for x in lov + hiv)
        if ok_b:
            if len(lov) == 1 and len(hiv) > 1:
                lov = lov * len(hiv)
            if len(hiv) == 1 and len(lov) > 1:
                hiv = hiv * len(lov)
            ok_b = len(lov) == len(hiv) and all(const_of(a) < const_of(b) for a, b in zip(lov, hiv))
        ctx.check(ok_b, rid, cls.name, loc, f'lower < upper elementwise ({[str(const_of(x)) for x in (lov or [])]} < '
                                            f'{[str(const_of(x)) for x in (hiv or [])]})',
                  f'{cls.name}: bounds are not provably lower < upper in every coordinate (lower '
                  f'{[C.fmt(x) for x in (lov or [])]}, upper {[C.fmt(x) for x in (hiv or [])]})',
                  key=f'{rid}::{cls.name}::bounds')
        # names are all assigned
        nm = avs['floatVariableNames']
        ctx.check(nm is not None and (nm.fill is not None or nm.loop is not None or nm.elem_values() is not None), rid,
                  cls.name, loc, 'every coordinate has a name',
                  f'{cls.name}: not every coordinate gets a name', key=f'{rid}::{cls.name}::names')
        # known optimum
        check_optimum(ctx, cls, init, p, arrays, heap, sk, lov, hiv, dim)
    return n


def check_optimum(ctx: Ctx, cls, init, p: Path, arrays, heap, sk, lov, hiv, dim):
    rid = 'R18.2'
    loc = init.loc()
    ko = heap.get((sk, 'knownOptimum'))
    kav = av_of(ko, arrays)
    trial = None
    if kav is not None:
        vals = kav.elem_values()
        if vals:
            trial = vals[0]
    if isinstance(ko, TupleVal) and ko.items:
        trial = ko.items[0]
    te = C.new_event_of(p, trial) if trial is not None else None
    if not ctx.check(te is not None and te.d['cls'].name == 'Trial', rid, cls.name, loc, 'knownOptimum[0] is a Trial',
                     f'{cls.name}: knownOptimum is not set to a Trial', key=f'{rid}::{cls.name}::trial'):
        return
    pt = C.new_event_of(p, te.d['args'][0]) if te.d['args'] else None
    if not ctx.check(pt is not None and pt.d['cls'].name == 'Point', rid, cls.name, loc, 'the optimum has a Point',
                     f'{cls.name}: the known optimum has no Point', key=f'{rid}::{cls.name}::point'):
        return
    coords = pt.d['args'][0] if pt.d['args'] else None
    cav = av_of(coords, arrays)
    if cav is None:
        ce = C.call_event_of_result(p, coords) if coords is not None else None
        if ce is not None and not ce.d.get('ext'):
            ctx.note(f'{cls.name}: known optimum point comes from {ce.d["name"]}() (generator output) - optimum-in-box '
                     f'not decided for this family')
            ctx.extra_coverage.setdefault('optimum_in_box_not_decided', []).append(cls.name)
            return
        ctx.fail(rid, cls.name, loc, f'{cls.name}: the coordinates of the known optimum are not an analysable array',
                 key=f'{rid}::{cls.name}::coords')
        return
    okl = cav.length is not None and cav.length.equals(dim)
    ctx.check(okl, rid, cls.name, loc, 'the optimum point has `dimension` coordinates',
              f'{cls.name}: the known optimum has {C.fmt(cav.length) if cav.length is not None else "?"} coordinates, '
              f'the problem {C.fmt(dim)}', key=f'{rid}::{cls.name}::point-length')
    vals = cav.elem_values()
    if not ctx.check(vals is not None and lov is not None and hiv is not None, rid, cls.name, loc,
                     'every coordinate of the optimum is described', f'{cls.name}: some coordinate of the known optimum '
                                                                     f'is never assigned', key=f'{rid}::{cls.name}::assigned'):
        return
    n = max(len(vals), len(lov), len(hiv))
    vals = vals * n if len(vals) == 1 else vals
    lo = lov * n if len(lov) == 1 else lov
    hi = hiv * n if len(hiv) == 1 else hiv
    for i, (v, a, b) in enumerate(zip(vals, lo, hi)):
        a, b = const_of(a), const_of(b)
        if a is None or b is None:
            continue            # bounds not constant: already reported by R18.1
        c = const_of(v)
        if c is not None:
            ctx.check(a <= c <= b, rid, cls.name, loc, f'optimum coordinate {i} = {c} lies in [{a}, {b}]',
                      f'{cls.name}: known optimum coordinate {i} = {c} lies outside the box [{a}, {b}]',
                      key=f'{rid}::{cls.name}::coord{i}')
            continue
        at = v.single_atom() if isinstance(v, RF) else None
        tb = table_of_atom(ctx, C.strip_versions(at)) if at is not None else None
        if tb is None:
            ctx.fail(rid, cls.name, loc, f'{cls.name}: known optimum coordinate {i} = {C.fmt(v)} cannot be bounded',
                     key=f'{rid}::{cls.name}::coord{i}::unbounded')
            continue
        table, col, mod = tb
        if col is None:
            bad = table.argmin_rows(None, float(a), float(b))
            rng = table.column_range(None)
        else:
            bad = table.argmin_rows(col, float(a), float(b))
            rng = table.column_range(col)
        ctx.check(not bad, rid, cls.name, f'{ctx.ix.modules[mod].relpath}:{table.lineno}',
                  f'optimum coordinate {i} = {table.name}[...]{"[" + str(col) + "]" if col is not None else ""} lies in '
                  f'[{a}, {b}] for all {table.shape[0]} rows (range {rng[0]}..{rng[1]})',
                  f'{cls.name}: {table.name} rows {bad[:5]} put the known optimum outside the box [{a}, {b}]',
                  key=f'{rid}::{cls.name}::coord{i}::table::{table.name}')


def r18_3(ctx: Ctx):
    rid = 'R18.3'
    ctx.rule(rid, 'table shapes: every shipped literal table is rectangular and matches the NUM_* constants and the '
                  'index ranges used by Calculate')
    tabs = module_tables(ctx)
    n = 0
    for mod, ts in sorted(tabs.items()):
        m = ctx.ix.modules[mod]
        consts = {}
        for st in m.tree.body:
            if isinstance(st, ast.Assign) and len(st.targets) == 1 and isinstance(st.targets[0], ast.Name) and \
                    isinstance(st.value, ast.Constant) and isinstance(st.value.value, int):
                consts[st.targets[0].id] = st.value.value
        nprob = next((v for k, v in consts.items() if 'PROBLEMS' in k), None)
        ncoef = next((v for k, v in consts.items() if 'COEFF' in k), None)
        for name, t in sorted(ts.items()):
            if not isinstance(t.data, list) or not t.data:
                continue
            n += 1
            ctx.check(t.rectangular(), rid, f'{mod.split(".")[-1]}.{name}', f'{m.relpath}:{t.lineno}',
                      f'table {name} is rectangular with shape {t.shape}', f'table {name} is ragged',
                      key=f'{rid}::{mod}::{name}::rect')
            if nprob is not None and len(t.shape) == 2:
                okr = t.shape[0] == nprob
                ctx.check(okr, rid, f'{mod.split(".")[-1]}.{name}', f'{m.relpath}:{t.lineno}',
                          f'{name} has one row per problem ({nprob})',
                          f'{name} has {t.shape[0]} rows but the family has {nprob} problems', key=f'{rid}::{mod}::{name}::rows')
                if ncoef is not None and t.shape[1] not in (2,):
                    ctx.check(t.shape[1] >= ncoef, rid, f'{mod.split(".")[-1]}.{name}', f'{m.relpath}:{t.lineno}',
                              f'{name} has at least NUM_*_COEFF = {ncoef} columns',
                              f'{name} has {t.shape[1]} columns but Calculate reads {ncoef}',
                              key=f'{rid}::{mod}::{name}::cols')
    ctx.floor(rid, 'literal tables read', n, 10)
    # Grishagin: 2 coordinates per function, 100 functions; matcon rows for (fn-1)//10
    g = tabs.get('iOpt.problems.grishagin_function.grishagin_generation', {})
    if 'rand_minimums' in g:
        ctx.check(g['rand_minimums'].shape == (200,), rid, 'grishagin_generation.rand_minimums',
                  'iOpt/problems/grishagin_function/grishagin_generation.py', '200 = 2 x 100 optimum coordinates',
                  f'rand_minimums has shape {g["rand_minimums"].shape}, expected (200,)', key=f'{rid}::rand_minimums')
    if 'matcon' in g:
        ctx.check(g['matcon'].shape == (10, 45), rid, 'grishagin_generation.matcon',
                  'iOpt/problems/grishagin_function/grishagin_generation.py', '10 seeds of 45 bits',
                  f'matcon has shape {g["matcon"].shape}, expected (10, 45)', key=f'{rid}::matcon')


def r18_4(ctx: Ctx):
    rid = 'R18.4'
    ctx.rule(rid, 'GKLS: every coordinate of the global minimiser that can leave the box is mirrored under a '
                  'two-sided boundary test; the tests of all coordinates agree (sibling agreement)')
    g = ctx.ix.find_cls('GKLSFunction')
    if g is None:
        return
    fn = g.methods.get('GKLS_arg_generate')
    if fn is None:
        raise AnalysisError('GKLSFunction.GKLS_arg_generate vanished')
    selfn = fn.param_names[0]
    # single-definition locals are expanded (globalMinimizer = minima.local_min[1]; minima = self.GKLS_minima)
    defs: Dict[str, list] = {}
    for n in ast.walk(fn.node):
        if isinstance(n, ast.Assign) and len(n.targets) == 1 and isinstance(n.targets[0], ast.Name):
            defs.setdefault(n.targets[0].id, []).append(n.value)
        elif isinstance(n, (ast.AugAssign, ast.AnnAssign, ast.For)) and isinstance(n.target, ast.Name):
            defs.setdefault(n.target.id, []).append(None)

    def expand(e, depth=0):
        """Replace single-definition alias names by what they name (attribute / subscript chains only)."""
        if depth > 4:
            return e
        if isinstance(e, ast.Name) and len(defs.get(e.id, [])) == 1 and defs[e.id][0] is not None and \
                isinstance(defs[e.id][0], (ast.Attribute, ast.Subscript, ast.Name)):
            return expand(defs[e.id][0], depth + 1)
        if isinstance(e, ast.Attribute):
            return ast.Attribute(value=expand(e.value, depth), attr=e.attr, ctx=ast.Load())
        if isinstance(e, ast.Subscript):
            return ast.Subscript(value=expand(e.value, depth), slice=e.slice, ctx=ast.Load())
        return e

    def is_minimiser(t) -> bool:
        # <...>.local_min[1][...]
        t = expand(t)
        return isinstance(t, ast.Subscript) and isinstance(t.value, ast.Subscript) and \
            isinstance(t.value.value, ast.Attribute) and t.value.value.attr == 'local_min' and \
            isinstance(t.value.slice, ast.Constant) and t.value.slice.value == 1

    def inline_helper(test):
        """self._helper(args) whose body is `return <expr>`: the expression with the arguments substituted."""
        if isinstance(test, ast.Call) and isinstance(test.func, ast.Attribute) and isinstance(test.func.value, ast.Name) \
                and test.func.value.id == selfn:
            h = g.lookup(test.func.attr)
            if h is not None and not test.keywords:
                body = [st for st in h.node.body if not (isinstance(st, ast.Expr) and isinstance(st.value, ast.Constant))]
                if len(body) == 1 and isinstance(body[0], ast.Return) and body[0].value is not None:
                    names = h.param_names[1:] if not h.is_static else h.param_names
                    if len(names) >= len(test.args):
                        mp = dict(zip(names, test.args))

                        class Sub(ast.NodeTransformer):
                            def visit_Name(self, node):
                                return mp.get(node.id, node)
                        import copy
                        return Sub().visit(copy.deepcopy(body[0].value))
        return test

    def atoms(test, neg=False):
        """Disjunctive reading of the mirror condition: ('or'|'and'|'single', [(op, side)])."""
        test = inline_helper(test)
        if isinstance(test, ast.UnaryOp) and isinstance(test.op, ast.Not):
            return atoms(test.operand, not neg)
        if isinstance(test, ast.BoolOp):
            parts = [atoms(v, neg) for v in test.values]
            join = 'or' if isinstance(test.op, ast.Or) else 'and'
            if neg:
                join = 'and' if join == 'or' else 'or'
            out = []
            for j_, a_ in parts:
                out += a_
            return join, out
        if isinstance(test, ast.Compare):
            # a < v < b  ==  (a < v) and (v < b)
            items = []
            left = test.left
            for op, right in zip(test.ops, test.comparators):
                items.append((left, op, right))
                left = right
            out = []
            for l_, op, r_ in items:
                opn = type(op).__name__
                if neg:
                    opn = {'Gt': 'LtE', 'Lt': 'GtE', 'GtE': 'Lt', 'LtE': 'Gt'}.get(opn, opn)
                names = {a.attr for a in ast.walk(l_) if isinstance(a, ast.Attribute)} | \
                        {a.attr for a in ast.walk(r_) if isinstance(a, ast.Attribute)}
                side = 'right' if any('right' in x for x in names) else ('left' if any('left' in x for x in names) else '?')
                lhs_is_min = any(is_minimiser(x) for x in ast.walk(l_) if isinstance(x, (ast.Subscript, ast.Name)))
                if not lhs_is_min:
                    opn = {'Gt': 'Lt', 'Lt': 'Gt', 'GtE': 'LtE', 'LtE': 'GtE'}.get(opn, opn)
                out.append((opn.replace('E', ''), side))
            join = 'single' if len(out) == 1 else ('or' if neg else 'and')
            return join, out
        return 'single', [('?', '?')]

    def shape(test) -> frozenset:
        join, ats = atoms(test)
        return frozenset(set(ats) | {('join', join)})
    sib = []
    for n in ast.walk(fn.node):
        if isinstance(n, ast.If) and any(isinstance(st, ast.Assign) and any(is_minimiser(t) for t in st.targets)
                                         for st in n.body):
            sib.append((n, shape(n.test)))
    ctx.floor(rid, 'mirror guards of the global minimiser', len(sib), 3)
    want = frozenset({('Gt', 'right'), ('Lt', 'left'), ('join', 'or')})
    for n, sh in sib:
        ctx.check(sh == want, rid, fn.short, fn.loc(n),
                  'the coordinate is mirrored when it is beyond the right OR the left boundary',
                  f'the mirror test of a global-minimiser coordinate is {sorted(sh)}; its siblings test both boundaries '
                  f'({sorted(want)}): a coordinate beyond the untested boundary stays outside the box and the known '
                  f'optimum is not inside it', key=f'{rid}::{fn.short}::mirror-guard::{" ".join(ast.unparse(n.body[0]).split())[:60]}')


def _point_vs_bound(l: Lit, pt_key) -> bool:
    """Literal of the form  +-(point coordinate - bound) + c  op 0  with a point-free bound term."""
    if l.kind != 'cmp' or len(l.rf.den) != 1 or list(l.rf.den.keys()) != [()]:
        return False
    has_pt = has_other = False
    for mono, coef in l.rf.num.items():
        if not mono:
            continue
        if len(mono) != 1 or mono[0][1] != 1:
            return False
        a = mono[0][0]
        if C.mentions(a, pt_key):
            # the coordinate itself, not a function of it
            if not (isinstance(a, tuple) and a and a[0] == 'sub'):
                return False
            has_pt = True
        else:
            has_other = True
    return has_pt and has_other


def r18_5(ctx: Ctx):
    rid = 'R18.5'
    ctx.rule(rid, 'closed domain: a path of a shipped Calculate that stores a point-independent value (a penalty) '
                  'under comparisons of point coordinates with bounds must be taken only strictly outside a bound; '
                  'a non-strict boundary test makes the function disagree with its published extrema tables on the '
                  'boundary of the declared (closed) box')
    n = n_pen = 0
    for cls in shipped_problems(ctx):
        calc = cls.lookup('Calculate')
        if calc is None or len(calc.param_names) < 3:
            continue
        ex = ctx.explorer(inline=lambda f, st: f.module.name.startswith('iOpt.problem'), unroll=1, max_paths=20000)
        try:
            paths = C.normal_paths(ex.explore(calc))
        except AnalysisError as e:
            ctx.note(f'{rid}: {cls.name}.Calculate not enumerated ({e}); the closed-domain clause is not decided '
                     f'for this family')
            continue
        pt = var(calc.param_names[1])
        for p in paths:
            sts = [s_ for s_ in p.stores() if s_.d['tkind'] == 'attr' and s_.d['field'] == 'value']
            if not sts:
                continue
            n += 1
            v = sts[-1].d['value']
            if C.mentions(v, key_of(pt)):
                continue
            # a penalty is a number (class / module constants are folded) or a plain attribute; values that only
            # *look* point-independent because a coordinate loop was taken zero times are table data (subscripts)
            va = v.single_atom() if isinstance(v, RF) else None
            is_penalty = isinstance(v, RF) and (v.const_value() is not None or
                                                (isinstance(va, tuple) and va and va[0] == 'attr'))
            if not is_penalty:
                continue
            # paths on which some loop makes no trip at all are artefacts of the bounded unrolling (a sum over zero
            # terms is point-independent); the one-trip variant of the same path is examined instead
            tripped = {id(e.node) for e in p.events if e.kind == 'iter'}
            if any(e.kind == 'loopexit' and id(e.node) not in tripped for e in p.events):
                continue
            lits = [l for l in p.guards if _point_vs_bound(l, key_of(pt))]
            if not lits:
                continue
            n_pen += 1
            strict = [l for l in lits if l.op == '<']
            f = sts[-1].func
            ctx.check(bool(strict), rid, calc.short, f.loc(sts[-1].node),
                      'the point-independent value is returned only strictly beyond a bound',
                      f'{calc.short} returns the point-independent value {C.fmt(v)[:40]} on a path whose only '
                      f'coordinate/bound tests are non-strict ({[repr(l) for l in lits][:3]}): a point lying exactly '
                      f'on the boundary of the declared box gets the penalty instead of the function value, so the '
                      f'function no longer agrees with its published minima/maxima on the closed box',
                      key=f'{rid}::{calc.short}::penalty-on-boundary')
    ctx.floor(rid, 'value-storing paths of shipped Calculate methods', n, 8)
    ctx.analysed['R18.5_penalty_paths'] = n_pen
    ctx.floor(rid, 'penalty paths guarded by coordinate/bound tests (positive control: GKLS)', n_pen, 1)


def r18_6(ctx: Ctx):
    """The declared metadata stays what the constructor declared: nothing outside the problem classes writes into
    the bound vectors, the name vector or the known optimum (its trial, point, coordinates, value holders)."""
    rid = 'R18.6'
    ctx.rule(rid, 'who may write problem metadata: only the problem classes themselves (constructors / generators); '
                  'the solver, the listeners and the painters only read it (copies are taken before in-place work)')
    pta = ctx.pta
    roles = C.roles_of(ctx)
    base = ctx.ix.cls('Problem')
    probs = [o for o in pta._objs.values() if o.cls is not None and o.kind in ('inst', 'ext_inst')
             and o.cls.is_subclass_of(base)]
    fields = ('lowerBoundOfFloatVariables', 'upperBoundOfFloatVariables', 'floatVariableNames', 'knownOptimum',
              'discreteVariableNames', 'discreteVariableValues')
    roots = set()
    for o in probs:
        for fld in fields:
            roots |= pta.read_field(o, fld)
    # concrete objects allocated by the problem classes (placeholders for 'any FunctionValue supplied from outside'
    # would conflate the metadata with every trial of the search)
    fvc = ctx.ix.find_cls('FunctionValue')
    parts = {o for o in pta.reach_objs(roots) if o.kind in ('inst', 'list', 'ndarray', 'dict')
             and o.site.startswith(('iOpt/problems', 'iOpt/problem.py'))
             # value holders travel through Problem.Calculate's return value, which the (context-insensitive)
             # points-to relation merges over all callers: they are left out rather than falsely implicated
             and not (o.cls is not None and fvc is not None and o.cls.is_subclass_of(fvc))}
    ctx.floor(rid, 'objects making up problem metadata', len(parts), 8)
    n = 0
    for m in roles.mutations():
        if m.init_self:
            continue
        mod = m.func.module.name
        if mod.startswith('iOpt.problems') or mod == 'iOpt.problem' or mod.startswith('iOpt.trial'):
            continue
        n += 1
        hit = [o for o in m.bases if o in parts]
        if not hit:
            continue
        ctx.fail(rid, m.func.short, m.loc(),
                 f'{m.text()[:70]} writes into problem metadata ({hit[0].describe()}): after it ran the instance no '
                 f'longer declares what its constructor declared (bounds / known optimum / names)',
                 key=f'{rid}::{m.func.module.relpath}::{m.func.short}::writes-metadata')
    ctx.ok(rid, 'iOpt/*', f'{n} mutation sites outside the problem classes: none targets problem metadata', 'iOpt/')
    ctx.floor(rid, 'mutation sites outside the problem classes', n, 100)


def _norm_attr(a: str) -> str:
    if a.startswith('_') and not a.startswith('__') and '__' in a[1:]:
        return a[a.index('__', 1):]
    return a


def r18_9(ctx: Ctx):
    """A problem instance is one member of its family: the constructor derives several attributes from the same
    constructor argument (the member number, the dimension) - the known optimum, coefficient rows, bound vectors.  A
    method that re-assigns one of them after construction (a property setter for the member number) re-targets the
    instance; every attribute the constructor derived from the same argument must be re-derived with it, otherwise
    the instance declares one member (number, known optimum, published table row) and evaluates another."""
    rid = 'R18.9'
    ctx.rule(rid, 're-targeting: a method of a shipped problem that re-assigns an attribute the constructor derives from '
                  'a constructor argument also re-assigns every other attribute derived from that argument that the '
                  'instance reads later (expected on this tree: no such method)')
    n_methods = n_writers = 0
    for c in shipped_problems(ctx):
        init = c.methods.get('__init__')
        if init is None or not isinstance(init.node, ast.FunctionDef):
            continue
        selfn = init.param_names[0]
        params = set(init.param_names[1:])
        props = {}              # property name -> setter FuncInfo
        for nm, f in c.setters.items():
            props[nm] = f

        def stores_of(fn: FuncInfo) -> Set[str]:
            sn = fn.param_names[0] if fn.param_names else None
            out = set()
            for nd in ast.walk(fn.node):
                t = None
                if isinstance(nd, (ast.Attribute, ast.Subscript)) and isinstance(nd.ctx, ast.Store):
                    t = nd
                    while isinstance(t, ast.Subscript):
                        t = t.value
                if isinstance(t, ast.Attribute) and isinstance(t.value, ast.Name) and t.value.id == sn:
                    out.add(_norm_attr(t.attr))
            return out

        def stores_closure(fn: FuncInfo, depth=0) -> Set[str]:
            out = stores_of(fn)
            sn = fn.param_names[0] if fn.param_names else None
            if depth < 3:
                for nd in ast.walk(fn.node):
                    if isinstance(nd, ast.Call) and isinstance(nd.func, ast.Attribute) and \
                            isinstance(nd.func.value, ast.Name) and nd.func.value.id == sn:
                        g = c.lookup(nd.func.attr)
                        if g is not None and g is not fn and g.name != '__init__':
                            out |= stores_closure(g, depth + 1)
                    if isinstance(nd, ast.Attribute) and isinstance(nd.ctx, ast.Store) and \
                            isinstance(nd.value, ast.Name) and nd.value.id == sn and nd.attr in props \
                            and props[nd.attr] is not fn:
                        out |= stores_closure(props[nd.attr], depth + 1)
            return out

        # what each attribute of the constructor is derived from (constructor parameters, other attributes)
        local_src = {}          # local name -> set of params / attrs
        deriv = {}              # attr -> set of ('p', param) / ('a', attr)

        def sources(e) -> Set[tuple]:
            out = set()
            for x in ast.walk(e):
                if isinstance(x, ast.Name) and x.id in params:
                    out.add(('p', x.id))
                elif isinstance(x, ast.Name) and x.id in local_src:
                    out |= local_src[x.id]
                elif isinstance(x, ast.Attribute) and isinstance(x.value, ast.Name) and x.value.id == selfn and \
                        isinstance(x.ctx, ast.Load):
                    out.add(('a', _norm_attr(x.attr)))
            return out
        for _ in range(3):
            for st in ast.walk(init.node):
                if not isinstance(st, ast.Assign):
                    continue
                src = sources(st.value)
                for t in st.targets:
                    base = t
                    while isinstance(base, ast.Subscript):
                        base = base.value
                    if isinstance(base, ast.Name):
                        local_src.setdefault(base.id, set()).update(src)
                    elif isinstance(base, ast.Attribute) and isinstance(base.value, ast.Name) and \
                            base.value.id == selfn:
                        a = _norm_attr(base.attr)
                        if a in props:
                            for w in stores_closure(props[a]):
                                deriv.setdefault(w, set()).update(src)
                        deriv.setdefault(a, set()).update(src)
        # expand attribute sources to the parameters behind them
        def roots(a, seen=()):
            out = set()
            for k, v in deriv.get(a, ()):
                if k == 'p':
                    out.add(v)
                elif v not in seen and v != a:
                    out |= roots(v, seen + (a,))
            return out
        methods = [f for nm, f in sorted(c.methods.items()) if nm != '__init__' and f.kind == 'function'] + \
            [f for nm, f in sorted(c.setters.items())]
        # attributes read outside the constructor
        read_later = set()
        for f in methods:
            sn = f.param_names[0] if f.param_names else None
            for x in ast.walk(f.node):
                if isinstance(x, ast.Attribute) and isinstance(x.ctx, ast.Load) and isinstance(x.value, ast.Name) \
                        and x.value.id == sn:
                    read_later.add(_norm_attr(x.attr))
        for f in methods:
            n_methods += 1
            own = stores_of(f)
            if not own:
                continue
            written = stores_closure(f)
            for x in sorted(own):
                rx = roots(x)
                if not rx and x not in deriv:
                    continue
                n_writers += 1
                stale = []
                for y in sorted(deriv):
                    if y == x or y in written or y in props:
                        continue
                    if (roots(y) & rx or ('a', x) in deriv[y]) and y in read_later:
                        stale.append(y)
                ctx.check(not stale, rid, f.short, f.loc(),
                          f'{f.short} re-assigns .{x} together with everything the constructor derives from the same '
                          f'argument',
                          f'{f.short} re-assigns .{x}, which the constructor derives from its argument(s) '
                          f'{sorted(rx) or [x]}, but leaves {", ".join("." + y for y in stale)} - derived from the same '
                          f'argument and read later by the instance - at the constructor\'s value: after the call the '
                          f'instance declares one member of the family and evaluates another',
                          key=f'{rid}::{f.short}::{x}')
    ctx.analysed[f'{rid}_methods_scanned'] = n_methods
    ctx.floor(rid, 'methods of the shipped problem classes scanned', n_methods, 8)
    if not any(x.rule == rid for x in ctx.findings):
        ctx.ok(rid, 'iOpt/problems', f'{n_methods} methods scanned, {n_writers} re-assign a constructor-derived '
                                     f'attribute: all of them re-derive what depends on the same argument',
               'iOpt/problems')


def r18_7(ctx: Ctx):
    """Metadata ownership: what an instance declares is its own.  A bound / name vector or a known-optimum object
    that is a process-wide object (allocated at import, as a default argument, or inside a memoised factory) is the
    same object in every instance that received it: editing the box of one instance in place re-declares the box of
    all the others, including instances constructed later."""
    rid = 'R18.7'
    ctx.rule(rid, 'metadata ownership: the bound vectors, the name vectors and the known optimum of a shipped problem '
                  'instance are allocated by its construction, not shared process-wide objects (module / default '
                  'argument / memoised factory)')
    pta = ctx.pta
    base = ctx.ix.cls('Problem')
    fields = ('lowerBoundOfFloatVariables', 'upperBoundOfFloatVariables', 'floatVariableNames', 'knownOptimum',
              'discreteVariableNames', 'discreteVariableValues')
    n = 0
    for cls in shipped_problems(ctx):
        objs = [o for o in pta._objs.values() if o.cls is cls and o.kind in ('inst', 'ext_inst')]
        for fld in fields:
            vals = set()
            for o in objs:
                vals |= pta.read_field(o, fld)
            vals = {v for v in vals if v.kind in ('list', 'ndarray', 'dict', 'set', 'inst', 'tuple')}
            if not vals:
                continue
            n += 1
            bad = sorted((v for v in vals if v.is_singleton_scope), key=lambda v: v.site)
            ctx.check(not bad, rid, f'{cls.name}.{fld}', cls.module.relpath,
                      f'{cls.name}.{fld} is allocated per instance',
                      f'{cls.name}.{fld} can be a process-wide object ({bad[0].describe() if bad else ""}): every '
                      f'instance that received it declares the same mutable object, so an in-place edit of one '
                      f'instance\'s metadata changes what the others (and later ones) declare',
                      key=f'{rid}::{cls.name}::{fld}::shared')
    ctx.floor(rid, 'metadata fields of shipped problem classes with resolved objects', n, 20)


def r18_8(ctx: Ctx):
    """Every valid member of a table-driven family is constructed as itself.  The constructor may normalise its
    function number (reject or replace invalid ones), but for the first and the last row of the tables the attribute
    that indexes the tables must come out as the requested number - otherwise row k of the published tables no longer
    describes the instance built with number k."""
    rid = 'R18.8'
    ctx.rule(rid, 'member identity: for the boundary members 0 and NUM-1 of a table-driven family every feasible '
                  'path of the constructor leaves the requested number in the attribute that indexes the tables')
    base = ctx.ix.cls('Problem')
    tabs = module_tables(ctx)
    n = 0
    for cls in shipped_problems(ctx):
        init = cls.methods.get('__init__')
        if init is None or len(init.param_names) < 2:
            continue
        pname = init.param_names[1]
        pk = key_of(var(pname))

        def inl(f, st) -> bool:
            if f.name in ('__init__', 'Calculate'):
                return False
            return f.module is base.module or (f.cls is not None and f.cls.is_subclass_of(base)) or \
                (f.cls is None and (f.module is cls.module or _setup_module(f.module.name)))
        ex = ctx.explorer(unroll=1, max_paths=8000, inline=inl)
        try:
            paths = C.normal_paths(ex.explore(init))
        except AnalysisError:
            continue
        selfk = key_of(var(init.param_names[0]))
        # number of rows of the literal tables the constructor reads
        rows = set()
        for p in paths:
            for v in p.state.heap.values():
                for a in C.atoms_deep(v):
                    if isinstance(a, tuple) and len(a) == 3 and a[0] == 'global' and a[1] in tabs and \
                            a[2] in tabs[a[1]] and len(tabs[a[1]][a[2]].shape) >= 1:
                        rows.add(tabs[a[1]][a[2]].shape[0])
        if len(rows) != 1:
            continue
        num = rows.pop()

        def same_member(v) -> bool:
            a = v.single_atom() if isinstance(v, RF) else None
            return key_of(v) == pk or (isinstance(a, tuple) and len(a) in (3, 4) and a[0] == 'call' and
                                       a[1] in ('int', 'builtins.int') and a[2] == (pk,))
        attrs = {fld for p in paths for (bk, fld), v in p.state.heap.items()
                 if bk == selfk and isinstance(fld, str) and same_member(v)}
        if not attrs:
            continue
        for A in sorted(attrs):
            for member in (0, num - 1):
                for p in paths:
                    gl = [l for l in p.guards if C.mentions_lit(l, pk)] if hasattr(C, 'mentions_lit') else \
                        [l for l in p.guards if l.kind == 'cmp' and any(a == pk for a in l.rf.atoms())]
                    truth = [C.subst_lit(l, {pk: RF.const(member).key()}).const_truth() for l in gl]
                    if any(t is None for t in truth) or not all(truth):
                        continue            # not feasible (or not decided) for this member
                    n += 1
                    v = p.state.heap.get((selfk, A))
                    got = None
                    if v is not None:
                        got = member if same_member(v) else (
                            int(v.const_value()) if isinstance(v, RF) and v.const_value() is not None else None)
                    ctx.check(got == member, rid, f'{cls.name}({member})', init.loc(),
                              f'{cls.name}({member}) is member {member}',
                              f'{cls.name}({member}) - a valid member of the family of {num} - is constructed with '
                              f'{A} = {C.fmt(v) if v is not None else "?"}: row {member} of the published tables no '
                              f'longer describes the instance built with number {member}',
                              key=f'{rid}::{cls.name}::{A}::member-{"first" if member == 0 else "last"}')
    ctx.floor(rid, 'boundary members of table-driven families checked', n, 4)


def check(ctx: Ctx):
    if C.want(ctx, 'R18.8'):
        r18_8(ctx)
    if C.want(ctx, 'R18.9'):
        r18_9(ctx)
    if C.want(ctx, 'R15.3'):
        ctx.rule('R15.3', 'the functions the published tables describe are functions of the point alone: every path of '
                          'Calculate stores a value that does not read what the holder held before (= R15.3), re-run '
                          'here - a table row cannot agree with a function whose value depends on the holder it is '
                          'evaluated into')
        from . import c15
        c15.r15_3(ctx)
    if C.want(ctx, 'R18.7'):
        r18_7(ctx)
    if C.want(ctx, 'R18.6'):
        r18_6(ctx)
    if C.want(ctx, 'R18.4'):
        r18_4(ctx)
    if C.want(ctx, 'R18.5'):
        r18_5(ctx)
    ctx.rule('R18.1', 'per family, for all constructor arguments: len(names) = len(lower) = len(upper) = dimension; '
                      'lower < upper; one objective')
    ctx.rule('R18.2', 'known optimum inside the box: literal points directly, table-driven points over every row')
    probs = shipped_problems(ctx)
    ctx.floor('R18.1', 'shipped problem families', len(probs), 8)
    total = 0
    for c in probs:
        if C.want(ctx, 'R18.1') or C.want(ctx, 'R18.2'):
            total += check_problem(ctx, c)
    if C.want(ctx, 'R18.1'):
        ctx.floor('R18.1', 'constructor paths analysed', total, 8)
    if C.want(ctx, 'R18.3'):
        r18_3(ctx)
    ctx.assume('NOT DECIDED: min/max/Lipschitz tables agree with the functions; GKLS optimum-in-box (generator output)')
