"""Obligations, violations, known findings, evidence and replay files."""
from __future__ import annotations

import json
import os
import time
from typing import Dict, List, Optional

from .index import AnalysisError, FuncInfo, Index, norm_stmt

VERIF = os.path.dirname(os.path.dirname(os.path.abspath(__file__)))
KNOWN_FINDINGS = os.path.join(VERIF, 'known_findings.json')


class Finding:
    def __init__(self, rule: str, construct: str, loc: str, message: str, key: str, detail: Optional[dict] = None):
        self.rule, self.construct, self.loc, self.message, self.key = rule, construct, loc, message, key
        self.detail = detail or {}

    def as_dict(self):
        return {'rule': self.rule, 'construct': self.construct, 'location': self.loc, 'message': self.message,
                'key': self.key, 'detail': self.detail}


class Ctx:
    """One property check run: engine handles + the ledger of obligations."""

    def __init__(self, prop: str, repo: str, tier: str, seed: int = 0):
        self.prop, self.repo, self.tier, self.seed = prop, os.path.abspath(repo), tier, seed
        self.t0 = time.time()
        self.obligations: List[dict] = []
        self.findings: List[Finding] = []
        self.notes: List[str] = []
        self.analysed: Dict[str, object] = {}
        self.assumptions: List[str] = []
        self.floors: List[dict] = []
        self._ix: Optional[Index] = None
        self._ix_small: Optional[Index] = None
        self._pta = None
        self.rules_applied: Dict[str, str] = {}
        self.only_rule: Optional[str] = None
        self.extra_coverage: Dict[str, object] = {}
        self._seen_ok: Dict[tuple, dict] = {}
        self._caches_used = set()
        self._seen_fail = set()

    # -- engine handles ---------------------------------------------------
    @property
    def ix(self) -> Index:
        if self._ix is None:
            self._ix = Index(self.repo)
            self.analysed.update({'index': self._ix.stats()})
        return self._ix

    @property
    def full_pta(self):
        """Points-to relation of the whole library, state-restoring entry points included."""
        if getattr(self, '_full_pta', None) is None:
            from .pta import PTA
            self._full_pta = PTA(self.ix)
        return self._full_pta

    @property
    def pta(self):
        """Points-to relation the search rules work on: the library without the routines that only a state-restoring
        entry point (Solver.LoadProgress ...) reaches.  Such routines re-create the search state from a file by
        design; what they write is not what the search writes, and the opaque values they decode would blur every
        points-to set of the search.  The rules that are decidable for them run on full_view()."""
        if self._pta is None:
            from .pta import PTA
            from .roles import Roles
            full = self.full_pta
            try:
                r_full = Roles(self.ix, full)
                skip = set(r_full.restore_only())
                # the named operations of the containers / the evolvent / the value classes stay in (GetCount,
                # iteration, queue operations ...: the properties speak about them whoever calls them); only the
                # persistence operations themselves are state-restoring
                named = ('InsertDataItem', 'InsertFirstDataItem', 'FindDataItemByOneDimensionalPoint',
                         'GetDataItemWithMaxGlobalR', 'GetDataItemWithMaxLocalR', 'RefillQueue', 'ClearQueue',
                         'GetCount', 'GetLastItem', '__iter__', '__next__')
                keep = set()
                for q in skip:
                    f = self.ix.funcs.get(q.replace('@setter', ''))
                    if f is None or f.cls is None:
                        continue
                    if f.cls.name.startswith('SearchData') and f.cls.name != 'SearchDataItem' and f.name in named:
                        keep.add(q)
                    elif f.cls.name == 'Evolvent' and not f.name.startswith('_'):
                        keep.add(q)
                skip -= keep
            except Exception:
                skip = set()
            if skip:
                self._pta = PTA(self.ix, skip=skip)
                self.restore_only_skipped = sorted(skip)
                self.notes.append('state-restoring routines (reached only from Solver entry points outside the solving '
                                  'API) are analysed by the restore rules only, not by the search rules: ' +
                                  ', '.join(sorted(q.split(':')[-1] for q in skip)[:12]))
            else:
                self._pta = full
                self.restore_only_skipped = []
            self.analysed['points_to'] = self._pta.stats()
            if self._pta.unsupported:
                self.notes.append('unsupported constructs: ' + '; '.join(self._pta.unsupported[:5]))
        return self._pta

    def full_view(self):
        """A view of this context whose engine handles (points-to relation, roles, explorer) cover the whole library;
        findings, obligations and notes go to this context."""
        _ = self.pta
        if not getattr(self, 'restore_only_skipped', None):
            return self
        v = getattr(self, '_full_view', None)
        if v is None:
            v = self._full_view = _FullView(self)
        return v

    def explorer(self, raw: bool = False, **kw):
        from .paths import Explorer
        if raw:
            return Explorer(self.ix, self.pta, **kw)
        from .rules import caches
        cold = caches.all_cold_fields(self)
        if kw.get('inline') is None:
            # default: look through glue (functions that are no anchors themselves but lead to one)
            from .rules import common as _C
            try:
                _roles = _C.roles_of(self)
                kw['inline'] = lambda f, st, _r=_roles: _r.is_glue(f)
            except Exception:
                pass
        ex = Explorer(self.ix, self.pta, cold_fields=cold, on_cold_read=self._caches_used.add,
                      cold_invalidators=getattr(self, '_cold_invalidators', {}), **kw)
        # what was analysed: functions explored, paths enumerated, events on them (reported in the evidence)
        orig = ex.explore
        stats = self.analysed.setdefault('path_summaries', {'functions_explored': 0, 'paths': 0, 'events': 0,
                                                            'functions': []})

        def explore(fn, args=None, heap=None):
            ps = orig(fn, args=args, heap=heap)
            stats['functions_explored'] += 1
            stats['paths'] += len(ps)
            stats['events'] += sum(len(p.events) for p in ps)
            if fn.short not in stats['functions'] and len(stats['functions']) < 60:
                stats['functions'].append(fn.short)
            return ps
        ex.explore = explore
        return ex

    # -- ledger -----------------------------------------------------------
    def rule(self, rid: str, text: str):
        self.rules_applied[rid] = text

    def ok(self, rule: str, construct: str, what: str, loc: str = ''):
        k = (rule, construct, loc, what)
        if k in self._seen_ok:
            self._seen_ok[k]['instances'] = self._seen_ok[k].get('instances', 1) + 1
            return
        self._seen_ok[k] = {}
        self.obligations.append(self._seen_ok[k])
        self._seen_ok[k].update({'rule': rule, 'construct': construct, 'location': loc, 'what': what,
                                 'discharged': True})

    # who-may-write rules: inside routines that only a state-restoring entry point reaches they cannot be decided
    # (a correct restore necessarily rewrites recorded state from the saved data) - noted, not reported
    WHO_MAY_WRITE = ('R02.9', 'R02.3', 'R03.1', 'R03.3', 'R03.6', 'R04.6', 'R06.5', 'R06.8', 'R06.6', 'R11.5')

    def fail(self, rule: str, construct: str, loc: str, message: str, key: Optional[str] = None,
             detail: Optional[dict] = None):
        if rule in self.WHO_MAY_WRITE and construct in self._restore_only_shorts() and \
                not (detail or {}).get('decidable'):
            self.note(f'{rule}: not decided for the state-restoring routine {construct} ({loc}): {message[:120]}')
            return
        k = key or f'{rule}::{construct}'
        if (k, loc, message) in self._seen_fail:
            return
        self._seen_fail.add((k, loc, message))
        self.obligations.append({'rule': rule, 'construct': construct, 'location': loc, 'what': message,
                                 'discharged': False, 'key': k})
        self.findings.append(Finding(rule, construct, loc, message, k, detail))

    def _restore_only_shorts(self):
        got = getattr(self, '_ro_shorts', None)
        if got is None:
            try:
                from .rules import common as C
                roles = C.roles_of(self)
                got = {self.ix.funcs[q].short for q in roles.restore_only() if q in self.ix.funcs}
            except Exception:
                got = set()
            self._ro_shorts = got
            if got:
                self.analysed['state_restoring_routines'] = sorted(got)
        return got

    def check(self, cond: bool, rule: str, construct: str, loc: str, ok_what: str, fail_msg: str,
              key: Optional[str] = None, detail: Optional[dict] = None) -> bool:
        if cond:
            self.ok(rule, construct, ok_what, loc)
        else:
            self.fail(rule, construct, loc, fail_msg, key, detail)
        return cond

    def floor(self, rule: str, what: str, count: int, minimum: int, explained_by=()):
        """Instance floor: a rule that matches fewer sites than confirmed by hand has gone blind."""
        self.floors.append({'rule': rule, 'what': what, 'count': count, 'floor': minimum})
        if count < minimum:
            if any(f.rule == rule or f.rule.startswith(rule) or rule.startswith(f.rule) or f.rule in explained_by
                   for f in self.findings):
                self.notes.append(f'{rule}: instance floor for "{what}" not met ({count} < {minimum}) - the rule '
                                  f'already reports violations, which explain the missing instances')
                return
            raise AnalysisError(f'{rule}: instance floor not met for "{what}": {count} < {minimum} '
                                f'(the anchor vanished or the rule no longer matches; refusing to pass vacuously)')

    def note(self, s: str):
        self.notes.append(s)

    def new_violations(self):
        """Findings not listed in known_findings.json."""
        known = {(k['property'], k['key']) for k in load_known().get('findings', [])}
        return [f for f in self.findings if (self.prop, f.key) not in known]

    def assume(self, s: str):
        if s not in self.assumptions:
            self.assumptions.append(s)

    def key_for(self, rule: str, f: FuncInfo, node) -> str:
        return f'{rule}::{f.module.relpath}::{f.short}::{norm_stmt(node)}'


class _FullView:
    """Proxy of a Ctx: same ledger, engine handles over the whole library (see Ctx.full_view)."""

    def __init__(self, ctx: 'Ctx'):
        object.__setattr__(self, '_ctx', ctx)
        object.__setattr__(self, '_own', {})

    @property
    def pta(self):
        return self._ctx.full_pta

    def explorer(self, raw: bool = False, **kw):
        # Ctx.explorer reads self.pta / roles through `self`: run it with this view as self
        return Ctx.explorer(self, raw=raw, **kw)

    def __getattr__(self, name):
        own = object.__getattribute__(self, '_own')
        if name in own:
            return own[name]
        if name in ('_roles', '_evo', '_lazy_caches', '_all_cold_fields', '_cold_owner', '_cold_invalidators',
                    '_init_eq', '_coef_defs'):
            raise AttributeError(name)          # engine caches are per view
        return getattr(object.__getattribute__(self, '_ctx'), name)

    def __setattr__(self, name, value):
        if name in ('_roles', '_evo', '_lazy_caches', '_all_cold_fields', '_cold_owner', '_cold_invalidators',
                    '_init_eq', '_coef_defs'):
            object.__getattribute__(self, '_own')[name] = value
        else:
            setattr(object.__getattribute__(self, '_ctx'), name, value)


def run_rules(mod, ctx: 'Ctx') -> Optional[AnalysisError]:
    """Run a property module's rules with every top-level rule isolated: a rule that cannot analyse the tree
    (AnalysisError) is recorded and the remaining rules still run, so that a violation an independent rule can see
    is not lost behind another rule's "could not decide".  Returns the first AnalysisError (None if there was none);
    the caller reports exit 1 when violations were found and exit 2 otherwise."""
    import importlib
    import pkgutil
    import re
    import sys
    from . import rules as rules_pkg
    from .roles import RoleMissing as _RoleMissing
    pat = re.compile(r'^(r\d\d_|r_link|rule_|restore_)')
    state = {'depth': 0, 'errors': []}
    patched = []
    for mi in pkgutil.iter_modules(rules_pkg.__path__):
        m = importlib.import_module(f'{rules_pkg.__name__}.{mi.name}')
        for name, fn in list(vars(m).items()):
            if not (callable(fn) and pat.match(name) and getattr(fn, '__module__', None) == m.__name__):
                continue

            def wrapper(*a, __fn=fn, **kw):
                if state['depth'] > 0:
                    return __fn(*a, **kw)
                state['depth'] += 1
                try:
                    return __fn(*a, **kw)
                except _RoleMissing as e:
                    e = AnalysisError(f'{__fn.__name__}: {e}')
                    state['errors'].append(e)
                    ctx.note(f'ANALYSIS-ERROR in {__fn.__name__}: {e} (the other rules were still run)')
                    return None
                except AnalysisError as e:
                    state['errors'].append(e)
                    ctx.note(f'ANALYSIS-ERROR in {__fn.__name__}: {e} (the other rules were still run)')
                    return None
                finally:
                    state['depth'] -= 1
            patched.append((m, name, fn))
            setattr(m, name, wrapper)
    try:
        try:
            mod.check(ctx)
        except AnalysisError as e:
            state['errors'].append(e)
    finally:
        for m, name, fn in patched:
            setattr(m, name, fn)
    return state['errors'][0] if state['errors'] else None


def load_known() -> dict:
    if not os.path.exists(KNOWN_FINDINGS):
        return {'findings': [], 'fixed': []}
    with open(KNOWN_FINDINGS) as f:
        return json.load(f)


def finish(ctx: Ctx, level_text: str, explanation: str, trusted: List[str]) -> int:
    """Write evidence, print verdict lines, return the exit code."""
    known = load_known()
    known_keys = {(k['property'], k['key']): k for k in known.get('findings', [])}
    new, listed = [], []
    for f in ctx.findings:
        if (ctx.prop, f.key) in known_keys:
            listed.append((f, known_keys[(ctx.prop, f.key)]))
        else:
            new.append(f)
    out_dir = os.path.join(VERIF, 'out')
    os.makedirs(out_dir, exist_ok=True)
    for f, k in listed:
        print(f'KNOWN-FINDING: property={ctx.prop} {k.get("what", f.message)} [{f.rule} at {f.loc}]')
    replay_paths = []
    for i, f in enumerate(new):
        path = os.path.join(out_dir, f'{ctx.prop}-{i + 1}.json')
        with open(path, 'w') as fh:
            json.dump({'property': ctx.prop, 'finding': f.as_dict(), 'repo': ctx.repo,
                       'replay': f'/venv/bin/python /verif/bin/check {ctx.prop} --rule {f.rule} --repo {ctx.repo}'},
                      fh, indent=1, default=str)
        replay_paths.append(path)
        print(f'  {f.loc}: [{f.rule}] {f.construct}: {f.message}')
        print(f'VIOLATION property={ctx.prop} replay={path}')
    n_obl = len(ctx.obligations)
    n_dis = sum(1 for o in ctx.obligations if o['discharged'])
    samples = [o for o in ctx.obligations if o['discharged']][:12] + [o for o in ctx.obligations
                                                                       if not o['discharged']][:12]
    evidence = {
        'property_id': ctx.prop,
        'tier': ctx.tier,
        'seed': ctx.seed,
        'level': 'other',
        'coverage': {
            'explanation': explanation,
            'obligations': n_obl,
            'discharged': n_dis,
            'evaluations': n_obl,
            'distinct_nontrivial': len({(o['rule'], o['construct'], o['what']) for o in ctx.obligations}),
            'rule': 'one obligation per rule instance (rule x construct); distinct = distinct (rule, construct, '
                    'statement of what was shown) triples',
            'samples': samples,
            'checker_cmd': f'/venv/bin/python /verif/bin/check {ctx.prop} --tier {ctx.tier}',
            'trusted_base': trusted,
            'rules': ctx.rules_applied,
            'analysed': ctx.analysed,
            'instance_floors': ctx.floors,
            'known_findings_reported': [f.key for f, _ in listed],
            'notes': ctx.notes,
            'repo': ctx.repo,
            **ctx.extra_coverage,
        },
        'assumptions': ctx.assumptions,
        'wall_s': round(time.time() - ctx.t0, 3),
        'violations': len(new),
    }
    ev_dir = os.path.join(VERIF, 'evidence')
    os.makedirs(ev_dir, exist_ok=True)
    if os.path.abspath(ctx.repo) == '/repo' and not os.environ.get('IVA_NO_EVIDENCE'):
        with open(os.path.join(ev_dir, f'{ctx.prop}.json'), 'w') as fh:
            json.dump(evidence, fh, indent=1, default=str)
    print(f'{ctx.prop}: {n_dis}/{n_obl} obligations discharged, {len(new)} violation(s), '
          f'{len(listed)} known finding(s), {evidence["wall_s"]}s [{ctx.tier}]')
    return 1 if new else 0
