"""Effect helpers shared by C11, C13, C15, C17: nondeterminism sources, write-effect classification."""
from __future__ import annotations

import ast
from typing import Dict, Iterable, List, Optional, Set, Tuple

from ..index import FuncInfo
from ..pta import Mutation, Obj
from ..report import Ctx
from . import common as C

NONDET_PREFIXES = ('random.', 'numpy.random.', 'time.', 'secrets.', 'uuid.', 'os.urandom', 'os.getpid',
                   'datetime.datetime.now', 'datetime.datetime.today', 'datetime.datetime.utcnow',
                   'datetime.date.today', 'os.times', 'threading.', 'multiprocessing.', 'tempfile.',
                   'builtins.id', 'builtins.hash', 'os.environ', 'os.getenv', 'socket.', 'platform.')
NONDET_EXACT = {'builtins.input', 'builtins.open'}

NON_DATA = ('cls', 'func', 'module', 'extmod', 'builtin', 'bm', 'extmeth')


def nondet_sites(ctx: Ctx, funcs: Iterable[str]) -> List[Tuple[FuncInfo, ast.Call, str]]:
    """Call sites inside the given functions (qualnames) that reach a nondeterminism source."""
    pta = ctx.pta
    fs = set(funcs)
    out = []
    for (caller, nid), names in pta.ext_calls.items():
        if caller not in fs:
            continue
        for d in names:
            if d.startswith(NONDET_PREFIXES) or d in NONDET_EXACT:
                f = ctx.ix.funcs.get(caller)
                node = pta.call_nodes.get((caller, nid))
                out.append((f, node, d))
    # iteration over a set display / set() result has hash order
    for q in fs:
        f = ctx.ix.funcs.get(q)
        if f is None or f.kind != 'function':
            continue
        for n in ast.walk(f.node):
            it = None
            if isinstance(n, ast.For):
                it = n.iter
            elif isinstance(n, ast.comprehension):
                it = n.iter
            if it is not None and (isinstance(it, (ast.Set, ast.SetComp)) or
                                   (isinstance(it, ast.Call) and isinstance(it.func, ast.Name) and
                                    it.func.id in ('set', 'frozenset'))):
                out.append((f, it, 'iteration over a set (hash order)'))
    return out


def fresh_in(reach: Set[str], o: Obj) -> bool:
    """Allocated inside the call tree given by reach (qualnames), i.e. fresh for each call of its root."""
    if o.kind in NON_DATA or o.kind == 'arith':
        return True
    owner = (o.owner or '').replace('@setter', '')
    return o.scope == 'func' and o.kind not in ('param', 'field', 'ext_inst') and \
        (owner in reach or owner + '@setter' in reach)


def mutations_in(ctx: Ctx, reach: Set[str]) -> List[Mutation]:
    roles = C.roles_of(ctx)
    return [m for m in roles.mutations() if roles.fq(m.func) in reach]
