"""C17 - evolvent queries are pure (DESIGN.md section 3, C17)."""
from __future__ import annotations

import ast
from typing import Dict, List, Optional, Set

from ..algebra import NONE, RF, Lit
from ..index import AnalysisError, FuncInfo
from ..paths import Event, TupleVal, atomv, key_of
from ..report import Ctx
from . import common as C
from . import effects as E
from .common import attr, var

LEVEL_TEXT = ('Static decision of the structural necessary conditions of query purity: queries return scalars or '
              'objects allocated by the call that are not kept by the evolvent; arguments never reach a store '
              '(the scratch array receives a copy); on every path of every query the first access to a scratch '
              'attribute is a full re-definition with a pinned float dtype (or, on the N=1 path, a store into an '
              'array whose dtype every definition pins); no other attribute is written by queries; configuration '
              'attributes are written only by the constructor/SetBounds, which copy their inputs; lazily cached '
              'attributes are functions of the configuration, re-established by every routine that changes what they '
              'depend on; configuration routines never define an attribute from its own previous value; '
              'the evolvent keeps no process-wide state.')
EXPLANATION = ('Points-to facts decide aliasing of arguments and results with the evolvent\'s state; the scratch '
               'typestate is decided on path summaries of the public queries with the private helpers inlined in '
               'call order (node/number recursions kept opaque, loops unrolled once).')
TRUSTED = ['CPython ast', 'iva engine', 'numpy allocation functions (zeros/array/copy) return fresh arrays; '
                                        'zeros defaults to float64']

QUERIES = ('GetImage', 'GetInverseImage', 'GetPreimages')
FLOAT_DTYPES = {'numpy.double', 'numpy.float64', 'builtins.float', 'numpy.float_', 'numpy.longdouble'}


def evolvent(ctx: Ctx):
    return ctx.ix.cls('Evolvent')


def queries(ctx: Ctx) -> List[FuncInfo]:
    ev = evolvent(ctx)
    out = [ev.methods[q] for q in QUERIES if q in ev.methods]
    if len(out) != len(QUERIES):
        raise AnalysisError(f'public evolvent queries vanished: have {[f.name for f in out]}')
    return out


def scratch_attrs(ctx: Ctx) -> Set[str]:
    """Evolvent attributes assigned inside a public query or its callees."""
    roles = C.roles_of(ctx)
    ev = evolvent(ctx)
    reach = ctx.pta.reachable(queries(ctx))
    out = set()
    for m in roles.mutations():
        if roles.fq(m.func) in reach and m.kind in ('attr',) and not m.init_self and isinstance(m.field, str):
            if any(o.cls is not None and o.cls.is_subclass_of(ev) for o in m.bases):
                out.add(m.field)
    # lazily cached derived attributes are not scratch: they hold a function of the configuration (R17.6 decides
    # that they are invalidated whenever the configuration changes)
    from . import caches
    return out - set(caches.lazy_caches(ctx, ev)) - size_keys(ctx, out)


def size_keys(ctx: Ctx, candidates: Set[str]) -> Set[str]:
    """Attributes that only remember for which size work buffers were allocated: every store is `self.k = <e>` and
    every read is a direct `self.k == <e>` / `self.k != <e>` test against the same expression in the same
    function.  Their value decides only whether buffers are re-allocated, never what a query returns (the buffers
    themselves are subject to the typestate rule: they must be fully overwritten before use)."""
    from ..index import mangle
    ev = evolvent(ctx)
    out = set()
    for k in candidates:
        ok, seen = True, False
        for f in ev.methods.values():
            if f.kind != 'function' or not f.param_names or f.name == '__init__':
                continue
            selfn = f.param_names[0]

            def is_k(n):
                return isinstance(n, ast.Attribute) and isinstance(n.value, ast.Name) and n.value.id == selfn and \
                    mangle(ev.name, n.attr) == k
            stored = {ast.unparse(st.value) for st in ast.walk(f.node) if isinstance(st, ast.Assign) and
                      len(st.targets) == 1 and is_k(st.targets[0])}
            cmp_ok = set()
            for c in ast.walk(f.node):
                if isinstance(c, ast.Compare) and len(c.ops) == 1 and isinstance(c.ops[0], (ast.Eq, ast.NotEq)):
                    l, r = c.left, c.comparators[0]
                    for a, b in ((l, r), (r, l)):
                        if is_k(a) and (not stored or ast.unparse(b) in stored):
                            cmp_ok.add(id(a))
                            seen = True
            for n in ast.walk(f.node):
                if is_k(n) and isinstance(n.ctx, ast.Load) and id(n) not in cmp_ok:
                    ok = False
            if len(stored) > 1:
                ok = False
        if ok and seen:
            out.add(k)
    return out


def r17_1_2_5(ctx: Ctx):
    pta = ctx.pta
    roles = C.roles_of(ctx)
    ev = evolvent(ctx)
    qs = queries(ctx)
    ev_objs = [o for o in pta._objs.values() if o.cls is not None and o.cls.is_subclass_of(ev)
               and o.kind in ('inst', 'ext_inst')]
    state = pta.reach_objs(ev_objs)
    # R17.1
    rid = 'R17.1'
    ctx.rule(rid, 'queries return scalars or arrays allocated by the call that the evolvent does not keep')
    for q in qs:
        reach = pta.reachable([q])
        rets = [o for o in pta.ret(q) if o.kind in ('ndarray', 'list', 'dict', 'set', 'inst', 'ext_inst', 'param',
                                                    'field', 'ext', 'tuple')]
        kept = [o for o in rets if o in state]
        notfresh = [o for o in rets if not E.fresh_in(reach, o)]
        ctx.check(not kept and not notfresh, rid, q.short, q.loc(),
                  'the result is a scalar or a fresh array not referenced by the evolvent',
                  f'the query returns an object the evolvent keeps and later overwrites in place '
                  f'({(kept + notfresh)[0].describe() if (kept + notfresh) else ""}): arrays returned by earlier '
                  f'queries change with later ones', key=f'{rid}::{q.short}::returns-alias')
    # R17.2
    rid = 'R17.2'
    ctx.rule(rid, 'arguments are never the target of a store: the scratch array receives a copy before the in-place '
                  'transforms')
    n = 0
    for q in qs + [ev.methods[m] for m in ('SetBounds', '__init__') if m in ev.methods]:
        reach = pta.reachable([q])
        args = set()
        from ..pta import SCALAR_ANNOTATIONS, _ann_text
        scalar = {a.arg for a in q.params if a.annotation is not None and _ann_text(a.annotation) in SCALAR_ANNOTATIONS}
        for pn in q.param_names[1:]:
            if pn in scalar:
                continue      # declared a number: nothing to alias or to write into
            args |= {o for o in pta.local(q, pn) if o.kind in ('param', 'field', 'ndarray', 'list')}
        argreach = pta.reach_objs(args)
        for m in E.mutations_in(ctx, reach):
            if m.init_self:
                continue
            n += 1
            hit = [o for o in m.bases if o in argreach and o.kind in ('param', 'field', 'ndarray', 'list')]
            if hit:
                ctx.fail(rid, m.func.short, m.loc(),
                         f'{m.text()[:70]} can write into an argument of {q.short} ({hit[0].describe()}): the caller\'s '
                         f'array is modified by the query', key=ctx.key_for(rid, m.func, m.node))
        # and the evolvent must not keep the argument
        kept = [o for o in args if o in state and o.kind in ('param', 'field')]
        ctx.check(not kept, rid, q.short, q.loc(), 'no argument object is retained in the evolvent\'s state',
                  f'{q.short} stores its argument object itself in the evolvent ({kept[0].describe() if kept else ""}): '
                  f'later in-place updates write into the caller\'s array', key=f'{rid}::{q.short}::retains-argument')
    ctx.floor(rid, 'mutation sites reachable from evolvent entry points', n, 10)
    # R17.4 / R17.5
    rid = 'R17.5'
    ctx.rule('R17.4', 'queries write no attribute of the evolvent except scratch attributes (orientation state is '
                      'local)')
    ctx.rule(rid, 'configuration attributes are written only by the constructor and SetBounds')
    scr = scratch_attrs(ctx)
    from . import caches as _caches
    lazy = set(_caches.lazy_caches(ctx, ev))
    all_query_written = set()
    for m_ in roles.mutations():
        if roles.fq(m_.func) in pta.reachable(qs) and m_.kind == 'attr' and not m_.init_self and isinstance(m_.field, str) \
                and any(o.cls is not None and o.cls.is_subclass_of(ev) for o in m_.bases):
            all_query_written.add(m_.field)
    lazy |= size_keys(ctx, all_query_written)
    ctx.analysed['scratch_attributes'] = sorted(scr)
    allowed_writers = {roles.fq(ev.methods[m]) for m in ('__init__', 'SetBounds') if m in ev.methods}
    # property setters / helpers that only the constructor and SetBounds use are part of them
    allowed_writers = roles.dominated_closure(allowed_writers) | {q + '@setter' for q in allowed_writers}
    qreach = pta.reachable(qs)
    scratch_objs = set()
    for o in ev_objs:
        for a in scr:
            scratch_objs |= pta.read_field(o, a)
    n4 = 0
    for m in E.mutations_in(ctx, qreach):
        if m.init_self or m.kind in ('attr',):
            continue
        if m.kind == 'aug' and isinstance(m.field, str) and m.field in scr:
            continue          # self.<scratch> += ... : an update of the scratch array itself (typestate: R17.3)
        n4 += 1
        bad = [o for o in m.bases if not E.fresh_in(qreach, o) and o not in scratch_objs
               and o.kind in ('ndarray', 'list', 'dict', 'set', 'inst', 'ext_inst', 'ext')]
        if bad:
            ctx.fail('R17.4', m.func.short, m.loc(),
                     f'{m.text()[:70]} updates {bad[0].describe()} in place during a query: state other than the '
                     f'scratch array survives from one query to the next', key=ctx.key_for('R17.4', m.func, m.node))
    ctx.ok('R17.4', 'Evolvent queries', f'{n4} in-place updates reachable from the queries target call-local arrays '
                                        f'or the scratch array only', ev.module.relpath)
    ctx.floor('R17.4', 'in-place updates reachable from the queries', n4, 10)
    for m in roles.mutations():
        if m.kind not in ('attr', 'aug', 'del') or not isinstance(m.field, str):
            continue
        if not any(o.cls is not None and o.cls.is_subclass_of(ev) for o in m.bases):
            continue
        q = roles.fq(m.func)
        if m.field in scr or m.field in lazy:
            continue          # scratch (R17.3) / lazily cached derived attribute (R17.6)
        if q in allowed_writers:
            continue
        ctx.fail(rid, m.func.short, m.loc(), f'configuration attribute {m.field} of the evolvent is written outside '
                                             f'the constructor/SetBounds: {m.text()}',
                 key=ctx.key_for(rid, m.func, m.node))
    ctx.ok(rid, 'Evolvent', f'non-scratch attributes are written only by {sorted(x.split(":")[1] for x in allowed_writers)}',
           ev.node and ev.module.relpath)


def dtype_pinned(ctx: Ctx, ev: Event) -> Optional[bool]:
    """Is the array allocated by this call event of a pinned float dtype?  None: not an allocation."""
    name = ev.d.get('callee')
    if not isinstance(name, str):
        return None
    kw = ev.d['kwargs']
    args = ev.d['args']

    def is_float(v) -> bool:
        a = v.single_atom() if isinstance(v, RF) else None
        if isinstance(a, tuple) and a and a[0] == 'extmod':
            return a[1] in FLOAT_DTYPES
        if isinstance(a, tuple) and a and a[0] == 'builtin':
            return a[1] == 'float'
        if isinstance(a, tuple) and a and a[0] == 'str':
            return a[1] in ('float', 'float64', 'double', 'd', 'f8')
        return False
    dt = kw.get('dtype')
    if name in ('numpy.zeros', 'numpy.ones', 'numpy.empty', 'numpy.full'):
        if dt is None and len(args) >= (3 if name == 'numpy.full' else 2):
            dt = args[2 if name == 'numpy.full' else 1]
        if dt is None:
            return name != 'numpy.full'       # zeros/ones/empty default to float64
        return is_float(dt)
    if name in ('numpy.array', 'numpy.asarray', 'numpy.ndarray', 'numpy.asfarray', 'numpy.zeros_like',
                'numpy.empty_like', 'numpy.full_like', 'numpy.ones_like'):
        if name == 'numpy.asfarray':
            return True
        if dt is None and name in ('numpy.array', 'numpy.asarray') and len(args) >= 2:
            dt = args[1]
        return dt is not None and is_float(dt)
    if name in ('numpy.copy', 'copy.copy', 'copy.deepcopy'):
        return False            # inherits the dtype of its argument
    return None


def r17_3(ctx: Ctx, only=None):
    rid = 'R17.3'
    ctx.rule(rid, 'scratch typestate: on every path of every public query the first access to a scratch attribute '
                  'is a rebind to a fresh array of pinned float dtype, or (under the N=1 guard) a store into an '
                  'array whose dtype is pinned by all definitions')
    ev = evolvent(ctx)
    roles = C.roles_of(ctx)
    scr = scratch_attrs(ctx)
    ctx.floor(rid, 'scratch attributes of the evolvent', len(scr), 1)
    heavy = {n for n in ev.methods if 'CalculateNode' in n or 'CalculateNumbr' in n}
    ex = ctx.explorer(inline=lambda f, st: f.cls is ev and f.name not in heavy, unroll=1, max_paths=30000,
                      opaque={ev.methods[n] for n in heavy})
    selfv = None
    # all definitions of each scratch attribute in the class
    defs: Dict[str, List] = {a: [] for a in scr}
    substore_first: Dict[str, List] = {a: [] for a in scr}
    n_paths = 0
    methods = [q for q in queries(ctx) if only is None or q.name in only] + [ev.methods['__init__']]
    # every other public routine that can re-bind a scratch attribute (SetBounds ...) contributes definitions: what
    # it leaves behind is what the next query finds
    config_methods = [f for n_, f in sorted(ev.methods.items()) if f.kind == 'function' and f not in methods
                      and not n_.startswith('_') and n_ not in QUERIES]
    methods = methods + config_methods
    for q in methods:
        selfv = var(q.param_names[0])
        from . import evo as _evo2
        Nfield = attr(selfv, _evo2.evo_of(ctx).dim_field)
        n1 = Lit.cmp('==', Nfield, RF.const(1))
        for p in ex.explore(q):
            if p.outcome == 'raise':
                continue
            n_paths += 1
            first: Dict[str, str] = {}
            for e in p.events:
                for a in scr:
                    init_atom = ('attr', key_of(selfv), a, 0)
                    if e.kind == 'store' and e.d['tkind'] == 'attr' and e.d['field'] == a and \
                            key_of(e.d['base']) == key_of(selfv):
                        # a definition: what is bound?
                        v = e.d['value']
                        src = C.call_event_of_result(p, v)
                        pinned = dtype_pinned(ctx, src) if src is not None else None
                        if src is None and isinstance(v, RF) and v.single_atom() is None:
                            pinned = 'arith'      # numpy arithmetic allocates its result; float by promotion
                        defs[a].append((q, e, src, pinned))
                        if a not in first:
                            first[a] = 'def'
                        continue
                    if a in first or q.name == '__init__' or q in config_methods:
                        continue
                    if e.kind == 'store' and e.d['tkind'] == 'sub' and C.mentions(e.d['base'], init_atom):
                        first[a] = 'substore'
                        under_n1 = C.has_lit(p.guards[:], n1)
                        substore_first[a].append((q, e, under_n1))
                        # an augmented store reads the stale element first
                        if e.d.get('aug') or not under_n1:
                            ctx.fail(rid, e.func.short, e.loc(),
                                     f'{q.short}: the scratch array {a} is updated in place before it is '
                                     f're-established on this path ({"augmented " if e.d.get("aug") else ""}store '
                                     f'into what an earlier query left behind): the result depends on earlier '
                                     f'queries', key=f'{rid}::{q.short}::{a}::stale-update',
                                     detail={'guards': [repr(l) for l in p.guards][:8]})
                        continue
                    if e.kind == 'call' and e.d['name'] == 'fill' and e.d.get('ext') and e.d.get('recv') is not None \
                            and C.strip_versions(key_of(e.d['recv'])) == C.strip_versions(init_atom) and e.d['args']:
                        # buffer.fill(c): every element is overwritten - the left-over contents are never used
                        first[a] = 'def'
                        continue
                    vals = []
                    if e.kind == 'store':
                        vals = [e.d['value']]
                    elif e.kind == 'call' and not e.d.get('inlined'):
                        vals = list(e.d['args']) + list(e.d['kwargs'].values())
                    elif e.kind == 'return':
                        vals = [e.d['value']]
                    elif e.kind == 'guard':
                        l = e.d['lit']
                        vals = [l.rf] if l.kind == 'cmp' else []
                        if l.kind != 'cmp' and C.mentions(('x', l.key), init_atom):
                            vals = [atomv(init_atom)]
                    if any(v is not None and C.mentions(v, init_atom) for v in vals):
                        first[a] = 'read'
                        ctx.fail(rid, e.func.short, e.loc(),
                                 f'{q.short}: the scratch array {a} is read before it is re-established on this '
                                 f'path: the result depends on what an earlier query left there',
                                 key=f'{rid}::{q.short}::{a}::stale-read')
            if q.name != '__init__' and q not in config_methods:
                for a in scr:
                    if first.get(a) in ('def',):
                        ctx.ok(rid, q.short, f'first access to {a} on the path is a full re-definition', q.loc())
                    elif first.get(a) == 'substore':
                        ctx.ok(rid, q.short, f'first access to {a} on the N=1 path is the store of its only element',
                               q.loc())
    ctx.floor(rid, 'paths of the public queries and the constructor analysed', n_paths, 6)
    for a in scr:
        ctx.floor(rid, f'definitions of scratch attribute {a}', len(defs[a]), 3)
        for (q, e, src, pinned) in defs[a]:
            name = src.d.get('callee') if src is not None else None
            if pinned == 'arith':
                ctx.ok(rid, e.func.short, f'{a} := result of array arithmetic (a new array)', e.loc())
            elif pinned is None and key_of(e.d['value']) == NONE:
                ctx.ok(rid, e.func.short, f'{a} := None (an empty placeholder aliases nothing)', e.loc())
            elif pinned is None:
                ctx.fail(rid, e.func.short, e.loc(), f'{a} is rebound to {C.fmt(e.d["value"])}, not to a freshly '
                                                     f'allocated array: the scratch aliases something else',
                         key=ctx.key_for(rid, e.func, e.node))
            elif pinned is False:
                # harmless only if nobody relies on the dtype of what is left behind
                relies = substore_first[a]
                ctx.check(not relies, rid, e.func.short, e.loc(),
                          f'{a} := {name}(...) (dtype inherited) - no path stores into the left-over array',
                          f'{a} := {name}(...) takes the dtype of the caller\'s argument (e.g. an integer list), and '
                          f'{relies[0][0].short if relies else ""} later stores into the left-over array without '
                          f're-allocating it: values are truncated to that dtype',
                          key=ctx.key_for(rid, e.func, e.node))
            else:
                ctx.ok(rid, e.func.short, f'{a} := {name}(...) with a pinned float dtype', e.loc())


def r17_6(ctx: Ctx):
    rid = 'R17.6'
    ctx.rule(rid, 'derived attributes computed lazily by the queries are functions of the configuration only: every '
                  'routine that changes an attribute they depend on invalidates or recomputes them')
    from . import caches
    ev = evolvent(ctx)
    n = caches.report_incoherent(ctx, rid, ev, None,
                                 'a later query answers from the stale value if an earlier query had filled it, and '
                                 'from the new configuration otherwise - the result depends on the query history')
    ctx.analysed['lazy_caches'] = sorted(caches.lazy_caches(ctx, ev))
    if n == 0:
        ctx.ok(rid, 'Evolvent', 'no lazily cached derived attribute exists', ev.module.relpath)


def _self_rooted(base, selfv) -> bool:
    if key_of(base) == key_of(selfv):
        return True
    a = base.single_atom() if hasattr(base, 'single_atom') else None
    return isinstance(a, tuple) and len(a) >= 3 and a[0] == 'attr' and a[1] == key_of(selfv)


def r17_9(ctx: Ctx):
    """Re-configuration is all or nothing.  A SetBounds call that rejects its arguments (raises) after it has already
    replaced one of the bound arrays leaves a box nobody configured - new lower with old upper bounds: every later
    query answers for that box, so the results depend on an earlier, *failed* call and not on the configured bounds."""
    rid = 'R17.9'
    ctx.rule(rid, 'validate, then commit: on every path of a configuration routine of the evolvent (SetBounds) that '
                  'ends in a raise, no attribute of the evolvent was stored before the raise')
    from . import evo as _evo
    e = _evo.evo_of(ctx)
    n = 0
    for name in ('SetBounds',):
        fn = e.cls.methods.get(name)
        if fn is None:
            continue
        selfv = var(fn.param_names[0])
        for p in e.explorer(unroll=1).explore(fn):
            n += 1
            if p.outcome != 'raise':
                continue
            raises = [i for i, ev_ in enumerate(p.events) if ev_.kind == 'raise']
            last = raises[-1] if raises else len(p.events)
            early = [ev_ for ev_ in p.events[:last] if ev_.kind == 'store' and ev_.d['tkind'] in ('attr', 'sub', 'aug')
                     and ev_.d['base'] is not None and _self_rooted(ev_.d['base'], selfv)]
            if early:
                st = early[0]
                ctx.fail(rid, fn.short, st.func.loc(st.node),
                         f'{fn.short} stores into the evolvent ({ast.unparse(st.node)[:60]}) and can still reject the call '
                         f'afterwards (raise at {fn.loc(p.events[last].node) if raises else "?"}): a rejected call '
                         f'leaves the evolvent with a mixture of old and new bounds, and every later query answers for '
                         f'a box that was never configured', key=f'{rid}::{fn.short}::store-before-raise')
                break
    ctx.floor(rid, 'paths of the configuration routines', n, 1)
    if not any(x.rule == rid for x in ctx.findings):
        ctx.ok(rid, 'Evolvent.SetBounds', f'{n} paths: no raising path stores into the evolvent before it raises',
               e.cls.module.relpath)


def r17_7(ctx: Ctx):
    """Configuration routines are idempotent.  A routine that can be called any number of times after construction
    (SetBounds ...) and defines an attribute the queries read from that attribute's own previous value
    (self.B += self.B, self.B = 2 * self.B) makes every later query depend on how often it was called."""
    rid = 'R17.7'
    ctx.rule(rid, 'configuration routines other than the constructor define the attributes that queries read from '
                  'their arguments and from other attributes - never from the attribute\'s own previous value '
                  '(no accumulation across calls)')
    ev = ctx.ix.cls('Evolvent')
    roles = C.roles_of(ctx)
    scr = scratch_attrs(ctx)
    from . import caches as _caches
    lazy = set(_caches.lazy_caches(ctx, ev))
    qs = [ev.methods[n] for n in ('GetImage', 'GetInverseImage', 'GetPreimages') if n in ev.methods]
    qreach = ctx.pta.reachable(qs)
    ex = ctx.explorer(unroll=2, inline=lambda f, st: f.name != '__init__' and f.cls is ev and
                      f.name.startswith('_') and not f.name.endswith('__'))
    n = 0
    for name, m in sorted(ev.methods.items()):
        if m.kind != 'function' or name == '__init__' or not m.param_names or roles.fq(m) in qreach:
            continue
        if name.startswith('_') and roles.callers_of(m):
            continue          # a private helper: analysed inside the routines that call it
        selfk = key_of(var(m.param_names[0]))
        try:
            paths = C.normal_paths(ex.explore(m))
        except AnalysisError:
            continue
        for p in paths:
            for e in p.stores():
                if e.d['tkind'] != 'attr' or key_of(e.d['base']) != selfk or not isinstance(e.d['field'], str):
                    continue
                fld = e.d['field']
                if fld in scr or fld in lazy:
                    continue
                n += 1
                own_entry = ('attr', selfk, fld, 0)
                if C.mentions(e.d['value'], own_entry):
                    ctx.fail(rid, e.func.short, e.loc(),
                             f'{m.short} defines {fld} from its own previous value ({C.fmt(e.d["value"])[:60]}): the '
                             f'attribute accumulates over calls, so queries answered after two calls differ from '
                             f'queries answered after one - the result depends on the history of the object',
                             key=f'{rid}::{m.short}::accumulates::{fld}')
    ctx.floor(rid, 'attribute definitions in configuration routines', n, 2)


def check(ctx: Ctx):
    if C.want(ctx, 'R17.8'):
        from . import evo as _evo
        _evo.rule_no_shared_state(ctx, 'R17.8')
    if C.want(ctx, 'R17.9'):
        r17_9(ctx)
    if C.want(ctx, 'R17.7'):
        r17_7(ctx)
    if C.want(ctx, 'R17.6'):
        r17_6(ctx)
    if any(C.want(ctx, r) for r in ('R17.1', 'R17.2', 'R17.4', 'R17.5')):
        r17_1_2_5(ctx)
    if C.want(ctx, 'R17.3'):
        r17_3(ctx)
    ctx.assume('__CalculateNode/__CalculateNumbr write only the arrays passed to them (checked: they are reached '
               'from the queries and their mutation sites are enumerated by R17.2/R17.5)')
