"""Lazily cached derived attributes of a class (used for the Evolvent by C05, C07, C09, C17).

An attribute D of class K is a *lazy cache* when every non-None store of D outside the constructor happens on a
path guarded by "self.D is None" (computed only when missing); None stores are invalidations.  Its definition is
the value stored on the recompute paths and deps(D) are the attributes of self that value mentions (through
inlined private helpers, transitively through other caches).

A cache is *coherent* when every routine that changes an attribute D (transitively) depends on also re-establishes
D (invalidates or recomputes it) on the same path.  With a coherent cache a query answers exactly what the cold
computation answers, so the other rules analyse the cold paths (caches None on entry) and this module reports the
incoherences: after the offending routine ran, queries depend on whether D had been computed before.
"""
from __future__ import annotations

import ast
from typing import Dict, List, Optional, Set, Tuple

from ..algebra import NONE, RF, Lit
from ..index import AnalysisError, ClassInfo, FuncInfo, mangle
from ..paths import TupleVal, atomv, key_of
from ..report import Ctx
from . import common as C
from .common import attr, var


class Cache:
    def __init__(self, name: str):
        self.name = name
        self.recompute_sites: List[Tuple[FuncInfo, ast.AST]] = []
        self.invalidate_sites: List[Tuple[FuncInfo, ast.AST]] = []
        self.deps: Set[str] = set()
        self.all_deps: Set[str] = set()
        self.problems: List[dict] = []       # incoherences

    @property
    def coherent(self) -> bool:
        return not self.problems


def _is_none(v) -> bool:
    return v is not None and key_of(v) == NONE


def _fields_of_self(v, selfk) -> Set[str]:
    out = set()
    for a in C.atoms_deep(v):
        if isinstance(a, tuple) and len(a) == 4 and a[0] == 'attr' and a[1] == selfk and isinstance(a[2], str):
            out.add(a[2])
    return out


def lazy_caches(ctx: Ctx, cls: ClassInfo) -> Dict[str, Cache]:
    memo = getattr(ctx, '_lazy_caches', None)
    if memo is None:
        memo = ctx._lazy_caches = {}
    if cls.qualname in memo:
        return memo[cls.qualname]
    if not _candidates(cls):
        memo[cls.qualname] = {}
        return memo[cls.qualname]
    heavy = {f for n, f in cls.methods.items() if 'CalculateNode' in n or 'CalculateNumbr' in n}
    ex = ctx.explorer(raw=True, unroll=1, max_paths=30000, opaque=heavy)
    stores = []      # (method explored, path, event)
    methods = [f for f in cls.methods.values() if f.kind == 'function' and f not in heavy]
    per_method_paths = {}
    for f in methods:
        try:
            ps = C.normal_paths(ex.explore(f))
        except AnalysisError:
            continue
        per_method_paths[f] = ps
        selfk = key_of(var(f.param_names[0])) if f.param_names else None
        for p in ps:
            for e in p.events:
                if e.kind == 'store' and e.d['tkind'] == 'attr' and e.d['base'] is not None and \
                        isinstance(e.d['field'], str):
                    b = e.d['base'].single_atom() if isinstance(e.d['base'], RF) else None
                    # self of the explored method or of an inlined helper: both are ('var', <self name>) bound to
                    # the same object, the explorer substitutes the receiver
                    if key_of(e.d['base']) == selfk:
                        stores.append((f, p, e, selfk))
    by_field: Dict[str, list] = {}
    for rec in stores:
        by_field.setdefault(rec[2].d['field'], []).append(rec)
    caches: Dict[str, Cache] = {}
    for fld, recs in by_field.items():
        lazy, other = [], []
        for (f, p, e, selfk) in recs:
            if e.func.name == '__init__':
                continue
            v = e.d['value']
            if _is_none(v):
                continue
            own_none = Lit('isnone', key=('attr', selfk, fld, 0), pol=True)
            before = p.guards_before(e) if hasattr(p, 'guards_before') else _guards_before(p, e)
            if any(l.same(own_none) for l in before):
                lazy.append((f, p, e, selfk))
            else:
                other.append((f, p, e, selfk))
        if lazy and not other:
            c = Cache(fld)
            seen = set()
            for (f, p, e, selfk) in lazy:
                if id(e.node) not in seen:
                    seen.add(id(e.node))
                    c.recompute_sites.append((e.func, e.node))
                c.deps |= _fields_of_self(e.d['value'], selfk) - {fld}
                # a cached value computed from an *argument* of the routine that happens to fill it first depends on
                # the history of calls, not on the object's configuration
                if e.func is f:
                    args_in = sorted({a[1] for a in C.atoms_deep(e.d['value'])
                                      if isinstance(a, tuple) and len(a) == 2 and a[0] == 'var' and
                                      isinstance(a[1], str) and a[1] in f.param_names[1:]})
                    if args_in and (id(e.node), 'arg') not in seen:
                        seen.add((id(e.node), 'arg'))
                        c.problems.append({'writer': f, 'node': e.node, 'entry': f,
                                           'field': 'the argument ' + ', '.join(args_in) + ' of the call that fills it first',
                                           'kind': 'argument'})
            for (f, p, e, selfk) in recs:
                if _is_none(e.d['value']) and id(e.node) not in seen:
                    seen.add(id(e.node))
                    c.invalidate_sites.append((e.func, e.node))
            caches[fld] = c
    # transitive dependencies
    for c in caches.values():
        todo, seen = list(c.deps), set()
        while todo:
            d = todo.pop()
            if d in seen:
                continue
            seen.add(d)
            if d in caches:
                todo.extend(caches[d].deps)
        c.all_deps = seen
    # coherence: whoever changes a dependency re-establishes the cache on the same path
    reported = set()
    for f, ps in per_method_paths.items():
        if f.name == '__init__':
            continue
        selfk = key_of(var(f.param_names[0])) if f.param_names else None
        for p in ps:
            evs = p.events
            for i, e in enumerate(evs):
                if not (e.kind in ('store',) and e.d['base'] is not None):
                    continue
                fld = None
                if e.d['tkind'] == 'attr' and key_of(e.d['base']) == selfk and isinstance(e.d['field'], str):
                    fld = e.d['field']
                elif e.d['tkind'] == 'sub':
                    # element store into an attribute of self: self.A[i] = ...
                    b = e.d['base'].single_atom() if isinstance(e.d['base'], RF) else None
                    if isinstance(b, tuple) and len(b) == 4 and b[0] == 'attr' and b[1] == selfk:
                        fld = b[2]
                if fld is None:
                    continue
                if fld in caches:
                    own_none = Lit('isnone', key=('attr', selfk, fld, 0), pol=True)
                    if _is_none(e.d['value']) or any(l.same(own_none) for l in _guards_before(p, e)):
                        continue      # invalidation / lazy recompute of the cache itself
                for c in caches.values():
                    if fld not in c.all_deps:
                        continue
                    re_est = False
                    for j, e2 in enumerate(evs):
                        if e2.kind == 'store' and e2.d['tkind'] == 'attr' and e2.d['field'] == c.name and \
                                e2.d['base'] is not None and key_of(e2.d['base']) == selfk:
                            if _is_none(e2.d['value']) or j > i:
                                re_est = True
                    if not re_est and (id(e.node), c.name) not in reported:
                        reported.add((id(e.node), c.name))
                        c.problems.append({'writer': e.func, 'node': e.node, 'field': fld, 'entry': f})
    memo[cls.qualname] = caches
    return caches


def _candidates(cls: ClassInfo) -> Set[str]:
    """Attributes tested with `self.X is None` somewhere in the class: the only possible lazy caches."""
    out = set()
    for f in cls.methods.values():
        if f.kind != 'function' or not f.param_names:
            continue
        selfn = f.param_names[0]
        for n in ast.walk(f.node):
            if isinstance(n, ast.Compare) and len(n.ops) == 1 and isinstance(n.ops[0], (ast.Is, ast.Eq)) and \
                    isinstance(n.comparators[0], ast.Constant) and n.comparators[0].value is None and \
                    isinstance(n.left, ast.Attribute) and isinstance(n.left.value, ast.Name) and n.left.value.id == selfn:
                out.add(mangle(cls.name, n.left.attr))
    return out


def all_cold_fields(ctx: Ctx) -> Set[str]:
    memo = getattr(ctx, '_all_cold_fields', None)
    if memo is not None:
        return memo
    ctx._all_cold_fields = set()          # recursion guard: the cache analysis itself runs without cold fields
    out: Set[str] = set()
    owner = {}
    for c in ctx.ix.classes.values():
        if not c.module.name.startswith('iOpt.') or not _candidates(c):
            continue
        for name in lazy_caches(ctx, c):
            out.add(name)
            owner[name] = c
    ctx._all_cold_fields = out
    ctx._cold_owner = owner
    inv = {}
    for name, c in owner.items():
        cache = lazy_caches(ctx, c)[name]
        inv[name] = {ctx.pta._fq(f) for f, _ in cache.invalidate_sites}
    ctx._cold_invalidators = inv
    return out


def report_used(ctx: Ctx):
    """R-CACHE: every lazily cached attribute whose entry state the analysis took to be empty (cold) must be
    coherent - otherwise what the rules proved about the cold computation does not carry over to warm objects."""
    used = sorted(getattr(ctx, '_caches_used', ()))
    if not used:
        return
    rid = 'R-CACHE'
    ctx.rule(rid, 'lazily cached derived attributes relied upon by the analysis are re-established by every routine '
                  'that changes what they are computed from')
    owner = getattr(ctx, '_cold_owner', {})
    for name in used:
        cls = owner.get(name)
        if cls is None:
            continue
        c = lazy_caches(ctx, cls).get(name)
        if c is None:
            continue
        for pr in c.problems:
            w = pr['writer']
            if pr.get('kind') == 'argument':
                ctx.fail(rid, w.short, w.loc(pr['node']),
                         f'the lazily cached attribute {cls.name}.{c.name} is computed from {pr["field"]}: what later '
                         f'calls see depends on which call came first, not on the configuration of the object',
                         key=f'{rid}::{w.short}::history-cache::{c.name}')
                continue
            ctx.fail(rid, w.short, w.loc(pr['node']),
                     f'{w.short} changes {pr["field"]}, on which the lazily cached attribute {cls.name}.{c.name} '
                     f'depends, without invalidating or recomputing it: later computations use a stale value',
                     key=f'{rid}::{w.short}::stale-cache::{c.name}')
        if not c.problems:
            ctx.ok(rid, f'{cls.name}.{c.name}', f'lazy cache of {sorted(c.all_deps)} is coherent', cls.module.relpath)


def _guards_before(p, e) -> List[Lit]:
    out = []
    for x in p.events:
        if x is e:
            break
        if x.kind == 'guard':
            out.append(x.d['lit'])
    return out


def cold_heap(ctx: Ctx, cls: ClassInfo, fn: FuncInfo) -> Dict:
    """Initial heap for exploring fn with every lazy cache of its class empty (the cold computation)."""
    if not fn.param_names:
        return {}
    selfk = key_of(var(fn.param_names[0]))
    return {(selfk, name): atomv(NONE) for name in lazy_caches(ctx, cls)}


def readers(ctx: Ctx, cls: ClassInfo, cache: Cache, roots: List[FuncInfo]) -> bool:
    """Is the cache read by code reachable from the given entry points?"""
    reach = ctx.pta.reachable(roots)
    for q in reach:
        f = ctx.ix.funcs.get(q)
        if f is None or f.kind != 'function' or f.cls is None:
            continue
        for nd in ast.walk(f.node):
            if isinstance(nd, ast.Attribute) and isinstance(nd.ctx, ast.Load) and \
                    mangle(f.cls.name, nd.attr) == cache.name:
                return True
    return False


def report_incoherent(ctx: Ctx, rid: str, cls: ClassInfo, roots: Optional[List[FuncInfo]], consequence: str) -> int:
    """Report every incoherent lazy cache that the given entry points read (all of them when roots is None)."""
    n = 0
    for c in lazy_caches(ctx, cls).values():
        n += 1
        if roots is not None and not readers(ctx, cls, c, roots):
            continue
        for pr in c.problems:
            w = pr['writer']
            if pr.get('kind') == 'argument':
                ctx.fail(rid, w.short, w.loc(pr['node']),
                         f'the lazily cached attribute {c.name} is computed from {pr["field"]}: what later calls see '
                         f'depends on which call came first, not on the configuration of the object: {consequence}',
                         key=f'{rid}::{w.short}::history-cache::{c.name}')
                continue
            ctx.fail(rid, w.short, w.loc(pr['node']),
                     f'{w.short} changes {pr["field"]}, on which the lazily cached attribute {c.name} depends '
                     f'(through {sorted(c.all_deps)}), without invalidating or recomputing it: {consequence}',
                     key=f'{rid}::{w.short}::stale-cache::{c.name}')
        if not c.problems:
            ctx.ok(rid, f'{cls.name}.{c.name}',
                   f'lazy cache of {sorted(c.all_deps)}: every routine that changes a dependency re-establishes it',
                   cls.lookup('__init__').loc() if cls.lookup('__init__') else '')
    return n
