"""C16 - objective failure is contained: Solve returns the best-so-far result (DESIGN.md section 3, C16)."""
from __future__ import annotations

import ast

from ..algebra import FALSE, NONE, RF, TRUE, Lit
from ..index import AnalysisError, FuncInfo
from ..paths import Event, TupleVal, atomv, key_of
from ..report import Ctx
from ..roles import RoleMissing
from . import common as C
from .common import attr, sub, var

LEVEL_TEXT = ('Static decision of the structural necessary conditions: on every syntactic path of the solve driver '
              'on which the objective call raises (any exception type, including non-Exception ones), the exception '
              'is caught, Solve returns, and the global search does not resume; before the objective call of a '
              'regular iteration only queue contents, characteristics, the recalculation flag and the accuracy are '
              'written; every recording effect (counters, z/index, optimum, insertion) comes after the call; a trial is '
              'completely recorded before the next objective call starts (first iteration included); no routine of the evaluation chain is '
              'handed as a callable value to an iterator-consuming callable (map, filter, key=...); the stop '
              'notification of the shipped listeners never formats None with a format specification; nothing between the '
              'handler and the return reports through the warnings machinery or ends the process; a context manager of the library '
              'around the objective call returns None / False from __exit__ on every path.')
EXPLANATION = ('The solve driver is explored with the chain down to the Problem.Calculate call site inlined and an '
               'exceptional continuation forked at that call (exception type unknown: a handler narrower than '
               'BaseException lets a copy of the path propagate). Effects before the call are classified from the '
               'explicit stores on the path and from the points-to write sets of the opaque callees. Failure on the '
               'very first evaluation is excluded by the property and not constrained.')
TRUSTED = ['CPython ast', 'iva engine', 'logging / print calls do not change program state']


def chain_explorer(ctx: Ctx, **kw):
    """Inline exactly the functions through which the global search reaches Problem.Calculate."""
    roles = C.roles_of(ctx)
    pcs = {roles.fq(p) for p in roles.problem_calcs}
    tw = roles.task_wrapper
    lst = roles.listener_methods()
    refine = roles.reach(roles.refine_driver) if roles.refine_driver else set()
    twq = roles.fq(tw)
    sdc = ctx.ix.cls('SearchData')

    def inl(f: FuncInfo, st) -> bool:
        q = roles.fq(f)
        if q in lst or q in pcs:
            return False
        if q in refine and q not in roles.global_reach:
            return False
        if twq in roles.reach(f) or q == twq:
            return True
        # convenience wrappers of the container around its named operations (insert both end points and the first
        # trial in one call ...): looked through, the named operations stay events
        return f.cls is not None and f.cls.is_subclass_of(sdc) and roles.is_glue(f)

    def may_raise(ev: Event) -> bool:
        return any(isinstance(c, FuncInfo) and roles.fq(c) in pcs for c in ev.d['callees']) and \
            roles.in_tw(ev.func)
    return ctx.explorer(inline=inl, may_raise=may_raise, max_paths=40000, **kw)


def explore_within_budget(ctx: Ctx, fn: FuncInfo, rid: str, may_raise_off: bool = False):
    """Paths of fn through the evaluation chain, loops unrolled twice; when that exceeds the path budget (a routine
    with many data-dependent loops) once - recorded in the evidence, never silently."""
    for unroll in (2, 1):
        ex = chain_explorer(ctx, unroll=unroll)
        if may_raise_off:
            ex._may_raise = None
        try:
            return ex.explore(fn)
        except AnalysisError as e:
            if 'path budget' not in str(e) or unroll == 1:
                raise
            ctx.note(f'{rid}: path budget exceeded with loops unrolled twice; {fn.short} analysed with loops '
                     f'unrolled once (loops over list displays are still exact)')
    return []


def r16_1(ctx: Ctx):
    rid = 'R16.1'
    ctx.rule(rid, 'every path of the solve driver on which the objective raises is caught (whatever the exception '
                  'type), returns normally, and performs no further global-search evaluation')
    ctx.rule('R16.7', 'on those paths nothing after the handler can raise because of process-wide configuration: no '
                      'warnings.warn (an "error" warnings filter turns it into an exception), no sys.exit / os._exit')
    roles = C.roles_of(ctx)
    try:
        sd, er, tw = roles.solve_driver, roles.eval_routine, roles.task_wrapper
    except RoleMissing as e:
        ctx.fail(rid, f'role {e.role}', 'iOpt/', str(e), key=f'{rid}::role::{e.role}')
        return
    pcs = {roles.fq(p) for p in roles.problem_calcs}
    n = 0
    for p in explore_within_budget(ctx, sd, rid):
        fails = [i for i, e in enumerate(p.events) if e.kind == 'raise' and e.d.get('implicit')]
        if not fails:
            continue
        n += 1
        i0 = fails[0]
        site = p.events[i0]
        # which evaluation failed?  (failure of the very first evaluation is outside the property)
        prior_evals = [e for e in p.events[:i0] if e.kind == 'call' and roles.in_tw(e.func) and
                       any(isinstance(c, FuncInfo) and roles.fq(c) in pcs for c in e.d['callees'])]
        # the failing call itself is the last of these
        k = len(prior_evals)
        loc = sd.loc()
        catches = [e for e in p.events[i0:] if e.kind == 'catch']
        where = sd.loc(catches[0].node) if catches else sd.loc()
        if p.outcome == 'raise':
            why = p.exc.note if p.exc is not None and p.exc.note else 'no enclosing handler'
            ctx.fail(rid, sd.short, where,
                     f'an exception raised by the objective (evaluation #{k} on this path) escapes Solve: {why}; '
                     f'exceptions that do not derive from Exception (KeyboardInterrupt) must be contained too',
                     key=f'{rid}::{sd.short}::escapes', detail={'path': p.describe(50)[-25:]})
            continue
        ctx.ok(rid, sd.short, f'objective failure at evaluation #{k} of the path is caught and Solve returns', where)
        later = [e for e in p.events[i0:] if e.kind == 'call' and roles.in_tw(e.func) and
                 any(isinstance(c, FuncInfo) and roles.fq(c) in pcs for c in e.d['callees'])]
        ctx.check(not later, rid, sd.short, where, 'the global search does not resume after the failure',
                  'after an objective failure the global search resumes (another evaluation follows the handler): '
                  'the failed point is retried or skipped silently', key=f'{rid}::{sd.short}::resumes')
        # R16.7: what runs between the handler and the return must not be able to raise because of process-wide
        # configuration: warnings.warn raises the warning as an exception under an 'error' filter (-W error,
        # pytest filterwarnings=error) - from inside the handler it leaves Solve; sys.exit / os._exit end the process
        for ev in p.events[i0:]:
            if ev.kind == 'call' and isinstance(ev.d.get('callee'), str) and ev.d['callee'] in CONFIG_RAISERS:
                ctx.fail('R16.7', ev.func.short, ev.func.loc(ev.node),
                         f'after an objective failure was caught the path calls {ev.d["callee"]} '
                         f'(`{ast.unparse(ev.node)[:60]}`): {CONFIG_RAISERS[ev.d["callee"]]}, so the failure is no '
                         f'longer contained and Solve does not return the result of the completed trials',
                         key=f'R16.7::{ev.func.short}::{ev.d["callee"]}')
        ret = p.value
        res = [e for e in p.events[i0:] if e.kind == 'call' and e.d['name'] == 'GetResults']
        ctx.check(p.outcome == 'return' and ret is not None and key_of(ret) != NONE, rid, sd.short, where,
                  'Solve returns a result object on the failure path',
                  'Solve returns nothing on the failure path', key=f'{rid}::{sd.short}::returns-result')
    ctx.floor(rid, 'failure paths of the solve driver', n, 2)
    if not any(x.rule == 'R16.7' for x in ctx.findings):
        ctx.ok('R16.7', sd.short, f'{n} failure paths: nothing between the handler and the return reports through the '
                                  f'warnings machinery or ends the process', sd.loc())


CONFIG_RAISERS = {
    'warnings.warn': 'with warnings promoted to errors (an "error" filter) the warning is raised as an exception',
    'warnings.warn_explicit': 'with warnings promoted to errors (an "error" filter) the warning is raised as an '
                              'exception',
    'sys.exit': 'it raises SystemExit', 'builtins.exit': 'it raises SystemExit', 'builtins.quit': 'it raises SystemExit',
    'os._exit': 'it ends the process', 'os.abort': 'it ends the process',
}


ALLOWED_PRE_FIELDS = {'globalR', 'recalc', 'solutionAccuracy', 'curIter', 'localR'}


def classify_mutation(ctx: Ctx, m, fresh_owners) -> str:
    """'' if allowed before the evaluation, else a description."""
    if m.init_self:
        return ''
    evc = ctx.ix.find_cls('Evolvent')
    if (m.func.cls is not None and m.func.cls.name == 'Evolvent') or \
            (evc is not None and (m.func.module is evc.module or
                                  m.func.module.name.rsplit('.', 1)[0] == evc.module.name.rsplit('.', 1)[0])):
        # the evolvent's scratch array and call-local work arrays (also through helper functions of its module):
        # re-established by every query (decided under C17)
        return ''
    if m.kind in ('attr', 'aug') and isinstance(m.field, str) and m.field in ALLOWED_PRE_FIELDS:
        return ''
    bases = [o for o in m.bases if o.kind not in ('cls', 'func', 'module', 'extmod', 'builtin', 'bm', 'extmeth')]
    if not bases:
        return ''
    # the characteristics queue: the DEPQ itself and the bookkeeping of its wrapper
    qc = ctx.ix.find_cls('CharacteristicsQueue')
    if qc is not None and all(o.cls is not None and o.cls.is_subclass_of(qc) for o in bases):
        return ''
    if m.kind == 'extcall' and all(o.kind == 'ext' and o.extra and o.extra[0] == 'xcls' and 'DEPQ' in o.extra[1]
                                   for o in bases):
        return ''
    non_fresh = [o for o in bases if not (o.scope == 'func' and o.owner in fresh_owners)
                 and o.kind not in ('arith',)]
    if not non_fresh:
        return ''
    return f'{m.text()[:70]} (in {m.func.short}) may write {non_fresh[0].describe()}'


def r16_2_3(ctx: Ctx):
    rid = 'R16.2'
    ctx.rule(rid, 'pre-evaluation whitelist: on a regular iteration, before the objective call only queue contents, '
                  'characteristics, the recalculation flag, the accuracy and fresh objects are written')
    ctx.rule('R16.3', 'every recording effect (trial counter, z/index, optimum, insertion, iteration counter) '
                      'comes after the objective call')
    roles = C.roles_of(ctx)
    try:
        drv, er, tw, up, rn, sdg = roles.iter_driver, roles.eval_routine, roles.task_wrapper, \
            roles.optimum_updater, roles.renewal, roles.seeding
    except RoleMissing as e:
        ctx.fail(rid, f'role {e.role}', 'iOpt/', str(e), key=f'{rid}::role::{e.role}')
        return
    pcs = {roles.fq(p) for p in roles.problem_calcs}
    lst = roles.listener_methods()
    muts = roles.mutations()
    n = 0
    n3 = 0
    ex = chain_explorer(ctx, unroll=2)        # only its effect summaries (writes_of) are used below
    for p in C.normal_paths(explore_within_budget(ctx, drv, rid, may_raise_off=True)):
        evs = p.events
        # trips of the iteration loop
        starts = [i for i, e in enumerate(evs) if e.kind == 'iter' and e.depth == 0 and e.func is drv]
        for si, s in enumerate(starts):
            end = len(evs)
            for j in range(s + 1, len(evs)):
                e = evs[j]
                if e.depth == 0 and e.func is drv and e.kind in ('iter', 'loopexit') and e.d['loop'] == evs[s].d['loop']:
                    end = j
                    break
            trip = evs[s:end]
            evals = [i for i, e in enumerate(trip) if e.kind == 'call' and roles.in_tw(e.func) and
                     any(isinstance(c, FuncInfo) and roles.fq(c) in pcs for c in e.d['callees'])]
            if not evals:
                continue
            if any(e.kind == 'call' and e.d.get('callee') is sdg for e in trip):
                continue        # seeding trip: failure of the first evaluation is outside the property
            n += 1
            ie = evals[0]
            pre, post = trip[:ie], trip[ie + 1:]
            # functions entered before the call: their allocations are fresh for this trip
            fresh_owners = {drv.qualname}
            opaque = []
            for e in pre:
                if e.kind == 'call':
                    for c in e.d['callees']:
                        if isinstance(c, FuncInfo):
                            if e.d.get('inlined'):
                                fresh_owners.add(c.qualname)
                            elif roles.fq(c) not in lst:
                                opaque.append((e, c))
            for e, c in opaque:
                for q in ctx.pta.reachable([c]):
                    fresh_owners.add(q.replace('@setter', ''))
            bad = []
            for e, c in opaque:
                reach = ctx.pta.reachable([c])
                for m in muts:
                    if roles.fq(m.func) in reach:
                        d = classify_mutation(ctx, m, fresh_owners)
                        if d:
                            bad.append((e, d))
            for e in pre:
                if e.kind == 'store' and e.d['tkind'] in ('attr', 'sub'):
                    b = e.d['base']
                    ba = b.single_atom() if isinstance(b, RF) else None
                    fresh = isinstance(b, TupleVal) or (isinstance(ba, tuple) and ba and ba[0] == 'fresh')
                    fld = e.d['field'] if isinstance(e.d['field'], str) else '[]'
                    if fresh or fld in ALLOWED_PRE_FIELDS:
                        continue
                    bad.append((e, f'{e.d["tdesc"]} := ... at {e.loc()}'))
            key = f'{rid}::{drv.short}::pre-eval-effects'
            if bad:
                e0, d0 = bad[0]
                ctx.fail(rid, e0.func.short, e0.loc(),
                         f'state other than queue/characteristics/flag/accuracy is written before the objective is '
                         f'evaluated: {d0}; an objective failure leaves it behind although the trial never completed',
                         key=f'{rid}::{e0.func.short}::{d0.split(" (in ")[0][:60]}',
                         detail={'all': [d for _, d in bad][:10]})
            else:
                ctx.ok(rid, drv.short, 'effects before the objective call of a regular iteration are within the '
                                       'whitelist', drv.loc(trip[0].node))
            # R16.3: recorders after the call
            n3 += 1
            rec_pre = []
            for e in pre:
                if e.kind == 'call' and (up in e.d['callees'] or rn in e.d['callees'] or
                                         any(isinstance(c, FuncInfo) and c.name in ('InsertDataItem',)
                                             for c in e.d['callees'])):
                    rec_pre.append(f'{e.d["name"]} at {e.loc()}')
                if e.kind == 'store' and e.d['tkind'] == 'attr' and e.d['field'] in (
                        'numberOfGlobalTrials', 'iterationsCount', '_SearchDataItem__z', '_SearchDataItem__index'):
                    rec_pre.append(f'{e.d["tdesc"]} at {e.loc()}')
            ctx.check(not rec_pre, 'R16.3', drv.short, drv.loc(trip[0].node),
                      'counters, z/index, optimum update and insertion all come after the objective call',
                      f'a recording effect precedes the objective call: {rec_pre[:3]}: a failing evaluation is '
                      f'recorded as if it had completed', key=f'R16.3::{drv.short}::{rec_pre[0].split(" at ")[0] if rec_pre else ""}')
            rec_post = {'counter': False, 'z': False, 'optimum': False, 'insert': False, 'iteration': False}
            for e in post:
                if e.kind == 'store' and e.d['tkind'] == 'attr':
                    if e.d['field'] == 'numberOfGlobalTrials':
                        rec_post['counter'] = True
                    if e.d['field'] == '_SearchDataItem__z':
                        rec_post['z'] = True
                    if e.d['field'] == 'iterationsCount':
                        rec_post['iteration'] = True
                if e.kind == 'call':
                    if up in e.d['callees']:
                        rec_post['optimum'] = True
                    if rn in e.d['callees']:
                        rec_post['insert'] = True
                    if any(isinstance(c, FuncInfo) and c.name == 'FinalizeIteration' for c in e.d['callees']):
                        rec_post['iteration'] = True
                    if any(isinstance(c, FuncInfo) and 'iterationsCount' in ex.writes_of(c) for c in e.d['callees']):
                        rec_post['iteration'] = True
            missing = [k for k, v in rec_post.items() if not v]
            ctx.check(not missing, 'R16.3', drv.short, drv.loc(trip[0].node),
                      'all five recording effects are found after the objective call',
                      f'recording effects not found after the objective call: {missing}',
                      key=f'R16.3::{drv.short}::missing::{",".join(missing)}')
    if not any(f.rule == 'R16.5' for f in ctx.findings):
        ctx.floor(rid, 'regular iteration trips analysed', n, 1)


def r16_4(ctx: Ctx):
    """A trial is completely recorded (optimum updated, item inserted) before the next objective call starts -
    wherever the two evaluations sit (the first iteration included): otherwise a failure of evaluation k >= 2
    loses, or half-records, the completed trial k-1 although it was counted."""
    rid = 'R16.4'
    ctx.rule(rid, 'between two objective evaluations on a path of the iteration driver the earlier trial has been '
                  'passed to the optimum updater and inserted into the search data')
    roles = C.roles_of(ctx)
    try:
        drv, er, tw, up, rn = roles.iter_driver, roles.eval_routine, roles.task_wrapper, roles.optimum_updater, \
            roles.renewal
    except RoleMissing as e:
        ctx.fail(rid, f'role {e.role}', 'iOpt/', str(e), key=f'{rid}::role::{e.role}')
        return
    ins = set(roles.sd_method('InsertDataItem'))
    n = 0
    for p in C.normal_paths(explore_within_budget(ctx, drv, rid, may_raise_off=True)):
        pending = None         # (keys of the evaluated item, event, state)
        for e in p.events:
            if e.kind != 'call':
                continue
            cs = e.d['callees']
            if er in cs:
                n += 1
                a = e.d['args'][0] if e.d['args'] else None
                if pending is not None and not (pending[2]['optimum'] and pending[2]['insert']):
                    miss = [k for k, v in pending[2].items() if not v]
                    ctx.fail(rid, e.func.short, e.loc(),
                             f'an objective evaluation starts while the previous trial (evaluated at '
                             f'{pending[1].loc()}) is not yet recorded ({", ".join(miss)} missing): if this evaluation '
                             f'raises, Solve returns a result that counts the completed trial but does not contain it',
                             key=f'{rid}::{e.func.short}::evaluation-before-recording')
                keys = {key_of(a)} if a is not None else set()
                pending = (keys, e, {'optimum': False, 'insert': False})
                continue
            if pending is None:
                continue
            a0 = e.d['args'][0] if e.d['args'] else None
            if a0 is None:
                continue
            same = key_of(a0) in pending[0]
            if up in cs and same:
                pending[2]['optimum'] = True
            if (rn in cs or (ins & set(c for c in cs if isinstance(c, FuncInfo)))) and same:
                pending[2]['insert'] = True
            # the evaluation routine returns its argument: later names of the same item
            if er in cs and e.d.get('result') is not None:
                pending[0].add(key_of(e.d['result']))
    if not any(f.rule == 'R16.5' for f in ctx.findings):
        ctx.floor(rid, 'objective evaluations on paths of the iteration driver', n, 2)
    if not any(f.rule == rid for f in ctx.findings):
        ctx.ok(rid, drv.short, 'every trial is recorded before the next evaluation starts', drv.loc())


def r16_5(ctx: Ctx):
    """The objective is reached by plain calls only.  A routine of the evaluation chain handed as a *value* to an
    iterator-consuming callable (map, filter, itertools, sorted/min/max key=...) runs inside the iterator protocol:
    a StopIteration raised by the objective ends the iteration silently instead of reaching the handler of Solve."""
    rid = 'R16.5'
    ctx.rule(rid, 'no routine through which the global search reaches the objective is passed as a callable value '
                  '(map / filter / key= ...): exceptions of the objective must propagate as exceptions')
    roles = C.roles_of(ctx)
    try:
        tw, drv = roles.task_wrapper, roles.iter_driver
    except RoleMissing as e:
        ctx.fail(rid, f'role {e.role}', 'iOpt/', str(e), key=f'{rid}::role::{e.role}')
        return
    twq = roles.fq(tw)
    chain = {q for q in roles.global_reach | {roles.fq(drv)} if q in ctx.ix.funcs and
             (q == twq or twq in roles.reach(ctx.ix.funcs[q]))}
    lst = roles.listener_methods()
    n = 0
    for q in sorted((roles.global_reach | {roles.fq(drv)}) - lst):
        f = ctx.ix.funcs.get(q)
        if f is None or f.kind != 'function':
            continue
        for call in ast.walk(f.node):
            if not isinstance(call, ast.Call):
                continue
            for a in list(call.args) + [k.value for k in call.keywords]:
                if not isinstance(a, (ast.Name, ast.Attribute, ast.Lambda)):
                    continue
                n += 1
                targets = set()
                if isinstance(a, ast.Lambda):
                    for c in ast.walk(a.body):
                        if isinstance(c, ast.Call):
                            targets |= {roles.fq(x) for x in ctx.pta.internal_callees(f, c)}
                else:
                    for o in ctx.pta.expr_pts(f, a):
                        if o.kind == 'bm':
                            targets.add(roles.fq(o.extra[1]))
                        elif o.kind == 'func':
                            targets.add(roles.fq(o.extra[1]))
                hit = sorted(targets & chain)
                if hit:
                    ctx.fail(rid, f.short, f.loc(call),
                             f'{ast.unparse(a)[:50]} (a routine through which the objective is evaluated) is passed '
                             f'as a callable to {ast.unparse(call.func)[:30]}(...): inside map/filter/key= the '
                             f'objective runs under the iterator protocol, where a StopIteration it raises ends the '
                             f'iteration silently - Solve neither stops nor reports the failure, and the unevaluated '
                             f'item is recorded', key=f'{rid}::{f.short}::callable::{hit[0].split(":")[-1]}')
    ctx.ok(rid, 'search path', f'{n} name/attribute/lambda arguments on the search path examined: none is a routine '
                               f'of the evaluation chain', 'iOpt/method/')


def _none_into_format(p) -> list:
    """Call events on path p of the form "<literal>".format(...) in which a field with a format specification (or a
    conversion-free alignment / width) receives None: str.format raises TypeError there."""
    import string
    out = []
    for e in p.events:
        if e.kind != 'call' or e.d['name'] != 'format':
            continue
        ra = e.d['recv'].single_atom() if isinstance(e.d.get('recv'), RF) else None
        if not (isinstance(ra, tuple) and len(ra) == 2 and ra[0] == 'str' and isinstance(ra[1], str)):
            continue
        try:
            fields = list(string.Formatter().parse(ra[1]))
        except ValueError:
            continue
        auto = 0
        for _lit, name, spec, conv in fields:
            if name is None:
                continue
            head = name.split('.')[0].split('[')[0]
            if head == '':
                idx, auto = auto, auto + 1
                val = e.d['args'][idx] if idx < len(e.d['args']) else None
            elif head.isdigit():
                val = e.d['args'][int(head)] if int(head) < len(e.d['args']) else None
            else:
                val = (e.d.get('kwargs') or {}).get(head)
            if val is None or conv or not spec:
                continue            # !r / !s convert first; an empty spec formats None as 'None'
            if key_of(val) == NONE:
                out.append((e, name, spec))
    return out


def with_blocks_around_objective(ctx: Ctx):
    """(function, With node) for every `with` statement on the global search path whose body leads to the objective
    call (the chain: solve driver -> ... -> task wrapper -> Problem.Calculate)."""
    roles = C.roles_of(ctx)
    tw = roles.task_wrapper
    twq = roles.fq(tw)
    pcs = {roles.fq(p) for p in roles.problem_calcs}
    out = []
    for q in sorted(roles.reach(roles.solve_driver)):
        f = ctx.ix.funcs.get(q)
        if f is None or f.kind != 'function':
            continue
        if not (roles.in_tw(f) or twq in roles.reach(f)):
            continue
        for nd in ast.walk(f.node):
            if not isinstance(nd, (ast.With, ast.AsyncWith)):
                continue
            leads = False
            for b in nd.body:
                for c in ast.walk(b):
                    if isinstance(c, ast.Call):
                        for g in ctx.pta.internal_callees(f, c):
                            gq = roles.fq(g)
                            if gq in pcs or roles.in_tw(g) or twq in roles.reach(g):
                                leads = True
            if leads:
                out.append((f, nd))
    return out


SUPPRESSING_EXT = {'contextlib.suppress': 'it swallows the listed exceptions',
                   'contextlib.ExitStack': 'its registered exit callbacks can swallow the exception'}


def r16_8(ctx: Ctx):
    """A `with` block around the objective call is part of the containment: its __exit__ sees the exception first.  A
    context manager of the library whose __exit__ returns a true value swallows every exception of the objective -
    KeyboardInterrupt included - and the iteration carries on with a point that was never evaluated."""
    rid = 'R16.8'
    ctx.rule(rid, 'context managers around the objective call do not swallow its exception: __exit__ of a library class '
                  'returns None / False on every path; contextlib.suppress is not used there')
    n = 0
    ex = ctx.explorer(raw=True, unroll=1, max_paths=2000)
    try:
        blocks = with_blocks_around_objective(ctx)
    except RoleMissing as e:
        ctx.note(f'{rid}: not applied ({e}); the role rules report it')
        return
    for f, nd in blocks:
        for item in nd.items:
            n += 1
            ce = item.context_expr
            objs = ctx.pta.expr_pts(f, ce)
            for o in sorted(objs, key=lambda o_: o_.describe()):
                if o.kind in ('inst', 'ext_inst') and o.cls is not None:
                    exi = o.cls.lookup('__exit__')
                    if exi is None:
                        continue
                    bad = None
                    for p in ex.explore(exi):
                        if p.outcome != 'return' or p.value is None:
                            continue
                        v = p.value
                        k = key_of(v) if isinstance(v, RF) else None
                        if k in (NONE, FALSE):
                            continue
                        c = v.const_value() if isinstance(v, RF) else None
                        if c is not None and c == 0:
                            continue
                        a = v.single_atom() if isinstance(v, RF) else None
                        if isinstance(a, tuple) and a[0] in ('const',) and a[1] is False:
                            continue
                        bad = v
                        break
                    ctx.check(bad is None, rid, exi.short, exi.loc(),
                              f'{exi.short} returns None / False on every path',
                              f'{exi.short} (entered by `with {ast.unparse(ce)[:40]}` around the objective call in '
                              f'{f.short}) can return {C.fmt(bad) if bad is not None else ""}: a true value makes the '
                              f'`with` statement swallow whatever the objective raised, the failed point is recorded '
                              f'as a trial and the search goes on', key=f'{rid}::{exi.short}::returns-value')
            if isinstance(ce, ast.Call):
                for d in ctx.pta.ext_callees(f, ce):
                    if d in SUPPRESSING_EXT:
                        ctx.fail(rid, f.short, f.loc(nd),
                                 f'`with {ast.unparse(ce)[:50]}` encloses the objective call: {SUPPRESSING_EXT[d]}, so a '
                                 f'failed evaluation is recorded as a trial', key=f'{rid}::{f.short}::{d}')
    ctx.analysed[f'{rid}_with_items_around_objective'] = n
    if not any(x.rule == rid for x in ctx.findings):
        ctx.ok(rid, 'evaluation chain', f'{n} context managers enclose the objective call: none can swallow its exception',
               'iOpt/method')


def r16_6(ctx: Ctx):
    """After the handler Solve notifies the listeners (outside any try): a shipped listener that raises there turns
    the contained failure into an exception of Solve.  Decided for one structural cause: a value that is None on the
    failure state (a helper that falls off its end when neither stop criterion holds) formatted with a format
    specification."""
    rid = 'R16.6'
    ctx.rule(rid, 'the stop notification of the shipped listeners does not raise for a structural reason on the '
                  'failure state: no path formats None with a format specification ("{:<20}".format(None) is a '
                  'TypeError)')
    base = ctx.ix.find_cls('Listener')
    if base is None:
        ctx.fail(rid, 'Listener', 'iOpt/', 'class Listener not found', key=f'{rid}::no-listener')
        return
    n = 0
    for cls in sorted(base.all_subclasses(), key=lambda c: c.qualname):
        if not cls.module.name.startswith('iOpt.'):
            continue
        m = cls.methods.get('OnMethodStop')
        if m is None:
            continue
        ex = ctx.explorer(raw=True, inline=lambda f, st: f.module.name.startswith(('iOpt.output_system.console',
                                                                                   'iOpt.method.listener')),
                          unroll=1, max_paths=6000, max_depth=6)
        try:
            paths = ex.explore(m)
        except AnalysisError as err:
            ctx.note(f'{rid}: {cls.name}.OnMethodStop not enumerated ({err}); not decided for this listener')
            continue
        n += 1
        hits = []
        for p in paths:
            hits += _none_into_format(p)
        if hits:
            e, name, spec = hits[0]
            ctx.fail(rid, e.func.short, e.loc(),
                     f'on a path of {cls.name}.OnMethodStop the field {{{name}:{spec}}} of a format string receives '
                     f'None (a helper fell off its end without a return): str.format raises TypeError, the stop '
                     f'notification fails and Solve raises instead of returning the best-so-far result after an '
                     f'objective failure', key=f'{rid}::{e.func.short}::none-formatted')
        else:
            ctx.ok(rid, f'{cls.name}.OnMethodStop', f'{len(paths)} paths: no None reaches a formatted field', m.loc())
    ctx.floor(rid, 'shipped listeners whose stop notification was enumerated', n, 1)


def check(ctx: Ctx):
    if C.want(ctx, 'R16.8'):
        r16_8(ctx)
    if C.want(ctx, 'R16.6'):
        r16_6(ctx)
    if C.want(ctx, 'R16.5'):
        r16_5(ctx)
    if C.want(ctx, 'R16.4'):
        r16_4(ctx)
    if C.want(ctx, 'R16.1'):
        r16_1(ctx)
    if C.want(ctx, 'R16.2') or C.want(ctx, 'R16.3'):
        r16_2_3(ctx)
    ctx.assume('an exception can leave the objective only at its call site in the task wrapper; everything the '
               'call tree wrote before is visible in the points-to write sets')
