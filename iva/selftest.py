"""Self-validation of the checkers (thorough tier, DESIGN.md section 5).

Every rule keeps seeded variants (must fire, naming the edited construct) and
behaviour-preserving twins (must stay silent).  A variant is an edit of one
function of /repo's *current* tree applied to a scratch copy outside /repo and
/verif; the copy is byte-compiled, analysed and removed.  Nothing of iOpt is run.
The verdict on the property is always the analysis of the unmodified tree; a
self-validation miss is an ANALYSIS-ERROR (exit 2): the checker has gone blind.
"""
from __future__ import annotations

import ast
import importlib
import json
import multiprocessing as mp
import os
import py_compile
import shutil
import sys
import tempfile
import time
from typing import Dict, List, Optional, Tuple

from .index import AnalysisError

VERIF = os.path.dirname(os.path.dirname(os.path.abspath(__file__)))


class Edit:
    def __init__(self, id: str, prop: str, file: str, func: Optional[str], old: str, new: str, expect: str,
                 rule: Optional[str] = None, why: str = '', also: Optional[List[Tuple[str, Optional[str], str, str]]] = None):
        self.id, self.prop, self.file, self.func, self.old, self.new = id, prop, file, func, old, new
        self.expect, self.rule, self.why = expect, rule, why
        self.also = also or []          # further (file, func, old, new) parts of the same variant


def _func_span(src: str, func: Optional[str]) -> Optional[Tuple[int, int]]:
    if func is None:
        return 0, len(src)
    import warnings
    with warnings.catch_warnings():
        warnings.simplefilter('ignore')
        tree = ast.parse(src)
    parts = func.split('.')
    node = tree
    for pname in parts:
        nxt = None
        for ch in ast.iter_child_nodes(node):
            if isinstance(ch, (ast.ClassDef, ast.FunctionDef)) and ch.name == pname:
                nxt = ch       # last definition wins (property + setter share a name)
                if not (isinstance(ch, ast.FunctionDef) and any('setter' in ast.unparse(d) for d in ch.decorator_list)):
                    break
        if nxt is None:
            return None
        node = nxt
    lines = src.split('\n')
    start = sum(len(l) + 1 for l in lines[:node.lineno - 1])
    end = sum(len(l) + 1 for l in lines[:node.end_lineno])
    return start, end


def apply_part(root: str, file: str, func: Optional[str], old: str, new: str) -> bool:
    if file == '@diff':
        # a whole patch kept under /verif/seeded (path in `old`), applied with git apply
        import subprocess
        r = subprocess.run(['git', 'apply', '--include=iOpt/*', os.path.join(VERIF, old)], cwd=root,
                           capture_output=True, text=True)
        return r.returncode == 0
    path = os.path.join(root, file)
    if not os.path.exists(path):
        return False
    src = open(path, encoding='utf-8').read()
    span = _func_span(src, func)
    if span is None:
        return False
    seg = src[span[0]:span[1]]
    if seg.count(old) != 1:
        return False
    seg = seg.replace(old, new)
    out = src[:span[0]] + seg + src[span[1]:]
    with open(path, 'w', encoding='utf-8') as f:
        f.write(out)
    try:
        import warnings
        with warnings.catch_warnings():
            warnings.simplefilter('ignore')
            compile(out, path, 'exec')
    except Exception:
        return False
    return True


def _run_one(args) -> dict:
    edit_d, repo, scratch_root, prop_override = args
    e = Edit(**edit_d)
    work = tempfile.mkdtemp(prefix=f'{e.id}-', dir=scratch_root)
    t0 = time.time()
    try:
        shutil.copytree(os.path.join(repo, 'iOpt'), os.path.join(work, 'iOpt'),
                        ignore=shutil.ignore_patterns('__pycache__'))
        ok = apply_part(work, e.file, e.func, e.old, e.new)
        for (f2, fn2, o2, n2) in e.also:
            ok = ok and apply_part(work, f2, fn2, o2, n2)
        if not ok:
            return {'id': e.id, 'status': 'skipped', 'why': 'edit does not apply to the current tree'}
        from .report import Ctx
        if e.prop == '*':
            e.prop = prop_override
        mod = importlib.import_module(f'iva.rules.{e.prop.lower()}')
        ctx = Ctx(e.prop, work, 'quick')
        from .report import run_rules
        ex = run_rules(mod, ctx)
        if ex is None:
            from .rules import caches
            caches.report_used(ctx)
        else:
            # like bin/check: violations found by the other rules are kept; without any the run is undecided
            if e.expect == 'noalarm' and not ctx.new_violations():
                return {'id': e.id, 'status': 'ok', 'expect': e.expect, 'undecided': str(ex)[:200]}
            if not ctx.new_violations():
                return {'id': e.id, 'status': 'analysis-error', 'msg': str(ex), 'expect': e.expect}
        from .report import load_known
        known = {(k['property'], k['key']) for k in load_known().get('findings', [])}
        fs = [f for f in ctx.findings if (e.prop, f.key) not in known]
        rules = sorted({f.rule for f in fs})
        res = {'id': e.id, 'expect': e.expect, 'n_findings': len(fs), 'rules': rules,
               'first': (f'{fs[0].loc}: [{fs[0].rule}] {fs[0].message}'[:300] if fs else ''),
               'wall_s': round(time.time() - t0, 2)}
        if e.expect == 'fire':
            hit = bool(fs) and (e.rule is None or any(r == e.rule or r.startswith(e.rule) for r in rules))
            res['status'] = 'ok' if hit else 'MISSED'
        else:
            res['status'] = 'ok' if not fs else 'FALSE-ALARM'
        return res
    except Exception as ex:      # pragma: no cover - reported, never swallowed
        import traceback
        return {'id': e.id, 'status': 'crash', 'msg': traceback.format_exc()[-1500:], 'expect': e.expect}
    finally:
        shutil.rmtree(work, ignore_errors=True)


def run(prop: str, repo: str = '/repo', seed: int = 0, only: Optional[str] = None) -> int:
    from .corpus import CORPUS
    edits = [e for e in CORPUS if e.prop in (prop, '*') and (only is None or e.id == only)]
    if not edits:
        print(f'{prop}: no self-validation corpus')
        return 0
    scratch_root = tempfile.mkdtemp(prefix='iva-selftest-')
    t0 = time.time()
    try:
        jobs = [({'id': e.id, 'prop': e.prop, 'file': e.file, 'func': e.func, 'old': e.old, 'new': e.new,
                  'expect': e.expect, 'rule': e.rule, 'why': e.why, 'also': e.also}, repo, scratch_root, prop)
                for e in edits]
        with mp.get_context('fork').Pool(min(16, max(1, len(jobs)))) as pool:
            results = pool.map(_run_one, jobs, chunksize=1)
    finally:
        shutil.rmtree(scratch_root, ignore_errors=True)
    bad = [r for r in results if r['status'] in ('MISSED', 'FALSE-ALARM', 'crash') or
           (r['status'] == 'analysis-error' and r.get('expect') == 'silent')]
    # an analysis error on a seeded (breaking) variant is an alarm of a kind: the tree is not accepted
    n_ok = sum(1 for r in results if r['status'] == 'ok')
    n_skip = sum(1 for r in results if r['status'] == 'skipped')
    n_ae = sum(1 for r in results if r['status'] == 'analysis-error')
    summary = {'variants': len(results), 'ok': n_ok, 'skipped': n_skip, 'analysis_error_on_variant': n_ae,
               'bad': bad, 'wall_s': round(time.time() - t0, 1),
               'fired': [r['id'] for r in results if r.get('expect') == 'fire' and r['status'] == 'ok'],
               'silent': [r['id'] for r in results if r.get('expect') == 'silent' and r['status'] == 'ok'],
               'skipped_ids': [r['id'] for r in results if r['status'] == 'skipped']}
    # merge into the evidence file written by the quick analysis of this very run
    evp = os.path.join(VERIF, 'evidence', f'{prop}.json')
    if os.path.abspath(repo) == '/repo' and os.path.exists(evp):
        with open(evp) as f:
            ev = json.load(f)
        ev['coverage']['self_validation'] = summary
        ev['coverage']['explanation'] += (f' Thorough tier: the checker itself was validated on {len(results)} '
                                          f'seeded variants/twins of the current tree ({n_ok} as expected, '
                                          f'{n_skip} not applicable).')
        ev['wall_s'] = round(ev.get('wall_s', 0) + summary['wall_s'], 3)
        with open(evp, 'w') as f:
            json.dump(ev, f, indent=1, default=str)
    print(f'{prop}: self-validation {n_ok}/{len(results)} as expected, {n_skip} skipped, '
          f'{n_ae} analysis-error on variants, {len(bad)} bad, {summary["wall_s"]}s')
    for r in results:
        if os.environ.get('IVA_SELFTEST_VERBOSE') or r in bad:
            print('   ', json.dumps(r)[:600])
    if bad:
        print(f'ANALYSIS-ERROR: self-validation of the {prop} checker failed for: '
              + ', '.join(f'{r["id"]}({r["status"]})' for r in bad))
        return 2
    return 0


if __name__ == '__main__':
    sys.exit(run(sys.argv[1], only=sys.argv[2] if len(sys.argv) > 2 else None))
