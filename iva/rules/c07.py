"""C07 - the evolvent visits every grid cell exactly once - PARTIAL (DESIGN.md section 3, C07)."""
from __future__ import annotations

import ast
from fractions import Fraction

from ..algebra import NONE, RF, Lit
from ..index import AnalysisError, FuncInfo
from ..paths import TupleVal, atomv, key_of
from ..report import Ctx
from . import common as C
from . import evo
from .common import attr, sub, var

LEVEL_TEXT = ('PARTIAL. Decided statically: (a) the curve coordinate never reaches a tolerance comparison (the end '
              'point is tested exactly); (b) the base-2^N digit extraction scaffold (d <- d*B; digit <- int(d); '
              'd <- d - digit; end point -> digit B-1 with zero remainder) and the radix B = 2^N built by N '
              'doublings; (c) every image lies in the cube (inductive bound) and is mapped into the box by the exact '
              'affine map; (d) the forward query reads no attribute that an earlier query left behind (the image is '
              'a function of x and the configuration). Magnitudes of N*m bits are formed from int()-normalised values only. The evolvent keeps no process-wide state; the forward query returns the transformed array as it is (value copies only, no rounding / clipping / narrowing call). NOT decided: that the node rule enumerates each of the 2^N sub-cells exactly once per '
              'orientation state (a combinatorial fact about an integer recursion).')
EXPLANATION = ('Taint analysis of the forward query\'s argument; per-level normal forms of the digit extraction on path '
               'summaries (levels unrolled twice); constructor evaluation of the radix; the cube bound and affine map '
               'as under C05. A change confined to the node rule (__CalculateNode) is invisible to this check.')
TRUSTED = ['CPython ast', 'iva engine', 'int() truncates a non-negative float']
LEVEL_NOTE = 'Bijectivity of the node rule is not covered (see DESIGN.md, C07).'

TOL_CALLS = {'isclose', 'allclose', 'assert_allclose', 'assert_almost_equal', 'approx'}


def r07_1(ctx: Ctx):
    rid = 'R07.1'
    ctx.rule(rid, 'exact end point: the curve coordinate (and what is derived from it without passing through '
                  'int()) never reaches a tolerance comparison')
    e = evo.evo_of(ctx)
    n_sites = 0
    for fn, pidx in ((e.get_image, 1), (e.forward, 1)):
        tainted = {fn.param_names[pidx]}
        changed = True
        while changed:
            changed = False
            for n in ast.walk(fn.node):
                tgt = val = None
                if isinstance(n, ast.Assign) and len(n.targets) == 1 and isinstance(n.targets[0], ast.Name):
                    tgt, val = n.targets[0].id, n.value
                elif isinstance(n, ast.AnnAssign) and isinstance(n.target, ast.Name) and n.value is not None:
                    tgt, val = n.target.id, n.value
                elif isinstance(n, ast.AugAssign) and isinstance(n.target, ast.Name):
                    tgt, val = n.target.id, n.value
                if tgt is None or tgt in tainted:
                    continue
                if _tainted(val, tainted):
                    tainted.add(tgt)
                    changed = True
        for n in ast.walk(fn.node):
            if isinstance(n, ast.Call):
                nm = n.func.attr if isinstance(n.func, ast.Attribute) else (n.func.id if isinstance(n.func, ast.Name) else '')
                if nm in TOL_CALLS:
                    n_sites += 1
                    if any(_tainted(a, tainted) for a in n.args):
                        ctx.fail(rid, fn.short, fn.loc(n),
                                 f'{ast.unparse(n)} compares the curve coordinate with a tolerance: as soon as a '
                                 f'sub-interval is shorter than the tolerance (N*m >= 30) points of other sub-intervals '
                                 f'are mapped to the end cell', key=f'{rid}::{fn.short}::{nm}')
            if isinstance(n, ast.Compare) and len(n.ops) == 1 and isinstance(n.ops[0], (ast.Lt, ast.LtE)):
                l = n.left
                if isinstance(l, ast.Call) and isinstance(l.func, (ast.Name, ast.Attribute)) and \
                        (getattr(l.func, 'id', None) == 'abs' or getattr(l.func, 'attr', None) in ('abs', 'fabs')) \
                        and l.args and _tainted(l.args[0], tainted) and isinstance(l.args[0], ast.BinOp):
                    ctx.fail(rid, fn.short, fn.loc(n), f'{ast.unparse(n)} is a tolerance test on the curve coordinate',
                             key=f'{rid}::{fn.short}::abs-tolerance')
        ctx.ok(rid, fn.short, f'values derived from the curve coordinate ({sorted(tainted)}) reach no tolerance '
                              f'comparison', fn.loc())
    # positive control: the analysis sees the tolerance comparisons the node rule legitimately uses on digits
    ctl = 0
    for fn in (e.opt('fwd', 'array_fn'), e.opt('inv', 'array_fn')):
        if fn is None:
            continue
        for n in ast.walk(fn.node):
            if isinstance(n, ast.Call) and isinstance(n.func, ast.Attribute) and n.func.attr in TOL_CALLS:
                ctl += 1
    ctx.extra_coverage['tolerance_comparisons_on_digits_in_node_rules'] = ctl


def _tainted(x, tainted) -> bool:
    """Does the expression depend on a tainted name other than through int()/floor-like truncation?"""
    if isinstance(x, ast.Name):
        return x.id in tainted
    if isinstance(x, ast.Call):
        nm = x.func.id if isinstance(x.func, ast.Name) else (x.func.attr if isinstance(x.func, ast.Attribute) else '')
        if nm in ('int', 'floor', 'trunc', 'round'):
            return False
        return any(_tainted(a, tainted) for a in x.args)
    return any(_tainted(c, tainted) for c in ast.iter_child_nodes(x) if isinstance(c, ast.expr))


def r07_2_3(ctx: Ctx):
    rid = 'R07.2'
    ctx.rule(rid, 'digit scaffold: per level d <- d*B; digit <- int(d); d <- d - digit, the digit goes to the node '
                  'rule; the end point maps to digit B-1 with zero remainder at every level')
    ctx.rule('R07.3', 'radix: B starts at 1.0 and is doubled once per dimension (B = 2^N)')
    e = evo.evo_of(ctx)
    fn = e.forward
    selfv = var(fn.param_names[0])
    x = var(fn.param_names[1])
    Bf = e.radix_field()
    B = attr(selfv, Bf)
    ex = e.explorer(unroll=2)
    heap = {(key_of(selfv), e.dim_field): RF.const(0)}     # coordinates loops collapse: levels only
    n_levels = 0
    end_lit = Lit.cmp('==', x, RF.const(1))
    for p in C.normal_paths(ex.explore(fn, heap=heap)):
        is_end = C.has_lit(p.guards, end_lit)
        not_end = C.has_lit(p.guards, end_lit.negate())
        node_calls = [ev for ev in p.events if ev.kind == 'call' and e.node_fn in ev.d['callees']]
        d = x
        for k, nc in enumerate(node_calls):
            n_levels += 1
            digit = nc.d['args'][0] if nc.d['args'] else None
            loc = fn.loc(nc.node)
            if is_end:
                ok = isinstance(digit, RF) and digit.equals(B - RF.const(1))
                ctx.check(ok, rid, fn.short, loc, 'end point: digit B-1 at every level',
                          f'end point x = 1 is given digit {C.fmt(digit)} at level {k + 1}; expected B-1 (the last '
                          f'sub-cell)', key=f'{rid}::{fn.short}::end-digit')
                continue
            if not not_end:
                ctx.fail(rid, fn.short, loc, 'a level is processed without deciding whether x is the end point '
                                             '(exact test x == 1 not found on the path)',
                         key=f'{rid}::{fn.short}::end-test', detail={'guards': [repr(l) for l in p.guards]})
                continue
            scaled = d * B
            exp_digit = atomv(('call', 'builtins.int', (key_of(scaled),)))
            ok = isinstance(digit, RF) and key_of(digit) == key_of(exp_digit)
            ctx.check(ok, rid, fn.short, loc, f'level {k + 1}: digit = int(d*B)',
                      f'level {k + 1}: the digit handed to the node rule is {C.fmt(digit)}; expected int(d*B) with '
                      f'd the remainder of the previous level (d = {C.fmt(d)})', key=f'{rid}::{fn.short}::digit')
            d = scaled - exp_digit
        # remainder after the last processed level on not-end paths: d must be the running remainder
        if node_calls and not_end:
            dv = [s for s in p.stores() if s.d['tkind'] == 'name' and s.d['field'] == _remainder_name(fn)
                  and s.depth == 0]
            okd = bool(dv) and isinstance(dv[-1].d['value'], RF) and dv[-1].d['value'].equals(d)
            ctx.check(okd, rid, fn.short, fn.loc(), 'the remainder carried to the next level is d*B - int(d*B)',
                      f'the remainder carried to the next level is {C.fmt(dv[-1].d["value"]) if dv else "?"}; '
                      f'expected {C.fmt(d)}', key=f'{rid}::{fn.short}::remainder')
        if node_calls and is_end:
            dv = [s for s in p.stores() if s.d['tkind'] == 'name' and s.d['field'] == _remainder_name(fn)
                  and s.depth == 0]
            okd = bool(dv) and isinstance(dv[-1].d['value'], RF) and dv[-1].d['value'].const_value() == 0
            ctx.check(okd, rid, fn.short, fn.loc(), 'end point: zero remainder',
                      'the end point leaves a non-zero remainder', key=f'{rid}::{fn.short}::end-remainder')
    ctx.floor(rid, 'levels of the forward descent analysed', n_levels, 6)
    # R07.3 radix
    init = e.cls.methods['__init__']
    # helpers of the class / module the constructor delegates to (a static CountNodes(N)) are looked through
    exi = ctx.explorer(unroll=2, inline=lambda f, st: f.name != '__init__' and
                       (f.cls is e.cls or (f.cls is None and f.module is e.cls.module)))
    vals = {}
    selfk = key_of(var(init.param_names[0]))
    n_loops = set()
    init_paths = C.normal_paths(exi.explore(init))
    # the doubling loop: the loop inside whose trips the radix is stored (other loops over the coordinates - filling
    # per-coordinate coefficient lists, say - do not count)
    radix_loops = set()
    for p in init_paths:
        open_loops = []
        for ev in p.events:
            if ev.kind == 'iter':
                if id(ev.node) not in open_loops:
                    open_loops.append(id(ev.node))
            elif ev.kind == 'loopexit' and id(ev.node) in open_loops:
                open_loops.remove(id(ev.node))
            elif ev.kind == 'store' and ev.d['tkind'] == 'attr' and ev.d['field'] == Bf and open_loops:
                radix_loops.add(open_loops[-1])
    for p in init_paths:
        nval = p.state.heap.get((selfk, e.dim_field))
        nk = key_of(nval) if nval is not None else None

        def over_n(ev) -> bool:
            # a loop over range(N) / range(0, N)
            va = ev.d['var'].single_atom() if isinstance(ev.d.get('var'), RF) else None
            src = va[3] if isinstance(va, tuple) and len(va) == 4 and va[0] == 'iter' else None
            if not (isinstance(src, tuple) and src and src[0] == 'range'):
                return False
            if len(src) == 2:
                return src[1] == nk
            return len(src) == 3 and src[2] == nk and src[1] == key_of(RF.const(0))
        its = [ev for ev in p.events if ev.kind == 'iter' and over_n(ev) and
               (id(ev.node) in radix_loops or not radix_loops)]
        n_loops |= {id(ev.node) for ev in its}
        k = len(its)
        v = p.state.heap.get((selfk, Bf))
        vals[k] = v
    ok = all(isinstance(v, RF) and v.const_value() == 2 ** k for k, v in vals.items()) and len(vals) >= 3
    ctx.check(ok, 'R07.3', init.short, init.loc(), f'after k trips of the constructor loop {Bf} = 2^k (k = 0, 1, 2)',
              f'{Bf} is not doubled once per trip starting from 1: values after 0,1,2 trips are '
              f'{[C.fmt(vals[k]) for k in sorted(vals)]}', key=f'R07.3::{init.short}::doubling')
    okl = len(n_loops) == 1
    ctx.check(okl, 'R07.3', init.short, init.loc(), 'the doubling loop runs N times',
              'the radix is not doubled exactly N = numberOfFloatVariables times', key=f'R07.3::{init.short}::n-trips')
    roles = C.roles_of(ctx)
    init_only = roles.dominated_closure({roles.fq(init)}) | {roles.fq(init) + '@setter'}
    for m in roles.attr_writers(Bf, e.cls):
        if roles.fq(m.func) in init_only:
            continue          # a property setter / helper used by the constructor alone
        ctx.fail('R07.3', m.func.short, m.loc(), f'the radix attribute is rewritten outside the constructor: {m.text()}',
                 key=ctx.key_for('R07.3', m.func, m.node))


def _remainder_name(fn: FuncInfo) -> str:
    """The local that carries the fractional remainder: the one assigned from the query argument."""
    pn = fn.param_names[1]
    for n in fn.node.body:
        if isinstance(n, ast.Assign) and len(n.targets) == 1 and isinstance(n.targets[0], ast.Name) and \
                isinstance(n.value, ast.Name) and n.value.id == pn:
            return n.targets[0].id
        if isinstance(n, ast.AnnAssign) and isinstance(n.target, ast.Name) and isinstance(n.value, ast.Name) and \
                n.value.id == pn:
            return n.target.id
    raise AnalysisError(f'{fn.short}: remainder variable not found')


FLOAT64_NAMES = {'np.double', 'np.float64', 'float', 'numpy.double', 'numpy.float64', 'np.float_', 'numpy.float_'}
COPY_FUNCS = C.VALUE_COPIES | {'numpy.ascontiguousarray', 'numpy.asfarray', 'numpy.asanyarray'}


def r07_8(ctx: Ctx):
    """What the forward query hands out is the affine image itself.  Any numeric post-processing of the returned
    array (rounding to a number of decimals, clipping, a narrower float type) moves images by an absolute amount:
    harmless for boxes of order one, but for a small box neighbouring cells collapse into one image and others are
    never produced."""
    rid = 'R07.8'
    ctx.rule(rid, 'the forward query returns the transformed working array as it is - directly or through value '
                  'copies (np.copy / np.array / .copy() / float64 conversions); no other library call sits between '
                  'the affine map and the caller')
    e = evo.evo_of(ctx)
    gi = e.get_image
    scratch = set(e._scratch_attrs())
    n = 0
    for p in C.normal_paths(e.explorer(unroll=1).explore(gi)):
        n += 1
        v = p.value
        selfk = key_of(var(gi.param_names[0]))
        work = {key_of(x) for (bk, fld), x in p.state.heap.items()
                if bk == selfk and fld in scratch and x is not None}
        for _ in range(8):
            ce = C.call_event_of_result(p, v) if v is not None else None
            if ce is None or any(isinstance(c, FuncInfo) for c in ce.d['callees']):
                break               # not a call result, or the result of a routine of the repository (analysed there)
            operands = list(ce.d['args']) + ([ce.d['recv']] if ce.d.get('recv') is not None else [])
            if not any(key_of(C.through_value_copies(p, o)) in work for o in operands if o is not None):
                break               # an allocation (np.zeros(n) ...), not a function of the working array
            node = ce.node if isinstance(ce.node, ast.Call) else None
            callee = ce.d.get('callee')
            name = ce.d['name']
            dts = []
            if node is not None:
                dts = [ast.unparse(k.value) for k in node.keywords if k.arg == 'dtype']
                other_kw = [k.arg for k in node.keywords if k.arg not in ('dtype', 'copy', 'order')]
            else:
                other_kw = ['?']
            nxt = None
            if isinstance(callee, str) and callee in COPY_FUNCS and ce.d['args'] and not other_kw:
                extra = [ast.unparse(a) for a in node.args[1:]] if node is not None else []
                if all(d in FLOAT64_NAMES for d in dts + extra):
                    nxt = ce.d['args'][0]
            elif name in ('copy', 'view', 'tolist') and not ce.d['args'] and ce.d.get('recv') is not None:
                nxt = ce.d['recv']
            elif name == 'astype' and ce.d.get('recv') is not None and node is not None and \
                    all(ast.unparse(a) in FLOAT64_NAMES for a in node.args) and all(d in FLOAT64_NAMES for d in dts) \
                    and not other_kw:
                nxt = ce.d['recv']
            if nxt is None:
                what = callee if isinstance(callee, str) else f'.{name}()'
                ctx.fail(rid, gi.short, gi.loc(ce.node),
                         f'the image is passed through {what} before it is returned '
                         f'(`{ast.unparse(ce.node)[:70]}`): the returned point is no longer the affine image of the '
                         f'cell centre - an absolute rounding / clipping merges neighbouring cells of a small box '
                         f'into one image and leaves others without any', key=f'{rid}::{gi.short}::{what}')
                break
            v = nxt
        # the same for a result array filled element by element: an element is the working array's element, not a
        # library function of it
        if p.value is not None:
            rk = key_of(p.value)
            for (bk, fld), el in p.state.heap.items():
                if bk != rk or not (isinstance(fld, tuple) and fld and fld[0] == '[]') or not isinstance(el, RF):
                    continue
                ce = C.call_event_of_result(p, el)
                if ce is None or any(isinstance(c, FuncInfo) for c in ce.d['callees']):
                    continue
                callee = ce.d.get('callee')
                if callee in ('builtins.float', 'numpy.double', 'numpy.float64', 'numpy.float_'):
                    continue
                what = callee if isinstance(callee, str) else f'.{ce.d["name"]}()'
                ctx.fail(rid, gi.short, gi.loc(ce.node),
                         f'an element of the returned image is passed through {what} (`{ast.unparse(ce.node)[:70]}`): '
                         f'the returned point is no longer the affine image of the cell centre - an absolute rounding / '
                         f'clipping merges neighbouring cells of a small box into one image and leaves others without '
                         f'any', key=f'{rid}::{gi.short}::element::{what}')
    if not any(x.rule == rid for x in ctx.findings):
        ctx.ok(rid, gi.short, f'{n} returning paths of the forward query: the returned array is the transformed working '
                              f'array or a value copy of it', gi.loc())
    ctx.floor(rid, 'returning paths of the forward query', n, 1)


def r07_6(ctx: Ctx):
    """Integers of N*m bits.  The evolvent stores its dimension and density as the caller passed them - possibly
    fixed-width numpy integers (np.int32 from an array of configurations).  `1 << (N*m)`, `2 ** (N*m)` computed from
    them is evaluated in that width and wraps silently once N*m reaches it: every x then falls into one cell.  Such
    magnitudes must be formed from values normalised with int()."""
    rid = 'R07.6'
    ctx.rule(rid, 'integer width: a shift or integer power whose exponent derives from the stored dimension / density '
                  'operates on int()-normalised values (the stored attributes keep the caller\'s integer type)')
    e = evo.evo_of(ctx)
    init = e.cls.methods['__init__']
    raw = set()
    normalised = set()
    try:
        ipaths = C.normal_paths(e.explorer(unroll=1).explore(init))
    except AnalysisError:
        ipaths = C.normal_paths(ctx.explorer().explore(init))
    for p in ipaths:
        for (bk, fld), v in p.state.heap.items():
            a = v.single_atom() if isinstance(v, RF) else None
            if bk == ('var', init.param_names[0]) and isinstance(fld, str) and isinstance(v, RF):
                ce = C.call_event_of_result(p, v)
                if ce is not None and ce.d.get('callee') in ('builtins.int', 'operator.index') and ce.d['args'] and \
                        isinstance(ce.d['args'][0], RF) and isinstance(ce.d['args'][0].single_atom(), tuple) and \
                        ce.d['args'][0].single_atom()[0] == 'var':
                    normalised.add(fld)         # stored as a plain int whatever integer type the caller passed
            if bk == ('var', init.param_names[0]) and isinstance(fld, str) and isinstance(a, tuple) and \
                    len(a) == 2 and a[0] == 'var' and a[1] in init.param_names:
                prm = [q for q in init.params if q.arg == a[1]]
                ann = ast.unparse(prm[0].annotation) if prm and prm[0].annotation is not None else ''
                if ann in ('int', '', 'np.int32', 'np.int64'):
                    raw.add(fld)
    try:
        dens = {e.density_field()} & raw
    except AnalysisError:
        dens = set(raw)
    # only exponents that grow with the number of levels can reach the width (N alone stays below 8)
    all_raw, raw = raw, (dens or raw)
    funcs = [f for f in e.cls.methods.values() if f.kind == 'function'] + \
        [f for f in ctx.ix.funcs.values() if f.kind == 'function' and f.cls is None and f.module is e.cls.module]
    n = 0
    for f in funcs:
        selfn = f.param_names[0] if f.param_names and f.cls is not None else None

        def mentions_raw(x, tainted, attrs=None, through_int=False) -> bool:
            # an occurrence outside an int(...) call
            attrs = raw if attrs is None else attrs
            if not through_int and isinstance(x, ast.Call) and isinstance(x.func, ast.Name) and x.func.id == 'int':
                return False
            if isinstance(x, ast.Attribute) and isinstance(x.value, ast.Name) and x.value.id == selfn and \
                    x.attr in attrs:
                return True
            if isinstance(x, ast.Name) and x.id in tainted:
                return True
            return any(mentions_raw(ch, tainted, attrs, through_int) for ch in ast.iter_child_nodes(x))

        def taint_of(attrs, through_int=False):
            out = set()
            for _ in range(4):
                for st in ast.walk(f.node):
                    if isinstance(st, ast.Assign) and mentions_raw(st.value, out, attrs, through_int):
                        for t in st.targets:
                            for nm in ast.walk(t):
                                if isinstance(nm, ast.Name) and isinstance(nm.ctx, ast.Store):
                                    out.add(nm.id)
            return out
        tainted = taint_of(raw)
        dim_attrs = {'numberOfFloatVariables', e.dim_field}
        dim_names = taint_of(dim_attrs, through_int=True)
        for x in ast.walk(f.node):
            base = expo = None
            if isinstance(x, ast.BinOp) and isinstance(x.op, (ast.LShift, ast.Pow)):
                base, expo = x.left, x.right
            elif isinstance(x, ast.Call) and isinstance(x.func, ast.Name) and x.func.id == 'pow' and len(x.args) == 2:
                base, expo = x.args
            if base is None:
                continue
            int_base = (isinstance(base, ast.Constant) and isinstance(base.value, int) and
                        not isinstance(base.value, bool)) or mentions_raw(base, tainted)
            if not int_base:
                continue
            if not mentions_raw(expo, dim_names, dim_attrs, True):
                continue      # grows with the levels of one axis only: at most 50 / N bits, below every integer width
            n += 1
            ctx.check(not mentions_raw(expo, tainted), rid, f.short, f.loc(x),
                      f'{ast.unparse(x)[:40]}: the exponent is a normalised int',
                      f'{ast.unparse(x)[:60]} is computed from the stored dimension / density, which keep the integer '
                      f'type the caller passed: with a 32-bit numpy integer the result wraps once the exponent '
                      f'reaches 31 and every coordinate falls into one cell (normalise with int() first)',
                      key=ctx.key_for(rid, f, x))
    ctx.ok(rid, e.cls.name, f'{n} integer shifts / powers over the stored dimension or density; attributes stored '
                            f'verbatim: {sorted(all_raw)}', e.cls.module.relpath)
    normalised -= all_raw
    if normalised:
        ctx.ok(rid, e.cls.name, f'attributes normalised to int by the constructor: {sorted(normalised)}',
               e.cls.module.relpath)
    ctx.floor(rid, 'attributes the evolvent stores from integer parameters (verbatim or int()-normalised)',
              len(all_raw) + len(normalised), 1)


def check(ctx: Ctx):
    if C.want(ctx, 'R07.7'):
        evo.rule_no_shared_state(ctx, 'R07.7')
    if C.want(ctx, 'R07.6'):
        r07_6(ctx)
    if C.want(ctx, 'R07.8'):
        r07_8(ctx)
    if C.want(ctx, 'R07.1'):
        r07_1(ctx)
    if C.want(ctx, 'R07.2') or C.want(ctx, 'R07.3'):
        r07_2_3(ctx)
    if C.want(ctx, 'R07.5'):
        ctx.rule('R07.5', 'the image is a function of x and the configuration alone: on every path of GetImage no '
                          'attribute written by queries is read before it is re-established (= R17.3 for the forward '
                          'query), re-run here')
        from . import c17
        c17.r17_3(ctx, only={'GetImage'})
    if C.want(ctx, 'R07.4'):
        ctx.rule('R07.4', 'every image lies inside the box: cube bound (R05.2) and affine map (R05.3), re-run here')
        evo.rule_cube_bound(ctx, 'R07.4')
        evo.rule_affine(ctx, 'R07.4', which=('P2D',))
        evo.rule_bounds_binding(ctx, 'R07.4')
    ctx.assume('NOT DECIDED: __CalculateNode enumerates each of the 2^N sub-cells exactly once per orientation state')
    ctx.note('C08 (not claimed): the nesting half of C08 follows from R05.2/R07.2 - the level body reads neither the '
             'level count nor the level index and the tail of the accumulation is bounded by the cell half-width.')
