"""Shared helpers for the property rules."""
from __future__ import annotations

import ast
from fractions import Fraction
from typing import Dict, Iterable, List, Optional, Set, Tuple

from ..algebra import FALSE, INF, NONE, RF, TRUE, Lit, fmt_key, p_is_const
from ..index import AnalysisError, ClassInfo, FuncInfo, norm_stmt
from ..paths import CompVal, Event, Explorer, Path, TupleVal, atomv, key_of
from ..report import Ctx
from ..roles import RoleMissing, Roles


def _install_glue(roles: Roles):
    at_level.glue = roles.is_glue


def roles_of(ctx: Ctx) -> Roles:
    r = getattr(ctx, '_roles', None)
    if r is None:
        r = Roles(ctx.ix, ctx.pta)
        ctx._roles = r
        ctx.analysed['roles'] = r.binding_table()
        _install_glue(r)
    return r


def want(ctx: Ctx, rid: str) -> bool:
    return ctx.only_rule is None or ctx.only_rule == rid or rid.startswith(ctx.only_rule + '.')


def var(name: str) -> RF:
    return atomv(('var', name))


def attr(base: RF, fld: str, ver: int = 0) -> RF:
    return atomv(('attr', key_of(base), fld, ver))


def sub(base: RF, idx: RF, ver: int = 0) -> RF:
    return atomv(('sub', key_of(base), key_of(idx), ver))


# ----------------------------------------------------------------------------
# deep substitution inside atom keys
# ----------------------------------------------------------------------------
def subst_key(k, mapping: Dict[object, object]):
    """mapping: atom key -> replacement key (atom key or rf key)."""
    if k in mapping:
        return mapping[k]
    if isinstance(k, tuple):
        if k and k[0] == 'rf':
            # nested normal forms keep the ('rf', ...) shape the algebra gives them (rf_pow, rf_minmax ... store
            # RF.key(), never the bare atom): otherwise equal values compare unequal after a substitution
            rf = rf_from_key(k)
            return subst_rf(rf, mapping).key()
        return tuple(subst_key(x, mapping) for x in k)
    if isinstance(k, frozenset):
        return frozenset(subst_key(x, mapping) for x in k)
    return k


def rf_from_key(k) -> RF:
    if isinstance(k, tuple) and k and k[0] == 'rf':
        return RF({m: Fraction(c) for m, c in k[1]}, {m: Fraction(c) for m, c in k[2]})
    return RF.atom(k)


def subst_rf(rf: RF, mapping: Dict[object, object]) -> RF:
    def poly(p) -> RF:
        tot = RF.const(0)
        for m, c in p.items():
            t = RF.const(c)
            for a, e in m:
                na = subst_key(a, mapping)
                t = t * rf_from_key(na).ipow(e)
            tot = tot + t
        return tot
    return poly(rf.num) / poly(rf.den)


def subst_val(v, mapping):
    if isinstance(v, RF):
        return subst_rf(v, mapping)
    if isinstance(v, TupleVal):
        return TupleVal([subst_val(x, mapping) for x in v.items], v.kind)
    if isinstance(v, CompVal):
        return CompVal(subst_val(v.elt, mapping), subst_val(v.iter, mapping), v.line)
    return v


def subst_lit(l: Lit, mapping) -> Lit:
    if l.kind == 'cmp':
        return Lit('cmp', op=l.op, rf=subst_rf(l.rf, mapping))
    return Lit(l.kind, key=subst_key(l.key, mapping), pol=l.pol, text=l.text)


def mentions(v, atom_key) -> bool:
    """Does the (nested) key of v mention atom_key?"""
    def walk(k) -> bool:
        if k == atom_key:
            return True
        if isinstance(k, (tuple, frozenset)):
            return any(walk(x) for x in k)
        return False
    return walk(key_of(v)) if not isinstance(v, tuple) else walk(v)


def atoms_deep(v) -> Set[object]:
    out: Set[object] = set()

    def walk(k):
        if isinstance(k, tuple):
            if k and isinstance(k[0], str) and k[0] not in ('rf',):
                out.add(k)
            for x in k:
                walk(x)
        elif isinstance(k, frozenset):
            for x in k:
                walk(x)
    walk(key_of(v))
    return out


# ----------------------------------------------------------------------------
# sign reasoning about one difference d (value numbering of order guards)
# ----------------------------------------------------------------------------
def sign_set(lits: Iterable[Lit], d: RF) -> Set[str]:
    """Which signs of d are compatible with the literals that talk about +-d: subset of {neg, zero, pos}."""
    signs = {'neg', 'zero', 'pos'}
    for l in lits:
        if l.kind != 'cmp':
            continue
        if l.rf.equals(d):
            allowed = {'<': {'neg'}, '<=': {'neg', 'zero'}, '==': {'zero'}, '!=': {'neg', 'pos'}}[l.op]
        elif l.rf.equals(-d):
            allowed = {'<': {'pos'}, '<=': {'pos', 'zero'}, '==': {'zero'}, '!=': {'neg', 'pos'}}[l.op]
        else:
            continue
        signs &= allowed
    return signs


def has_lit(lits: Iterable[Lit], want_: Lit) -> bool:
    return any(l.same(want_) for l in lits)


def lit_equiv_pos(a: Lit, b: Lit, positive: Set[object]) -> bool:
    """a and b are the same comparison up to multiplication by monomials of atoms known to be positive."""
    if a.kind != 'cmp' or b.kind != 'cmp' or a.op != b.op:
        return a.same(b)
    if a.rf.equals(b.rf):
        return True

    def posmono(p) -> bool:
        if len(p) != 1:
            return False
        (m, c), = p.items()
        return c > 0 and all(k in positive for k, _ in m)
    if posmono(a.rf.den) and posmono(b.rf.den):
        na, nb = RF(dict(a.rf.num)), RF(dict(b.rf.num))
        q = na / nb if not nb.is_zero() else None
        if q is not None:
            c = q.const_value()
            if c is not None and c > 0:
                return True
            if posmono(q.num) and posmono(q.den):
                return True
    return False


# ----------------------------------------------------------------------------
# small queries on paths
# ----------------------------------------------------------------------------
def normal_paths(paths: List[Path]) -> List[Path]:
    return [p for p in paths if p.outcome != 'raise']


def stores_to(p: Path, base: Optional[RF] = None, field: Optional[str] = None, tkind: Optional[str] = None,
              depth: Optional[int] = None) -> List[Event]:
    out = []
    for e in p.events:
        if e.kind != 'store':
            continue
        if tkind is not None and e.d['tkind'] != tkind:
            continue
        if depth is not None and e.depth != depth:
            continue
        if field is not None and e.d['field'] != field:
            continue
        if base is not None and (e.d['base'] is None or key_of(e.d['base']) != key_of(base)):
            continue
        out.append(e)
    return out


def call_events(p: Path, callee: Optional[FuncInfo] = None, name: Optional[str] = None,
                among: Optional[Iterable[FuncInfo]] = None) -> List[Event]:
    out = []
    amq = {f.qualname for f in among} if among is not None else None
    for e in p.events:
        if e.kind != 'call':
            continue
        if callee is not None and not any(isinstance(c, FuncInfo) and c.qualname == callee.qualname
                                          for c in e.d['callees']):
            continue
        if name is not None and e.d['name'] != name:
            continue
        if amq is not None and not any(isinstance(c, FuncInfo) and c.qualname in amq for c in e.d['callees']):
            continue
        out.append(e)
    return out


def new_events(p: Path, cls_name: Optional[str] = None) -> List[Event]:
    return [e for e in p.events if e.kind == 'new' and (cls_name is None or e.d['cls'].name == cls_name)]


def new_event_of(p: Path, obj) -> Optional[Event]:
    k = key_of(obj)
    for e in p.events:
        if e.kind == 'new' and key_of(e.d['result']) == k:
            return e
    return None


def call_event_of_result(p: Path, val) -> Optional[Event]:
    k = key_of(val)
    for e in p.events:
        if e.kind == 'call' and e.d.get('result') is not None and key_of(e.d['result']) == k:
            return e
    return None


VALUE_COPIES = {'numpy.copy', 'copy.copy', 'copy.deepcopy', 'numpy.array', 'numpy.asarray'}


def through_value_copies(p: Path, val, depth: int = 0):
    """val, or what it is an unconverted copy of (np.copy(a), copy.deepcopy(a), np.array(a) without dtype...):
    equal element by element to the original."""
    if depth > 4 or val is None:
        return val
    ce = call_event_of_result(p, val)
    if ce is not None and ce.d.get('callee') in VALUE_COPIES and len(ce.d['args']) == 1 and \
            not (set(ce.d.get('kwargs') or ()) - {'copy', 'order'}):
        return through_value_copies(p, ce.d['args'][0], depth + 1)
    if ce is not None and ce.d['name'] == 'copy' and not ce.d['args'] and not ce.d.get('kwargs') and \
            ce.d.get('recv') is not None and not ce.d['callees'] - {c for c in ce.d['callees'] if isinstance(c, str)}:
        return through_value_copies(p, ce.d['recv'], depth + 1)        # a.copy()
    return val


def resolve_new_fields(ctx, p: Path, val):
    """Rewrite reads of attributes of objects constructed on this path into the constructor argument they hold
    (task = OptimizationTask(problem); task.problem is problem) - for attributes the constructor stores verbatim and
    nobody else writes.  Works on version-stripped keys; returns a stripped value."""
    if not isinstance(val, RF):
        return val
    mapping = {}
    roles = roles_of(ctx)
    for ne in new_events(p):
        cls = ne.d['cls']
        init = cls.lookup('__init__')
        if init is None or ne.d.get('result') is None:
            continue
        ps = normal_paths(ctx.explorer().explore(init))
        if not ps:
            continue
        selfk = ('var', init.param_names[0])
        bound = dict(zip(init.param_names[1:], ne.d['args']))
        bound.update(ne.d['kwargs'])
        rk = strip_versions(key_of(ne.d['result']))
        for (bk, fld), v in ps[0].state.heap.items():
            if bk != selfk or not isinstance(v, RF) or not isinstance(fld, str):
                continue
            if any(key_of(q.state.heap.get((bk, fld))) != key_of(v) for q in ps[1:]):
                continue            # not the same on every path of the constructor
            a = v.single_atom()
            if isinstance(a, tuple) and len(a) == 2 and a[0] == 'var' and a[1] in bound and \
                    isinstance(bound[a[1]], RF) and not [m for m in roles.attr_writers(fld, cls)]:
                mapping[('attr', rk, fld)] = strip_versions(key_of(bound[a[1]]))
    out = strip_rf(val)
    for _ in range(3):
        if not mapping:
            break
        out = subst_rf(out, mapping)
    return out


def pop_event_of(p: Path, value, names=('popfirst',)) -> Optional[Event]:
    """The queue pop whose entry `value` is: the call result itself, or the entry re-packed component by component
    ((e[0], e[1]) / a NamedTuple built from them)."""
    ce = call_event_of_result(p, value)
    if ce is not None and ce.d['name'] in names:
        return ce
    if isinstance(value, TupleVal) and len(value.items) == 2:
        for ev in p.events:
            if ev.kind == 'call' and ev.d['name'] in names and ev.d.get('result') is not None:
                rk = key_of(ev.d['result'])
                want = [('sub', rk, RF.const(i).key()) for i in (0, 1)]
                got = [strip_versions(key_of(x)) for x in value.items]
                if got == [strip_versions(w + (0,)) for w in want]:
                    return ev
    return None


COPY_CALL_NAMES = {'deepcopy', 'copy', 'array', 'asarray', 'asfarray', 'ascontiguousarray'}


_LEN_FIRST_ARG = {'copy', 'asarray', 'array', 'ascontiguousarray', 'asfarray', 'cumsum', 'cumprod', 'abs', 'absolute',
                  'sqrt', 'exp', 'exp2', 'log', 'log2', 'negative', 'flip', 'sort', 'outer', 'double', 'float64',
                  'reciprocal', 'square', 'ravel', 'flatten', 'astype', 'tolist', 'list', 'tuple'}
_LEN_ANY_ARG = {'ldexp', 'power', 'float_power', 'multiply', 'add', 'subtract', 'divide', 'true_divide', 'maximum',
                'minimum'}


def length_of_key(k) -> Optional[RF]:
    """Number of elements along the first axis of the array / sequence a symbolic key stands for, as far as the
    numpy constructors and element-wise operations used to build it determine it."""
    if not isinstance(k, tuple) or not k:
        return None
    t = k[0]
    if t == 'rf':
        return length_of(rf_from_key(k))
    if t == 'range':
        if len(k) == 2:
            return rf_from_key(k[1])
        if len(k) == 3:
            return rf_from_key(k[2]) - rf_from_key(k[1])
        return None
    if t == 'tuple' and len(k) == 2 and isinstance(k[1], tuple):
        return RF.const(len(k[1]))
    if t == 'display' and len(k) == 3 and isinstance(k[2], int):
        return RF.const(k[2])
    if t == 'pow' and len(k) == 3:
        return length_of_key(k[2]) or length_of_key(k[1])
    if t == 'comp' and len(k) == 3:
        return length_of_key(k[2])
    if t == 'call' and len(k) >= 3 and isinstance(k[1], str) and isinstance(k[2], tuple):
        name, args = k[1].split('.')[-1], k[2]
        if name == 'arange':
            if len(args) == 1:
                return rf_from_key(args[0])
            if len(args) == 2:
                return rf_from_key(args[1]) - rf_from_key(args[0])
            return None
        if name in ('zeros', 'ones', 'empty', 'full', 'ndarray') and args:
            a0 = args[0]
            if isinstance(a0, tuple) and a0 and a0[0] == 'tuple':
                return rf_from_key(a0[1][0]) if a0[1] else None
            return rf_from_key(a0)
        if name == 'linspace' and len(args) >= 3:
            return rf_from_key(args[2])
        if name in ('zeros_like', 'ones_like', 'empty_like', 'full_like') and args:
            return length_of_key(args[0])
        if name in _LEN_FIRST_ARG and args:
            return length_of_key(args[0])
        if name in _LEN_ANY_ARG:
            for a in args:
                ln = length_of_key(a)
                if ln is not None:
                    return ln
    return None


def length_of(v) -> Optional[RF]:
    if v is None:
        return None
    if isinstance(v, TupleVal):
        return RF.const(len(v.items))
    if isinstance(v, CompVal):
        return length_of(v.iter) if not isinstance(v.iter, RF) else length_of_key(key_of(v.iter))
    if isinstance(v, RF):
        a = v.single_atom()
        if a is not None:
            return length_of_key(a)
        # element-wise arithmetic of scalars and arrays: the arrays involved share their length
        lens = []
        for at in v.atoms():
            ln = length_of_key(at)
            if ln is not None and not any(ln.equals(x) for x in lens):
                lens.append(ln)
        return lens[0] if len(lens) == 1 else None
    return None


def refuse_peeled_loop(rid: str, drv: FuncInfo):
    """The iteration driver with its first trip peeled off the loop (its = range(number); if first and its: its =
    its[1:]; <first iteration>; for _ in its: ...) performs `number` iterations like the plain loop, but the argument
    needs arithmetic on lengths of sliced ranges that the trip rules do not do: undecided for this form, never a
    violation."""
    names = {}
    for n in ast.walk(drv.node):
        if isinstance(n, ast.Assign) and len(n.targets) == 1 and isinstance(n.targets[0], ast.Name):
            names.setdefault(n.targets[0].id, []).append(n.value)
    for lp in ast.walk(drv.node):
        if isinstance(lp, ast.For) and isinstance(lp.iter, ast.Name) and lp.iter.id in names:
            vs = names[lp.iter.id]
            from_range = any(isinstance(v, ast.Call) and isinstance(v.func, ast.Name) and v.func.id == 'range' for v in vs)
            sliced = any(isinstance(v, ast.Subscript) and isinstance(v.value, ast.Name) and v.value.id == lp.iter.id
                         and isinstance(v.slice, ast.Slice) for v in vs)
            if from_range and sliced:
                raise AnalysisError(f'{rid}: {drv.short} iterates over a sliced range ({lp.iter.id}): the first trip '
                                    f'is peeled off the loop; the trip count is not decided for this form')


def refuse_comprehension_loop(ctx, rid: str, drv: FuncInfo):
    """The iteration loop written as a comprehension ([self._one_iteration() for _ in range(number)]) performs the
    same trips, but the trip rules read loops as statements with events per trip: undecided for this form."""
    roles = roles_of(ctx)
    try:
        er = roles.eval_routine
    except Exception:
        return
    erq = roles.fq(er)
    for n in ast.walk(drv.node):
        if isinstance(n, (ast.ListComp, ast.GeneratorExp, ast.SetComp, ast.DictComp)):
            for c in ast.walk(n):
                if isinstance(c, ast.Call):
                    for g in ctx.pta.internal_callees(drv, c):
                        if roles.fq(g) == erq or erq in roles.reach(g):
                            raise AnalysisError(f'{rid}: {drv.short} performs its iterations inside a comprehension '
                                                f'(line {n.lineno}); the trip rules are not decided for this form')


def is_diagnostic_call(ctx, f: FuncInfo, call: ast.Call) -> bool:
    """A logging call (method of a logging.Logger / function of the logging module) or print: writes outside the
    program state, keeps none of its arguments."""
    if ctx.pta.internal_callees(f, call):
        return False
    if (ctx.pta._fq(f), id(call)) in ctx.pta.diag_calls:
        return True
    return ctx.pta.ext_callees(f, call) == {'builtins.print'}


def image_call_of(p: Path, v, gi: FuncInfo, depth: int = 0) -> Optional[Event]:
    """The Evolvent.GetImage call whose result v is - directly or through value-preserving copies
    (copy.deepcopy / copy.copy / np.copy / np.array / np.asarray)."""
    ce = call_event_of_result(p, v) if v is not None else None
    if ce is None or depth > 3:
        return None
    if any(isinstance(c, FuncInfo) and c.qualname == gi.qualname for c in ce.d['callees']):
        return ce
    if ce.d['name'] in COPY_CALL_NAMES and ce.d['args']:
        return image_call_of(p, ce.d['args'][0], gi, depth + 1)
    return None


def getter_value(ex: Explorer, getter: FuncInfo, base: RF) -> RF:
    """Symbolic value returned by a one-path getter applied to base."""
    ps = normal_paths(ex.explore(getter, {getter.param_names[0]: base}))
    if len(ps) != 1 or not isinstance(ps[0].value, RF):
        raise AnalysisError(f'{getter.short} is not a single-path getter')
    return ps[0].value


def init_equalities(ctx: Ctx, cls: ClassInfo, scope: Optional[Set[str]] = None) -> Dict[object, object]:
    """Attribute definitions fixed in __init__: atom key attr(self,f) -> key of its defining expression over
    other self attributes.  Only for attributes never written outside the constructor."""
    cache = getattr(ctx, '_init_eq', None)
    if cache is None:
        cache = ctx._init_eq = {}
    ck = (cls.qualname, None if scope is None else len(scope))
    if ck in cache:
        return cache[ck]
    init = cls.lookup('__init__')
    out: Dict[object, object] = {}
    if init is None:
        cache[ck] = out
        return out
    roles = roles_of(ctx)
    ex = ctx.explorer()
    ps = normal_paths(ex.explore(init))
    if len(ps) != 1:
        cache[ck] = out
        return out
    selfk = ('var', init.param_names[0])
    heap = ps[0].state.heap
    # parameters stored verbatim: var(p) -> attr(self, f)
    pmap: Dict[object, object] = {}
    for (bk, fld), v in heap.items():
        if bk == selfk and isinstance(v, RF):
            a = v.single_atom()
            if isinstance(a, tuple) and a and a[0] == 'var' and a[1] != selfk[1]:
                pmap[a] = ('attr', selfk, fld, 0)
            elif isinstance(a, tuple) and a and a[0] == 'call':
                pmap.setdefault(a, ('attr', selfk, fld, 0))      # self.f = np.copy(param): the copy *is* self.f
    written_elsewhere = set()
    # routines that run only as part of the construction (a property setter used by the constructor alone)
    init_only = roles.dominated_closure({roles.fq(init)}) | {roles.fq(init) + '@setter'}
    lazy = set()
    try:
        from . import caches
        lazy = set(caches.lazy_caches(ctx, cls))
    except AnalysisError:
        pass
    for m in roles.mutations():
        if m.kind in ('attr', 'aug') and not m.init_self and isinstance(m.field, str):
            if scope is not None and roles.fq(m.func) not in scope:
                continue        # a writer the callers of interest can never reach
            if roles.fq(m.func) in init_only or m.field in lazy:
                continue        # part of the construction / a lazily cached derived attribute (rules/caches.py)
            if any(o.cls is not None and o.cls.is_subclass_of(cls) for o in m.bases):
                written_elsewhere.add(m.field)
    for (bk, fld), v in heap.items():
        if bk != selfk or fld in written_elsewhere or not isinstance(v, RF):
            continue
        a = v.single_atom()
        if isinstance(a, tuple) and a and a[0] in ('var', 'call'):
            continue
        nv = subst_rf(v, pmap)
        # only pure attribute chains / constants are worth propagating, and only if nothing the definition
        # mentions can be rewritten after construction (a cached value would be stale otherwise)
        def stable(x) -> bool:
            if not (isinstance(x, tuple) and x):
                return True
            if x[0] == 'attr' and x[1] == selfk and x[2] in written_elsewhere:
                return False
            return all(stable(y) for y in x if isinstance(y, tuple))
        if all(isinstance(x, tuple) and x and x[0] in ('attr', 'var', 'const') for x in nv.atoms()) and \
                all(stable(x) for x in nv.atoms()):
            out[('attr', selfk, fld, 0)] = key_of(nv)
    cache[ck] = out
    return out


def norm_self(ctx: Ctx, f: FuncInfo, v):
    """Rewrite self attributes fixed in the constructor to their definitions."""
    if f.cls is None:
        return v
    eq = init_equalities(ctx, f.cls)
    if not eq:
        return v
    return subst_val(v, eq)


def describe_path(p: Path, n: int = 60) -> List[str]:
    return p.describe(n)


def fmt(v) -> str:
    return repr(v)


def strip_versions(k):
    """Structure of an access path without the havoc version counters."""
    if isinstance(k, tuple):
        if k and k[0] in ('attr', 'sub') and len(k) == 4:
            return (k[0], strip_versions(k[1]), strip_versions(k[2]))
        return tuple(strip_versions(x) for x in k)
    if isinstance(k, frozenset):
        return frozenset(strip_versions(x) for x in k)
    return k


def same_mod_ver(a, b) -> bool:
    return strip_versions(key_of(a)) == strip_versions(key_of(b))


def result_of(p: Path, call_ev: Event):
    """Value produced by a call event (for inlined calls: the value of the matching exit event)."""
    if not call_ev.d.get('inlined'):
        return call_ev.d.get('result')
    seen = False
    for e in p.events:
        if e is call_ev:
            seen = True
            continue
        if seen and e.kind == 'exit' and e.node is call_ev.node and e.depth == call_ev.depth and \
                e.d.get('callee') is call_ev.d.get('callee'):
            return e.d.get('value')
    return None


def lits_mod_ver(lits):
    out = []
    for l in lits:
        if l.kind == 'cmp':
            out.append(Lit('cmp', op=l.op, rf=rf_from_key(strip_versions(key_of(l.rf)))
                           if l.rf.single_atom() is not None else strip_rf(l.rf)))
        else:
            out.append(Lit(l.kind, key=strip_versions(l.key), pol=l.pol, text=l.text))
    return out


def strip_rf(rf: RF) -> RF:
    def poly(p) -> RF:
        tot = RF.const(0)
        for m, c in p.items():
            t = RF.const(c)
            for a, e in m:
                t = t * RF.atom(strip_versions(a)).ipow(e)
            tot = tot + t
        return tot
    return poly(rf.num) / poly(rf.den)


def fmt_key_safe(k) -> str:
    try:
        return fmt_key(k)
    except Exception:
        return str(k)


def arg(ev: Event, index: int, name: Optional[str] = None):
    """Argument of a call / new event by position or, failing that, by keyword (parameter names are taken from
    the callee when it is known)."""
    a = ev.d.get('args') or []
    if index < len(a):
        return a[index]
    kw = ev.d.get('kwargs') or {}
    names = []
    if ev.kind == 'new':
        init = ev.d['cls'].lookup('__init__')
        if init is not None:
            names = init.param_names[1:]
    else:
        c = ev.d.get('callee')
        if isinstance(c, FuncInfo):
            names = c.param_names[1:] if (c.cls is not None and not c.is_static) else c.param_names
        else:
            for c2 in ev.d.get('callees', ()):
                if isinstance(c2, FuncInfo):
                    names = c2.param_names[1:] if (c2.cls is not None and not c2.is_static) else c2.param_names
                    break
    if index < len(names) and names[index] in kw:
        return kw[names[index]]
    if name is not None and name in kw:
        return kw[name]
    return None


def at_level(e: Event, fn: FuncInfo) -> bool:
    """The event happens in fn itself or in a private helper extracted from it (same class / module)."""
    if e.func is fn:
        return True
    g = e.func
    try:
        from ..report import Ctx as _Ctx       # noqa: F401
    except Exception:
        pass
    glue = getattr(at_level, 'glue', None)
    if glue is not None and glue(g):
        return True
    if not g.name.startswith('_') or (g.name.startswith('__') and g.name.endswith('__')):
        return False
    if g.cls is None or fn.cls is None:
        return g.cls is None and fn.cls is None and g.module is fn.module
    return g.cls.is_subclass_of(fn.cls) or fn.cls.is_subclass_of(g.cls)
