"""C02 - every trial is placed by the AGP decision rule (DESIGN.md section 3, C02)."""
from __future__ import annotations

import ast
import os
from fractions import Fraction

from ..algebra import INF, NONE, RF, TRUE, FALSE, Lit, rf_abs, rf_inf, rf_minmax, rf_pow
from ..index import AnalysisError, FuncInfo
from ..paths import CompVal, TupleVal, atomv, key_of
from ..report import Ctx
from ..roles import RoleMissing
from . import common as C
from .common import attr, sub, var

LEVEL_TEXT = ('Static decision of the structural necessary conditions of the AGP decision rule: per-path '
              'normal forms of the characteristic, the Hoelder estimate and the new point are compared with the '
              'formulas of the property statement; the recalculation protocol, arg-max wiring and freshness '
              'ordering are decided on event traces of the anchored functions; every writer of M / z* raises the '
              'recalculation flag; recorded trial values are immutable after the evaluation routine; no routine on any entry point lowers or '
              'resets the Hoelder estimate; only the selection routine requests (pops) the best interval; the Hoelder length of every stored interval is '
              '(x_r - x_l)^(1/N) with N the number of float variables, the dimension of the evolvent.')
EXPLANATION = ('For every syntactic path (loops unrolled <= 2, trivial accessors inlined) of the routines that '
               'compute the characteristic, the estimate M, the new point, the seed, the full recomputation, the '
               'selection and the renewal, the stored/returned value is normalised to a rational function over '
               'opaque atoms and compared (by cross-multiplication) with the formula the property states for the '
               'guard class of that path; orderings are decided on the per-path event sequence. Holds for all '
               'inputs and histories because no input value is consulted. Not decided: floating-point ties.')
TRUSTED = ['CPython ast', 'iva engine (index, points-to, path summaries, algebra)',
           'depq.DEPQ documented contract (insert(item, priority); popfirst() = highest priority)']


def _role(ctx: Ctx, rid: str, getter, name: str):
    try:
        return getter()
    except RoleMissing as e:
        ctx.fail(rid, f'role {name}', 'iOpt/', str(e), key=f'{rid}::role::{name}')
        return None


class Env:
    """Atoms bound by role for the (curr, left) two-parameter routines."""

    def __init__(self, ctx: Ctx, fn: FuncInfo):
        self.ctx, self.fn = ctx, fn
        roles = C.roles_of(ctx)
        self.roles = roles
        item = ctx.ix.cls('SearchDataItem')
        ex = ctx.explorer()
        ps = fn.param_names
        self.self_ = var(ps[0])
        self.p0 = var(ps[1])
        self.p1 = var(ps[2]) if len(ps) > 2 else None
        g = lambda n, b: C.getter_value(ex, item.lookup(n), b)
        self.getZ, self.getX, self.getI, self.getL = (lambda b: g('GetZ', b)), (lambda b: g('GetX', b)), \
            (lambda b: g('GetIndex', b)), (lambda b: g('GetLeft', b))
        self.zr = self.getZ(self.p0)
        self.ic = self.getI(self.p0)
        if self.p1 is not None:
            self.zl = self.getZ(self.p1)
            self.il = self.getI(self.p1)
        self.D = attr(self.p0, 'delta')
        self.r = attr(attr(self.self_, 'parameters'), 'r')
        self.Mf, self.Zf = m_field(ctx), z_field(ctx)

    def M(self, v: RF) -> RF:
        return sub(attr(self.self_, self.Mf), v)

    def Z(self, v: RF) -> RF:
        return sub(attr(self.self_, self.Zf), v)


def m_field(ctx: Ctx) -> str:
    roles = C.roles_of(ctx)
    ew = roles.estimate_writer
    mine = set(roles.helpers_of(ew))
    fs = {m.base_expr.attr for m in roles.sub_writers(roles.method_cls, 'M') if m.func in mine}
    return next(iter(fs)) if fs else 'M'


def z_field(ctx: Ctx) -> str:
    """The per-index best-value table: the Method attribute subscript-stored by the optimum updater."""
    roles = C.roles_of(ctx)
    up = roles.optimum_updater
    fs = set()
    mine = set(roles.helpers_of(up))
    for m in roles.mutations():
        if m.func in mine and m.kind in ('sub', 'aug') and isinstance(m.base_expr, ast.Attribute) and \
                isinstance(m.base_expr.value, ast.Name) and m.func.param_names and \
                m.base_expr.value.id == m.func.param_names[0]:
            fs.add(m.base_expr.attr)
    if len(fs) != 1:
        raise AnalysisError(f'cannot identify the best-value table written by {up.short}: {sorted(fs)}')
    return next(iter(fs))


# ----------------------------------------------------------------------------
def r02_2(ctx: Ctx):
    rid = 'R02.2'
    ctx.rule(rid, 'characteristic: per path, guard class and stored .globalR equal the formula of that case; '
                  'no other writer of .globalR')
    roles = C.roles_of(ctx)
    cw = _role(ctx, rid, lambda: roles.characteristic_writer, 'characteristic writer')
    if cw is None:
        return
    e = Env(ctx, cw)
    ex = ctx.explorer()
    paths = C.normal_paths(ex.explore(cw))
    two = RF.const(2)
    four = RF.const(4)

    def expected(sign: str) -> RF:
        if sign == 'zero':
            v = e.ic
            rM = e.r * e.M(v)
            return e.D + (e.zr - e.zl) * (e.zr - e.zl) / (rM * rM * e.D) - two * (e.zr + e.zl - two * e.Z(v)) / rM
        if sign == 'neg':       # idx_l < idx_c : the right end is the evaluated one
            v = e.ic
            return two * e.D - four * (e.zr - e.Z(v)) / (e.r * e.M(v))
        v = e.il
        return two * e.D - four * (e.zl - e.Z(v)) / (e.r * e.M(v))

    d_idx = e.il - e.ic
    n_paths = 0
    seen_cases = set()
    for p in paths:
        st = C.stores_to(p, base=e.p0, field='globalR', tkind='attr')
        loc = cw.loc(st[-1].node) if st else cw.loc()
        lits = p.guards
        left_none = C.has_lit(lits, Lit('isnone', key=key_of(e.p1), pol=True))
        if not st:
            ctx.fail(rid, cw.short, cw.loc(), 'a normal path leaves the characteristic of the interval unset',
                     key=f'{rid}::{cw.short}::path-without-store', detail={'path': p.describe(30)})
            continue
        val = st[-1].d['value']
        n_paths += 1
        if left_none:
            seen_cases.add('none')
            ok = isinstance(val, RF) and val.equals(-rf_inf())
            ctx.check(ok, rid, cw.short, loc, 'no left neighbour: characteristic is -inf',
                      f'no-left-neighbour case stores {C.fmt(val)} instead of -inf',
                      key=ctx.key_for(rid, cw, st[-1].node))
            continue
        signs = C.sign_set(lits, d_idx)
        if not signs:
            continue        # infeasible combination of index guards
        for sg in sorted(signs):
            seen_cases.add(sg)
            exp = expected(sg)
            got = val
            # max(idx_l, idx_c) / min(...) are one of the two indices in each case
            pair = frozenset({e.il.key(), e.ic.key()})
            hi, lo = {'zero': (e.ic, e.ic), 'neg': (e.ic, e.il), 'pos': (e.il, e.ic)}[sg]
            got = C.subst_val(got, {('max', pair): key_of(hi), ('min', pair): key_of(lo)})
            if sg == 'zero':   # under idx_l == idx_c both names of the index are the same value
                m = {key_of(e.il): key_of(e.ic)}
                got, exp = C.subst_val(got, m), C.subst_rf(exp, m)
            ok = isinstance(got, RF) and got.equals(exp)
            case = {'zero': 'idx_l = idx_c', 'neg': 'idx_l < idx_c', 'pos': 'idx_l > idx_c'}[sg]
            ctx.check(ok, rid, cw.short, loc, f'case {case}: stored characteristic equals the stated formula',
                      f'case {case}: stored characteristic {C.fmt(got)} differs from the stated formula {C.fmt(exp)}',
                      key=ctx.key_for(rid, cw, st[-1].node), detail={'guards': [repr(l) for l in lits]})
    ctx.floor(rid, 'storing paths of the characteristic writer', n_paths, 4)
    for need in ('none', 'zero', 'neg', 'pos'):
        if need not in seen_cases:
            ctx.fail(rid, cw.short, cw.loc(), f'no path handles the case "{need}" of the characteristic',
                     key=f'{rid}::{cw.short}::missing-case-{need}')
    # who may write .globalR
    item = ctx.ix.cls('SearchDataItem')
    others = [m for m in roles.attr_writers('globalR', item) if m.func is not cw]
    for m in others:
        ctx.fail(rid, m.func.short, m.loc(), f'.globalR is written outside the characteristic writer: {m.text()}',
                 key=ctx.key_for(rid, m.func, m.node))
    if not others:
        ctx.ok(rid, cw.short, 'the characteristic writer is the only writer of .globalR after construction', cw.loc())


# ----------------------------------------------------------------------------
def r02_3(ctx: Ctx):
    rid = 'R02.3'
    ctx.rule(rid, 'Hoelder estimate: M[i] := |z_l - z_r| / D under (same index) and (m > M[i] or >=); floor 1')
    roles = C.roles_of(ctx)
    ew = _role(ctx, rid, lambda: roles.estimate_writer, 'estimate writer')
    if ew is None:
        return
    e = Env(ctx, ew)
    ex = ctx.explorer()
    paths = C.normal_paths(ex.explore(ew))
    Mattr = attr(e.self_, e.Mf)
    d_idx = e.il - e.ic
    n_store = 0
    for p in paths:
        sts = [s for s in C.stores_to(p, tkind='sub') if key_of(s.d['base']) == key_of(Mattr)]
        for s in sts:
            n_store += 1
            loc = ew.loc(s.node)
            key = ctx.key_for(rid, ew, s.node)
            lits = p.guards
            signs = C.sign_set(lits, d_idx)
            ctx.check(signs == {'zero'}, rid, ew.short, loc,
                      'estimate updated only between trials of the same index (boundary items are skipped)',
                      'estimate updated without the same-index guard (boundary items carry float_max as value)',
                      key=key)
            m = {key_of(e.il): key_of(e.ic)}
            idx = C.subst_val(s.d['field'], m)
            val = C.subst_val(s.d['value'], m)
            mexp = rf_abs(e.zl - e.zr) / e.D
            ok_idx = isinstance(idx, RF) and idx.equals(e.ic)
            ctx.check(ok_idx, rid, ew.short, loc, 'estimate slot is the index of the pair',
                      f'estimate stored into slot {C.fmt(idx)} instead of the index of the pair', key=key)
            Mi = e.M(e.ic)
            if isinstance(val, RF) and val.equals(mexp):
                g1, g2 = Lit.cmp('>', mexp, Mi), Lit.cmp('>=', mexp, Mi)
                lits_n = [C.subst_lit(l, m) for l in lits]
                pos = {key_of(e.D)}
                ok = any(C.lit_equiv_pos(l, g1, pos) or C.lit_equiv_pos(l, g2, pos) for l in lits_n)
                ctx.check(ok, rid, ew.short, loc, 'M[i] := |z_l - z_r|/D only when it exceeds the current M[i]',
                          'M[i] is overwritten by the slope without the guard m > M[i] (the estimate must be the '
                          'largest slope seen so far)', key=key, detail={'guards': [repr(l) for l in lits]})
            elif isinstance(val, RF) and val.equals(rf_minmax('max', [Mi, mexp])):
                ctx.ok(rid, ew.short, 'M[i] := max(M[i], |z_l - z_r|/D)', loc)
            else:
                ctx.fail(rid, ew.short, loc, f'value stored into M is {C.fmt(val)}, expected |z_l - z_r|/D = '
                                             f'{C.fmt(mexp)}', key=key)
    ctx.floor(rid, 'stores into the estimate table', n_store, 1)
    # initialiser: all ones
    init = roles.method_cls.lookup('__init__')
    ok_init = False
    if init is not None:
        for p in C.normal_paths(ctx.explorer().explore(init)):
            v = p.state.heap.get((key_of(var(init.param_names[0])), e.Mf))
            if isinstance(v, CompVal) and isinstance(v.elt, RF) and v.elt.const_value() == 1:
                ok_init = True
            elif isinstance(v, TupleVal) and v.items and all(isinstance(x, RF) and x.const_value() == 1
                                                              for x in v.items):
                ok_init = True
    ctx.check(ok_init, rid, 'Method.__init__', init.loc() if init else '', 'estimate table initialised to the floor 1',
              'estimate table is not initialised to 1 in every slot (M is floored at 1)',
              key=f'{rid}::Method.__init__::M-floor')
    # other writers
    for m in roles.sub_writers(roles.method_cls, e.Mf):
        if m.func is not ew and m.func.name != '__init__':
            ctx.fail(rid, m.func.short, m.loc(), f'M is written outside the estimate writer: {m.text()}',
                     key=ctx.key_for(rid, m.func, m.node))
    for m in roles.attr_writers(e.Mf, roles.method_cls):
        ctx.fail(rid, m.func.short, m.loc(), f'the estimate table is rebound outside the constructor: {m.text()}',
                 key=ctx.key_for(rid, m.func, m.node))


# ----------------------------------------------------------------------------
def r02_3_no_reset(ctx: Ctx):
    """M is the largest slope over every pair *seen so far*: it is never re-initialised after construction."""
    rid = 'R02.3'
    roles = C.roles_of(ctx)
    Mf = m_field(ctx)
    for m in roles.attr_writers(Mf, roles.method_cls):
        node = m.node
        v = getattr(node, 'value', None)
        lit = isinstance(v, (ast.List, ast.ListComp, ast.BinOp)) and not any(
            isinstance(x, (ast.Attribute, ast.Subscript, ast.Call)) and not
            (isinstance(x, ast.Call) and isinstance(x.func, ast.Name) and x.func.id in ('range', 'len'))
            for x in ast.walk(v.elt if isinstance(v, ast.ListComp) else v))
        if lit:
            ctx.fail(rid, m.func.short, m.loc(),
                     f'{m.text()[:60]} re-initialises the Hoelder estimate outside the constructor: slopes seen '
                     f'before are forgotten, so M no longer is the largest slope over every neighbouring pair seen '
                     f'so far (pairs that were split since then cannot be recovered from the current partition)',
                     key=f'{rid}::{m.func.short}::estimate-reset', detail={'decidable': True})


def r02_4(ctx: Ctx):
    rid = 'R02.4'
    ctx.rule(rid, 'new point: (x_l+x_r)/2 - sign(z_r-z_l)*(|z_r-z_l|/M)^N/(2r) for equal indices, midpoint '
                  'otherwise; every return guarded by x_l < x < x_r')
    roles = C.roles_of(ctx)
    np_ = _role(ctx, rid, lambda: roles.new_point_routine, 'new-point routine')
    if np_ is None:
        return
    e = Env(ctx, np_)
    ex = ctx.explorer()
    left = e.getL(e.p0)
    xl, xr = e.getX(left), e.getX(e.p0)
    zl, zr = e.getZ(left), e.getZ(e.p0)
    il, ic = e.getI(left), e.getI(e.p0)
    N = attr(attr(attr(e.self_, 'task'), 'problem'), 'numberOfFloatVariables')
    half = RF.const(Fraction(1, 2))
    mid = (xl + xr) * half
    d_idx = il - ic
    dz = zr - zl
    n_ret = 0
    for p in ex.explore(np_):
        if p.outcome == 'raise':
            continue
        n_ret += 1
        ret = C.norm_self(ctx, np_, p.value)
        retnode = [ev for ev in p.events if ev.kind == 'return' and ev.depth == 0]
        node = retnode[-1].node if retnode else np_.node
        loc = np_.loc(node)
        key = ctx.key_for(rid, np_, node)
        lits = [C.norm_self(ctx, np_, l) if False else l for l in p.guards]
        lits = [C.subst_lit(l, C.init_equalities(ctx, np_.cls)) for l in lits]
        signs = C.sign_set(lits, d_idx)
        if not signs:
            continue
        for sg in sorted(signs):
            if sg == 'zero':
                m = {key_of(il): key_of(ic)}
                dsign = C.sign_set(lits, dz)
                for ds in sorted(dsign):
                    s_ = RF.const(1) if ds == 'pos' else RF.const(-1)
                    exp = mid - s_ * rf_pow(rf_abs(dz) / e.M(ic), N) / (RF.const(2) * e.r)
                    got = C.subst_val(ret, m)
                    if ds == 'zero':
                        # dz == 0: the correction term vanishes whatever sign is chosen
                        alt = mid - rf_pow(rf_abs(dz) / e.M(ic), N) / (RF.const(2) * e.r)
                        ok = isinstance(got, RF) and (got.equals(C.subst_rf(exp, m)) or
                                                      got.equals(C.subst_rf(alt, m)))
                    else:
                        ok = isinstance(got, RF) and got.equals(C.subst_rf(exp, m))
                    ctx.check(ok, rid, np_.short, loc,
                              f'equal indices, z_r - z_l {ds}: returned point equals the stated formula',
                              f'equal indices, z_r - z_l {ds}: returned point {C.fmt(got)} differs from '
                              f'{C.fmt(exp)}', key=key, detail={'guards': [repr(l) for l in lits]})
            else:
                ok = isinstance(ret, RF) and ret.equals(mid)
                ctx.check(ok, rid, np_.short, loc, 'different indices: returned point is the midpoint',
                          f'different indices: returned point {C.fmt(ret)} is not the midpoint', key=key)
        # strict interior guard
        raw = p.value
        g_lo, g_hi = Lit.cmp('<', xl, raw), Lit.cmp('<', raw, xr)
        ok = isinstance(raw, RF) and C.has_lit(p.guards, g_lo) and C.has_lit(p.guards, g_hi)
        ctx.check(ok, rid, np_.short, loc, 'return is dominated by the guard x_l < x < x_r (strict)',
                  'a new point can be returned without the strict interior guard x_l < x < x_r '
                  '(a point on an interval end would be evaluated twice)', key=key + '::interior',
                  detail={'guards': [repr(l) for l in p.guards]})
    ctx.floor(rid, 'returning paths of the new-point routine', n_ret, 2)


# ----------------------------------------------------------------------------
def r02_1(ctx: Ctx, coordinate_fixed: bool = True):
    """coordinate_fixed=False (re-runs under C05 / C06): the first trial must be wired correctly - one evaluation of
    an item built in the seeding routine whose point is the evolvent image of its own coordinate, between the end
    points 0 and 1 - but its coordinate need not be 1/2 (that clause belongs to C02 alone)."""
    rid = 'R02.1'
    ctx.rule(rid, 'seed: exactly one item is evaluated, built as Item(Point(GetImage(t)), t) with t = 1/2; the '
                  'other two items have t = 0 and 1 and are never evaluated')
    roles = C.roles_of(ctx)
    sd = _role(ctx, rid, lambda: roles.seeding, 'seeding routine')
    if sd is None:
        return
    ev_r = roles.eval_routine
    gi = ctx.ix.func('Evolvent.GetImage')
    ex = ctx.explorer()
    paths = C.normal_paths(ex.explore(sd))
    ctx.floor(rid, 'normal paths of the seeding routine', len(paths), 1)
    for p in paths:
        evs = C.call_events(p, callee=ev_r)
        loc = sd.loc(evs[0].node) if evs else sd.loc()
        if not ctx.check(len(evs) == 1, rid, sd.short, loc, 'exactly one evaluation in the first iteration',
                         f'{len(evs)} evaluations in the first iteration (expected exactly one)',
                         key=f'{rid}::{sd.short}::eval-count'):
            continue
        item = evs[0].d['args'][0]
        items = C.new_events(p, 'SearchDataItem')
        ts = {}
        for ne in items:
            args = ne.d['args']
            t = args[1] if len(args) > 1 else ne.d['kwargs'].get('x')
            pt = args[0] if args else ne.d['kwargs'].get('y')
            pne = C.new_event_of(p, pt)
            img_t = None
            if pne is not None:
                a0 = pne.d['args'][0] if pne.d['args'] else pne.d['kwargs'].get('floatVariables')
                ce = C.image_call_of(p, a0, gi)
                if ce is not None and ce.d['args']:
                    img_t = ce.d['args'][0]
            ts[key_of(ne.d['result'])] = (t, img_t, ne)
        if not ctx.check(key_of(item) in ts, rid, sd.short, loc, 'the evaluated seed item is built in the routine',
                         'the evaluated seed item is not an item constructed in the seeding routine',
                         key=f'{rid}::{sd.short}::seed-item'):
            continue
        t, img_t, ne = ts[key_of(item)]
        if coordinate_fixed:
            ok = isinstance(t, RF) and t.const_value() == Fraction(1, 2)
            ctx.check(ok, rid, sd.short, sd.loc(ne.node), 'first trial has curve coordinate 1/2',
                      f'first trial has curve coordinate {C.fmt(t)} instead of 1/2', key=f'{rid}::{sd.short}::t-half')
        ok2 = isinstance(img_t, RF) and isinstance(t, RF) and img_t.equals(t)
        ctx.check(ok2, rid, sd.short, sd.loc(ne.node), 'first trial point is the evolvent image of its coordinate',
                  f'first trial point is GetImage({C.fmt(img_t)}) but its coordinate is {C.fmt(t)}',
                  key=f'{rid}::{sd.short}::image-of-t')
        others = sorted(str(v[0].const_value()) if isinstance(v[0], RF) and v[0].const_value() is not None
                        else C.fmt(v[0]) for k, v in ts.items() if k != key_of(item))
        ctx.check(others == ['0', '1'], rid, sd.short, sd.loc(), 'the two unevaluated end items have t = 0 and 1',
                  f'end items have coordinates {others}, expected 0 and 1', key=f'{rid}::{sd.short}::ends')
        for k, (t2, img2, ne2) in ts.items():
            ok3 = isinstance(img2, RF) and isinstance(t2, RF) and img2.equals(t2)
            if k != key_of(item):
                ctx.check(ok3, rid, sd.short, sd.loc(ne2.node), 'end item point is the image of its coordinate',
                          f'end item point is GetImage({C.fmt(img2)}) but its coordinate is {C.fmt(t2)}',
                          key=f'{rid}::{sd.short}::end-image::{C.fmt(t2)}')


# ----------------------------------------------------------------------------
def r02_5(ctx: Ctx):
    rid = 'R02.5'
    ctx.rule(rid, 'recalc protocol: writers of M/Z* raise the flag; selection recomputes all characteristics '
                  'before the pop when the flag is set; the recomputation visits every item, refills, then clears '
                  'the flag; nobody else clears it')
    roles = C.roles_of(ctx)
    try:
        ew, up, sel, fr, cw = roles.estimate_writer, roles.optimum_updater, roles.selection, roles.full_recalc, \
            roles.characteristic_writer
    except RoleMissing as e:
        ctx.fail(rid, f'role {e.role}', 'iOpt/', str(e), key=f'{rid}::role::{e.role}')
        return
    Mf, Zf = m_field(ctx), z_field(ctx)
    # (a) every path that stores into M or Z leaves recalc True
    n_a = 0
    for fn, fld in ((ew, Mf), (up, Zf)):
        selfv = var(fn.param_names[0])
        tab = attr(selfv, fld)
        for p in C.normal_paths(ctx.explorer().explore(fn)):
            sts = [s for s in C.stores_to(p, tkind='sub') if key_of(s.d['base']) == key_of(tab)]
            if not sts:
                continue
            n_a += 1
            fin = p.state.heap.get((key_of(selfv), 'recalc'))
            ok = isinstance(fin, RF) and key_of(fin) == TRUE
            ctx.check(ok, rid + 'a', fn.short, fn.loc(sts[-1].node),
                      f'path that changes {fld} leaves the recalculation flag set',
                      f'{fld} is changed but the recalculation flag is not set on this path: the queued '
                      f'characteristics become stale', key=ctx.key_for(rid + 'a', fn, sts[-1].node))
    ctx.floor(rid + 'a', 'paths that change M or Z*', n_a, 3)
    # the same obligation for every other routine that writes into the estimate or the best-value table
    for fld in (Mf, Zf):
        for m in roles.sub_writers(roles.method_cls, fld):
            fn = m.func
            if fn in (ew, up) or fn.name == '__init__' or fn.kind != 'function':
                continue
            ok = False
            try:
                for p in C.normal_paths(ctx.explorer().explore(fn)):
                    hit = [s_ for s_ in C.stores_to(p, tkind='sub') if s_.node is m.node or
                           getattr(s_.node, 'lineno', -1) == getattr(m.node, 'lineno', -2)]
                    if not hit:
                        continue
                    fin = [s_ for s_ in p.stores() if s_.d['tkind'] == 'attr' and s_.d['field'] == 'recalc']
                    # the flag must be left raised at exit; where in the routine it is raised is immaterial
                    ok = bool(fin) and key_of(fin[-1].d['value']) == TRUE
                    if not ok:
                        break
            except AnalysisError:
                ok = False
            ctx.check(ok, rid + 'a', fn.short, m.loc(),
                      f'{fn.short} changes {fld} and raises the recalculation flag',
                      f'{fn.short} writes {fld} ({m.text()[:60]}) without raising the recalculation flag: the queued '
                      f'characteristics were computed with the old {fld} and decide later trials',
                      key=f'{rid}a::{fn.short}::writes-{fld}-without-recalc')
    # (b) selection: full recomputation before the pop whenever the flag may be set
    pops = roles.sd_method('GetDataItemWithMaxGlobalR')
    ex = ctx.explorer(inline=lambda f, st: f is fr)
    selfv = var(sel.param_names[0])
    flag0 = Lit('truth', key=('attr', key_of(selfv), 'recalc', 0), pol=True)
    n_b = 0
    for p in C.normal_paths(ex.explore(sel)):
        pe = C.call_events(p, among=pops)
        if not pe:
            continue
        n_b += 1
        ipop = p.events.index(pe[0])
        before = p.events[:ipop]
        cleared = any(ev.kind == 'guard' and ev.d['lit'].same(flag0.negate()) for ev in before)
        cw_calls = [ev for ev in before if ev.kind == 'call' and cw in ev.d['callees']]
        refills = [ev for ev in before if ev.kind == 'call' and ev.d['name'] == 'RefillQueue']
        recomputed = bool(refills) and any(ev.kind == 'iter' for ev in before)
        loops = [ev for ev in before if ev.kind in ('iter', 'loopexit')]
        # a path on which the container happened to be empty (0 iterations) still counts as recomputed
        recomputed = bool(refills) and bool(loops)
        ok = cleared or recomputed
        ctx.check(ok, rid + 'b', sel.short, sel.loc(pe[0].node),
                  'the best interval is requested only after the characteristics are known to be current',
                  'the best interval can be requested while the recalculation flag is set: stale characteristics '
                  'decide the next trial', key=f'{rid}b::{sel.short}::pop-before-recalc',
                  detail={'path': p.describe(40)})
    ctx.floor(rid + 'b', 'paths of the selection routine that request the best interval', n_b, 2)
    # (c) the full recomputation itself
    exc_ = ctx.explorer()
    selff = var(fr.param_names[0])
    item_cls = ctx.ix.cls('SearchDataItem')
    getL = item_cls.lookup('GetLeft')
    n_c = 0
    for p in C.normal_paths(exc_.explore(fr)):
        clears = [ev for ev in C.stores_to(p, base=selff, field='recalc', tkind='attr')
                  if isinstance(ev.d['value'], RF) and key_of(ev.d['value']) == FALSE]
        if not clears:
            continue            # early-return path (flag not set)
        n_c += 1
        iclr = p.events.index(clears[-1])
        loc = fr.loc(clears[-1].node)
        refills = [i for i, ev in enumerate(p.events) if ev.kind == 'call' and ev.d['name'] == 'RefillQueue']
        clq = [i for i, ev in enumerate(p.events) if ev.kind == 'call' and ev.d['name'] == 'ClearQueue']
        iters = [(i, ev) for i, ev in enumerate(p.events) if ev.kind == 'iter' and ev.depth == 0]
        cws = [(i, ev) for i, ev in enumerate(p.events) if ev.kind == 'call' and cw in ev.d['callees']]
        ok_order = bool(refills) and all(i < refills[-1] for i, _ in cws) and refills[-1] < iclr
        ctx.check(ok_order, rid + 'c', fr.short, loc,
                  'characteristics are recomputed, the queue refilled, and only then the flag cleared',
                  'the flag is cleared before the recomputation/refill is complete', key=f'{rid}c::{fr.short}::order')
        # every iteration recomputes its item against its left neighbour
        good = True
        for (i, it) in iters:
            lv = it.d['var']
            mine = [ev for j, ev in cws if j > i and len(ev.d['args']) >= 2 and key_of(ev.d['args'][0]) == key_of(lv)]
            if not mine:
                good = False
                break
            exp_left = C.getter_value(exc_, getL, lv)
            a1 = mine[0].d['args'][1]
            if not (isinstance(a1, RF) and a1.equals(exp_left)):
                good = False
                break
        ctx.check(good and (len(iters) == len(cws)), rid + 'c', fr.short, loc,
                  'every item of the search data is recomputed against its left neighbour',
                  'the full recomputation skips items or pairs an item with something other than its left '
                  'neighbour', key=f'{rid}c::{fr.short}::visits', detail={'path': p.describe(40)})
        # the loop ranges over the whole container
        fors = [n for n in ast.walk(fr.node) if isinstance(n, ast.For)]
        whole = False
        for n in fors:
            objs = set(ctx.pta.expr_pts(fr, n.iter))
            for _ in range(3):      # map(f, IT) ranges over IT
                objs |= {x for o in list(objs) for x in ctx.pta.get(('F', o, '<maps>'))}
            if any(o.cls is not None and o.cls.is_subclass_of(ctx.ix.cls('SearchData')) for o in objs) and \
                    not isinstance(n.iter, ast.Subscript) and \
                    not any(isinstance(x, (ast.Break, ast.Continue)) for b in n.body for x in ast.walk(b)):
                whole = True
        ctx.check(whole, rid + 'c', fr.short, fr.loc(), 'the recomputation loop ranges over the whole search data',
                  'the recomputation loop does not range over the whole search data (slice, break or continue)',
                  key=f'{rid}c::{fr.short}::whole')
    ctx.floor(rid + 'c', 'flag-clearing paths of the full recomputation', n_c, 1)
    # (d) who may clear the flag
    for m in roles.attr_writers('recalc', roles.method_cls):
        v = m.node.value if isinstance(m.node, (ast.Assign, ast.AnnAssign)) else None
        is_true = isinstance(v, ast.Constant) and v.value is True
        if m.func is fr or is_true:
            continue
        ctx.fail(rid + 'd', m.func.short, m.loc(), f'the recalculation flag is cleared or rewritten outside the full '
                                                   f'recomputation: {m.text()}', key=ctx.key_for(rid + 'd', m.func, m.node))
    ctx.ok(rid + 'd', fr.short, 'writers of the recalculation flag enumerated', fr.loc())


# ----------------------------------------------------------------------------
def depq_signature():
    """(parameter order of DEPQ.insert, docstring of popfirst) read from the installed library source."""
    import importlib.util
    spec = importlib.util.find_spec('depq')
    if spec is None or not spec.origin:
        raise AnalysisError('depq is not installed: queue wiring cannot be checked')
    path = spec.origin
    cands = [path]
    d = os.path.dirname(path)
    for fn in os.listdir(d):
        if fn.endswith('.py'):
            cands.append(os.path.join(d, fn))
    for c in cands:
        try:
            tree = ast.parse(open(c, encoding='utf-8').read())
        except Exception:
            continue
        for n in ast.walk(tree):
            if isinstance(n, ast.ClassDef) and n.name == 'DEPQ':
                out = {}
                for b in n.body:
                    if isinstance(b, ast.FunctionDef):
                        out[b.name] = ([a.arg for a in b.args.args], ast.get_docstring(b) or '')
                return out
    raise AnalysisError('class DEPQ not found in the installed depq package')


def r02_6(ctx: Ctx):
    rid = 'R02.6'
    ctx.rule(rid, 'arg-max wiring: best-interval request returns the item popped from the max end of the queue '
                  '(after refill-if-empty); Insert(key, item) reaches DEPQ.insert(item, key); the solver queue is '
                  'unbounded')
    sig = depq_signature()
    ins = sig.get('insert', ([], ''))[0]
    ok_sig = ins[:3] == ['self', 'item', 'priority']
    ctx.check(ok_sig, rid, 'depq.DEPQ.insert', 'site-packages/depq', 'library signature insert(item, priority)',
              f'unexpected DEPQ.insert signature {ins}', key=f'{rid}::depq-signature')
    pf_doc = sig.get('popfirst', ([], ''))[1].lower()
    ctx.check('highest' in pf_doc or 'first' in pf_doc, rid, 'depq.DEPQ.popfirst', 'site-packages/depq',
              'library contract: popfirst removes the highest-priority item', 'popfirst contract not recognised',
              key=f'{rid}::depq-popfirst')
    q = ctx.ix.cls('CharacteristicsQueue')
    sdc = ctx.ix.cls('SearchData')
    ex = ctx.explorer(inline=lambda f, st: f.cls is q)
    # Insert(key, item) -> insert(item, key)
    insf = q.lookup('Insert')
    n = 0
    for p in C.normal_paths(ex.explore(insf)):
        for ev in p.events:
            if ev.kind == 'call' and ev.d['name'] in ('insert', 'addfirst', 'addlast') and ev.d.get('ext'):
                n += 1
                a = ev.d['args']
                kw = ev.d['kwargs']
                item = a[0] if a else kw.get('item')
                pr = a[1] if len(a) > 1 else kw.get('priority')
                ok = item is not None and pr is not None and key_of(item) == key_of(var(insf.param_names[2])) and \
                    key_of(pr) == key_of(var(insf.param_names[1]))
                ctx.check(ok and ev.d['name'] == 'insert', rid, insf.short, insf.loc(ev.node),
                          'Insert(key, item) stores the item with the key as its priority',
                          'Insert(key, item) does not pass (item, key) to DEPQ.insert in this order',
                          key=ctx.key_for(rid, insf, ev.node))
    ctx.floor(rid, 'DEPQ.insert call sites in CharacteristicsQueue.Insert', n, 1)
    # GetBestItem -> popfirst
    gb = q.lookup('GetBestItem')
    n = 0
    for p in C.normal_paths(ex.explore(gb)):
        ce = C.pop_event_of(p, p.value)
        n += 1
        ok = ce is not None and ce.d['name'] == 'popfirst'
        ctx.check(ok, rid, gb.short, gb.loc(), 'GetBestItem returns DEPQ.popfirst() (the maximal priority)',
                  f'GetBestItem returns {C.fmt(p.value)}, not the result of popfirst() (max end of the queue)',
                  key=f'{rid}::{gb.short}::popfirst')
    ctx.floor(rid, 'paths of GetBestItem', n, 1)
    # GetDataItemWithMaxGlobalR of the base container
    gm = sdc.methods.get('GetDataItemWithMaxGlobalR')
    n = 0
    for p in C.normal_paths(ex.explore(gm)):
        n += 1
        v = p.value
        a = v.single_atom() if isinstance(v, RF) else None
        ok = isinstance(a, tuple) and a[0] == 'sub' and a[2] == key_of(RF.const(0))
        src = None
        if ok:
            for ev in p.events:
                if ev.kind == 'call' and ev.d.get('result') is not None and key_of(ev.d['result']) == a[1]:
                    src = ev
        ok = ok and src is not None and src.d['name'] == 'popfirst'
        ctx.check(ok, rid, gm.short, gm.loc(), 'request returns component 0 (the item) of the popped entry',
                  f'request returns {C.fmt(v)}: not component 0 of the entry popped from the max end',
                  key=f'{rid}::{gm.short}::component0')
        # refill-if-empty precedes the pop
        empt = [i for i, ev in enumerate(p.events) if ev.kind == 'call' and ev.d['name'] == 'is_empty']
        pop = [i for i, ev in enumerate(p.events) if ev.kind == 'call' and ev.d['name'] == 'popfirst']
        ok2 = bool(empt) and bool(pop) and empt[0] < pop[0]
        ctx.check(ok2, rid, gm.short, gm.loc(), 'emptiness is tested before popping',
                  'the queue is popped without the refill-if-empty test', key=f'{rid}::{gm.short}::empty-test')
    ctx.floor(rid, 'paths of GetDataItemWithMaxGlobalR', n, 2)
    # unbounded queue in Solver
    solver_init = ctx.ix.func('Solver.__init__')
    ok = False
    where = solver_init.loc()
    for p in C.normal_paths(ctx.explorer().explore(solver_init)):
        for ne in C.new_events(p):
            if ne.d['cls'].is_subclass_of(sdc):
                where = solver_init.loc(ne.node)
                ml = ne.d['args'][1] if len(ne.d['args']) > 1 else ne.d['kwargs'].get('maxlen')
                ok = ml is None or key_of(ml) == NONE
    ctx.check(ok, rid, 'Solver.__init__', where, 'the solver builds its search data with an unbounded queue',
              'the solver bounds the characteristics queue: evicted intervals can never be selected again',
              key=f'{rid}::Solver.__init__::maxlen')


# ----------------------------------------------------------------------------
def r02_7_8(ctx: Ctx):
    rid = 'R02.7'
    ctx.rule(rid, 'freshness in renewal: both lengths are refreshed before M and the characteristics are '
                  'computed; pairs are (new, L) and (old, new) with L the left neighbour before relinking; the '
                  'insertion comes last')
    ctx.rule('R02.8', 'hint identity: (new, old) from the selection routine reach the renewal routine in this '
                      'order and InsertDataItem(new, right=old)')
    roles = C.roles_of(ctx)
    try:
        rn, ew, cw, sel, drv = roles.renewal, roles.estimate_writer, roles.characteristic_writer, roles.selection, \
            roles.iter_driver
    except RoleMissing as e:
        ctx.fail(rid, f'role {e.role}', 'iOpt/', str(e), key=f'{rid}::role::{e.role}')
        return
    ex = ctx.explorer()
    item = ctx.ix.cls('SearchDataItem')
    ps = rn.param_names
    new, old = var(ps[1]), var(ps[2])
    L = C.getter_value(ex, item.lookup('GetLeft'), old)
    ins = roles.sd_method('InsertDataItem')
    paths = C.normal_paths(ex.explore(rn))
    ctx.floor(rid, 'normal paths of the renewal routine', len(paths), 1)
    for p in paths:
        evs = p.events
        idx = {id(e): i for i, e in enumerate(evs)}
        d_old = C.stores_to(p, base=old, field='delta', tkind='attr')
        d_new = C.stores_to(p, base=new, field='delta', tkind='attr')
        m_calls = C.call_events(p, callee=ew)
        r_calls = C.call_events(p, callee=cw)
        i_calls = C.call_events(p, among=ins)
        loc = rn.loc()
        from .containers import selection_delta_stores
        early = selection_delta_stores(ctx)      # lengths written earlier in the same iteration also count
        have_old = bool(d_old) or bool(early['old'])
        have_new = bool(d_new) or bool(early['new'])
        if not ctx.check(have_old and have_new, rid, rn.short, loc, 'both interval lengths are refreshed in the iteration',
                         'the lengths of both new intervals are not refreshed before M and the characteristics are '
                         'computed', key=f'{rid}::{rn.short}::both-deltas'):
            continue
        last_delta = max([idx[id(x[-1])] for x in (d_old, d_new) if x] or [-1])

        def pairs_ok(calls):
            got = sorted((C.fmt(c.d['args'][0]), C.fmt(c.d['args'][1])) for c in calls if len(c.d['args']) >= 2)
            exp = sorted([(C.fmt(new), C.fmt(L)), (C.fmt(old), C.fmt(new))])
            return got == exp, got
        okm, gotm = pairs_ok(m_calls)
        ctx.check(okm, rid, rn.short, loc, 'M is updated from the pairs (new, L) and (old, new)',
                  f'M is updated from the pairs {gotm}; expected (new, left neighbour before relinking) and '
                  f'(old, new)', key=f'{rid}::{rn.short}::M-pairs')
        okr, gotr = pairs_ok(r_calls)
        ctx.check(okr, rid, rn.short, loc, 'characteristics are computed for the pairs (new, L) and (old, new)',
                  f'characteristics are computed for the pairs {gotr}; expected (new, left neighbour before '
                  f'relinking) and (old, new)', key=f'{rid}::{rn.short}::R-pairs')
        ok_order = all(idx[id(c)] > last_delta for c in m_calls + r_calls)
        ctx.check(ok_order, rid, rn.short, loc, 'lengths are refreshed before M and the characteristics read them',
                  'M or a characteristic is computed from a stale interval length (computed before the lengths '
                  'are refreshed)', key=f'{rid}::{rn.short}::delta-first')
        ok_ins = len(i_calls) == 1 and all(idx[id(c)] < idx[id(i_calls[0])] for c in r_calls)
        ctx.check(ok_ins, rid, rn.short, loc, 'the insertion (which queues both characteristics) comes after both '
                                              'characteristics are computed',
                  'the item is inserted (and queued) before its characteristics are current',
                  key=f'{rid}::{rn.short}::insert-last')
        # R02.8 inside the renewal routine
        if i_calls:
            c = i_calls[0]
            a0 = c.d['args'][0] if c.d['args'] else c.d['kwargs'].get('newDataItem')
            a1 = c.d['args'][1] if len(c.d['args']) > 1 else c.d['kwargs'].get('rightDataItem')
            ok = a0 is not None and a1 is not None and key_of(a0) == key_of(new) and key_of(a1) == key_of(old)
            ctx.check(ok, 'R02.8', rn.short, rn.loc(c.node), 'InsertDataItem(new, right=old)',
                      f'InsertDataItem is called with ({C.fmt(a0)}, {C.fmt(a1)}) instead of (new, old)',
                      key=f'R02.8::{rn.short}::insert-args')
        # delta formulas are C06 (R06.4)
    # R02.8 in the driver
    n = 0
    for p in C.normal_paths(ex.explore(drv)):
        sc = C.call_events(p, callee=sel)
        rc = C.call_events(p, callee=rn)
        for s_, r_ in zip(sc, rc):
            n += 1
            res = s_.d['result']
            a = r_.d['args']
            exp0 = key_of(atomv(('sub', key_of(res), RF.const(0).key(), 0)))
            exp1 = key_of(atomv(('sub', key_of(res), RF.const(1).key(), 0)))
            ok = len(a) >= 2 and key_of(a[0]) == exp0 and key_of(a[1]) == exp1
            ctx.check(ok, 'R02.8', drv.short, drv.loc(r_.node),
                      'the (new, old) pair of the selection routine is passed on in this order',
                      'the renewal routine does not receive (new, old) as returned by the selection routine',
                      key=f'R02.8::{drv.short}::pair-order')
    ctx.floor('R02.8', 'selection->renewal hand-overs in the iteration driver', n, 1)
    r02_8_selection(ctx)


def r02_8_selection(ctx: Ctx):
    """The selection routine returns (new, old) = (Item(Point(GetImage(x)), x), popped item)."""
    roles = C.roles_of(ctx)
    try:
        sel = roles.selection
    except RoleMissing as e:
        ctx.fail('R02.8', f'role {e.role}', 'iOpt/', str(e), key=f'R02.8::role::{e.role}')
        return
    pops = roles.sd_method('GetDataItemWithMaxGlobalR')
    npr = roles.new_point_routine
    gi = ctx.ix.func('Evolvent.GetImage')
    for p in C.normal_paths(ctx.explorer().explore(sel)):
        v = p.value
        if not isinstance(v, TupleVal) or len(v.items) != 2:
            ctx.fail('R02.8', sel.short, sel.loc(), 'the selection routine does not return a (new, old) pair',
                     key=f'R02.8::{sel.short}::returns-pair')
            continue
        pe = C.call_events(p, among=pops)
        ok_old = bool(pe) and key_of(v.items[1]) == key_of(pe[0].d['result'])
        ctx.check(ok_old, 'R02.8', sel.short, sel.loc(), 'second component is the interval popped from the queue',
                  'the second component returned by the selection routine is not the popped interval',
                  key=f'R02.8::{sel.short}::old')
        # new item: Item(Point(GetImage(x)), x), x = new-point routine applied to the popped interval
        nv = v.items[0]
        ne = C.new_event_of(p, nv)
        okn = False
        if ne is None:
            # deepcopy(Item(...)) : look through the copy
            ce = C.call_event_of_result(p, nv)
            if ce is not None and ce.d['name'] == 'deepcopy' and ce.d['args']:
                ne = C.new_event_of(p, ce.d['args'][0])
        if ne is not None and ne.d['cls'].name == 'SearchDataItem':
            a = ne.d['args']
            x = a[1] if len(a) > 1 else ne.d['kwargs'].get('x')
            pt = a[0] if a else ne.d['kwargs'].get('y')
            xe = C.call_event_of_result(p, x)
            pne = C.new_event_of(p, pt)
            img = None
            if pne is not None and pne.d['args']:
                ie = C.image_call_of(p, pne.d['args'][0], gi)
                if ie is not None and ie.d['args']:
                    img = ie.d['args'][0]
            okn = xe is not None and npr in xe.d['callees'] and bool(pe) and \
                key_of(xe.d['args'][0]) == key_of(pe[0].d['result']) and img is not None and key_of(img) == key_of(x)
        ctx.check(okn, 'R02.8', sel.short, sel.loc(),
                  'new item = Item(Point(GetImage(x)), x) with x computed from the popped interval',
                  'the new item is not built as Item(Point(GetImage(x)), x) with x = new point of the popped '
                  'interval', key=f'R02.8::{sel.short}::new-item')


def r02_9(ctx: Ctx):
    """A trial's recorded value/index never changes after its evaluation: M (the largest slope seen) and every
    queued characteristic were computed from it."""
    rid = 'R02.9'
    ctx.rule(rid, 'recorded trial values are immutable: SetZ / SetIndex (and direct stores of the value / index '
                  'fields) happen only in the evaluation routine')
    roles = C.roles_of(ctx)
    try:
        er = roles.eval_routine
    except RoleMissing as e:
        ctx.fail(rid, f'role {e.role}', 'iOpt/', str(e), key=f'{rid}::role::{e.role}')
        return
    item = ctx.ix.cls('SearchDataItem')
    setters = {roles.fq(item.lookup(n)): n for n in ('SetZ', 'SetIndex') if item.lookup(n)}
    allowed = roles.dominated_closure({roles.fq(er)})
    n = 0
    for sq, nm in setters.items():
        for (caller, _nid) in ctx.pta.callers.get(sq, ()):
            n += 1
            f = ctx.ix.funcs.get(caller)
            if f is not None and not f.module.name.startswith(('iOpt.method', 'iOpt.solver')):
                continue
            ctx.check(caller in allowed, rid, f.short if f else caller, f.loc() if f else '',
                      f'{nm} is called from the evaluation routine',
                      f'{f.short if f else caller} calls {nm} outside the evaluation routine: the value of an '
                      f'already recorded trial changes after M and the characteristics were computed from it, so '
                      f'later trials are not the decision-rule points of the recorded history',
                      key=f'{rid}::{caller}::calls::{nm}')
    for m in roles.mutations():
        if m.init_self or m.kind not in ('attr', 'aug') or m.field not in ('_SearchDataItem__z', '_SearchDataItem__index'):
            continue
        q = roles.fq(m.func)
        if q in setters or q in allowed:
            continue
        n += 1
        ctx.fail(rid, m.func.short, m.loc(), f'{m.text()[:60]} rewrites the recorded value/index of a trial outside '
                                             f'the evaluation routine', key=ctx.key_for(rid, m.func, m.node))
    ctx.floor(rid, 'call sites of the value/index setters', n, 2)


def r02_10(ctx: Ctx):
    """The best-interval request is a pop: the interval leaves the queue and comes back only when the renewal routine
    re-queues it after the subdivision.  A second requester takes the maximal interval out and drops it: until the
    next full recalculation the following trials subdivide non-maximal intervals."""
    rid = 'R02.10'
    ctx.rule(rid, 'who may pop: outside the container classes only the selection routine requests the interval with '
                  'the maximal characteristic (the request removes it from the queue)')
    roles = C.roles_of(ctx)
    try:
        sel = roles.selection
    except RoleMissing as e:
        ctx.fail(rid, f'role {e.role}', 'iOpt/', str(e), key=f'{rid}::role::{e.role}')
        return
    reqs = set(roles.sd_method('GetDataItemWithMaxGlobalR')) | set(roles.sd_method('GetDataItemWithMaxLocalR'))
    sdc = ctx.ix.cls('SearchData')
    n = 0
    for (caller, nid), cs in sorted(ctx.pta.calls.items(), key=lambda kv: (kv[0][0], kv[0][1])):
        if not (set(c for c in cs if isinstance(c, FuncInfo)) & reqs):
            continue
        f = ctx.ix.funcs.get(caller.replace('@setter', ''))
        if f is None or not f.module.name.startswith('iOpt.') or \
                (f.cls is not None and f.cls.is_subclass_of(sdc)):
            continue
        n += 1
        node = ctx.pta.call_nodes.get((caller, nid))
        ctx.check(roles.lift(f) is sel, rid, f.short, f.loc(node) if node is not None else f.loc(),
                  'the best interval is requested by the selection routine',
                  f'{f.short} requests the interval with the maximal characteristic although it is not the selection '
                  f'routine: the request pops the interval from the queue and nothing puts it back, so the next '
                  f'trials subdivide intervals that are not maximal', key=f'{rid}::{f.short}::pops-best')
    ctx.floor(rid, 'best-interval requests outside the container classes', n, 1)


def check(ctx: Ctx):
    roles = C.roles_of(ctx)
    if C.want(ctx, 'R02.10'):
        r02_10(ctx)
    if C.want(ctx, 'R02.9'):
        r02_9(ctx)
    if C.want(ctx, 'R02.3'):
        r02_3_no_reset(ctx.full_view())
    if C.want(ctx, 'R06.4'):
        # the Hoelder length D = (x_r - x_l)^(1/N) of the statement: N is the dimension of the evolvent's domain
        # (numberOfFloatVariables), whatever else the problem declares (= R06.4, re-run here)
        from . import c06
        c06.r06_4(ctx, timing=False)
    for rid, fn in (('R02.1', r02_1), ('R02.2', r02_2), ('R02.3', r02_3), ('R02.4', r02_4), ('R02.5', r02_5),
                    ('R02.6', r02_6), ('R02.7', r02_7_8)):
        if C.want(ctx, rid) or (rid == 'R02.7' and C.want(ctx, 'R02.8')):
            fn(ctx)
    ctx.assume('floating-point rounding and ties between equal characteristics are outside the rules')
    ctx.assume('DEPQ keeps its documented ordering (popfirst = highest priority)')
